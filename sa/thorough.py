"""Thorough tier = quick obligations
                 + package-wide sweep of the generic rules (non-anchored hits are NOTEs: they belong
                   to no listed property, are recorded in the evidence and never fail a run)
                 + mutation self-test of this property's checker (seeded variants must be reported,
                   behaviour-preserving twins must stay silent; every mutant also on the alpha-renamed package and on
                   every whole-package shape twin), 16 workers, in-memory overlays.

A failing self-test is a defect of the *checker*: the run ends ANALYSIS-ERROR (exit 2), never as a
VIOLATION of the property."""
from __future__ import annotations

import ast
import os
import time
from typing import Dict, List

from .core import call_name, dotted, norm, walk_local, local_defs
from .rules import matcher as M
from .rules import walk as W
from .rules.memo import id_calls
from .rules.select import selections

SWEEPS = {
    "R2": {"C06", "C07", "C11", "C12", "C13", "C18"},
    "R5": {"C19", "C20", "C16", "C17"},
    "R1": {"C07", "C14", "C18", "C08"},
    "R8": {"C14"},
    "R10": {"C17"},
    "R11": {"C05", "C11", "C08"},
    "R14": {"C08", "C18"},
    "R4": {"C08", "C16", "C18"},
}


def sweep(prop: str, rep) -> Dict[str, list]:
    repo = rep.repo
    out: Dict[str, list] = {}
    funcs = [fi for fi in repo.all_funcs() if ".<locals>." not in fi.qual]
    if prop in SWEEPS["R2"]:
        rows = []
        for fi in funcs:
            try:
                ss = M.sites(fi)
            except Exception:
                continue
            if not ss:
                continue
            defs = local_defs(fi.node, into_nested=True)
            for s in ss:
                r1, r2 = M.role(fi, s.g1, defs), M.role(fi, s.g2, defs)
                meths = sorted({m for m, _ in s.methods})
                rows.append({"site": f"{fi.key}:{s.call.lineno}", "G1": norm(s.g1)[:40], "role_G1": r1, "G2": norm(s.g2)[:40], "role_G2": r2, "methods": meths})
                if any(m in M.SUB_METHODS for m in meths) and r1 == "PATTERN" and r2 == "HOST":
                    rep.note(f"sweep R2: {fi.key}:{s.call.lineno} asks a subgraph question with the pattern as G1 (not anchored by {prop})")
        out["matcher_sites"] = rows
    if prop in SWEEPS["R5"]:
        rows = []
        try:
            table = W.writer_table(repo)
        except Exception:
            table = {}
        for fi in funcs:
            if not fi.rel.startswith("synkit/CRN/"):
                continue
            for w in W.walks(fi, graph_names=("G", "B", "bip", "graph")):
                for role, cmp_ in w.roles_tested:
                    want = table.get(role, {}).get("dir")
                    row = {"site": f"{fi.key}:{w.loop.lineno}", "walk": f"{w.graph}.{w.method}({w.node})", "role": role,
                           "walk_direction": w.direction, "writer_direction": want}
                    rows.append(row)
                    if want and want != w.direction:
                        rep.note(f"sweep R5: {row['site']} walks {w.direction}-arcs but tests role '{role}' (dead branch on a DiGraph; not anchored by {prop})")
        out["directed_walks"] = rows
    if prop in SWEEPS["R1"]:
        rows = []
        for fi in funcs:
            for c in id_calls(fi.node):
                tmp = not isinstance(c.args[0], (ast.Name, ast.Attribute))
                rows.append({"site": f"{fi.key}:{c.lineno}", "expr": norm(c)[:60], "temporary": tmp})
                if tmp:
                    rep.note(f"sweep R1: id() of a temporary at {fi.key}:{c.lineno}")
        out["id_uses"] = rows
    if prop in SWEEPS["R4"]:
        rows = []
        for fi in funcs:
            for c in walk_local(fi.node, into_nested=True):
                if isinstance(c, ast.Call) and isinstance(c.func, ast.Name) and c.func.id == "hash" and c.args:
                    a = c.args[0]
                    # hash(self.x) inside __hash__ is the intended use
                    if fi.qual.endswith("__hash__"):
                        continue
                    rows.append({"site": f"{fi.key}:{c.lineno}", "expr": norm(c)[:70]})
        out["builtin_hash_on_data"] = rows
    if prop in SWEEPS["R10"]:
        rows = []
        for fi in funcs:
            for c in walk_local(fi.node, into_nested=True):
                if isinstance(c, ast.Call) and call_name(c) == "linprog":
                    rows.append({"site": f"{fi.key}:{c.lineno}", "call": norm(c)[:80]})
        out["linprog_sites"] = rows
    if prop in SWEEPS["R11"]:
        rows = []
        for fi in funcs:
            if not (fi.rel.startswith("synkit/Graph/Matcher/") or fi.rel.startswith("synkit/Graph/Canon/")):
                continue
            for node, kind, tie, _txt in selections(fi):
                rows.append({"site": f"{fi.key}:{getattr(node, 'lineno', 0)}", "kind": kind, "tie_break": tie})
        out["selections_in_matcher_and_canon"] = rows
    if prop in SWEEPS["R14"]:
        from .rules import canon as C
        rows = []
        for fi in funcs:
            for dc, src in C.mapping_sites(fi):
                defs = local_defs(fi.node)
                cls, why = C.classify_order(defs, src)
                rows.append({"site": f"{fi.key}:{dc.lineno}", "offset": C.offset_of(dc), "class": cls, "why": why[:80]})
        out["relabel_sites"] = rows
    return out


def extend(prop, rep, mod, code, args):
    t0 = time.time()
    try:
        rep.extra["sweep"] = sweep(prop, rep)
    except Exception as exc:  # the sweep is informational
        rep.extra["sweep_error"] = repr(exc)
    for n in rep.notes:
        pass
    if code != 0:
        return code  # a violation of the property on this tree: report it, do not self-test on top of it
    from .selftest.run import selftest
    res = selftest([prop], root=rep.repo.root, jobs=getattr(args, "jobs", 16), renamed_mutants=True, reshaped_mutants=True)
    summary = {"variants": len(res), "ok": sum(1 for r in res if r[3] == "ok"), "skipped": sum(1 for r in res if r[3] == "skipped"),
               "failing": [f"{r[1]} {r[3]} {r[2]} :: {r[4][:160]}" for r in res if r[3] not in ("ok", "skipped")],
               "mutants_reported": [f"{r[2]} -> {r[4][:120]}" for r in res if r[1] == "mutant" and r[3] == "ok"],
               "twins_silent": [r[2] for r in res if r[1] == "twin" and r[3] == "ok"],
               "skipped_names": [f"{r[2]} ({r[4]})" for r in res if r[3] == "skipped"]}
    rep.extra["selftest"] = summary
    rep.extra["thorough_wall_s"] = round(time.time() - t0, 2)
    for n in rep.notes:
        print(f"NOTE: {n}")
    print(f"{prop} [thorough] sweep: " + ", ".join(f"{k}={len(v)}" for k, v in rep.extra.get("sweep", {}).items()))
    print(f"{prop} [thorough] self-test: {summary['variants']} variants, {summary['ok']} ok, {summary['skipped']} skipped, {len(summary['failing'])} failing")
    if summary["failing"]:
        for f in summary["failing"]:
            print(f"ANALYSIS-ERROR property={prop} self-test: {f}")
        return 2
    return 0
