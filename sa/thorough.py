"""Thorough tier: placeholder until the sweep / self-test modules are wired in."""
def extend(prop, rep, mod, code, args):
    return code
