"""Shape domain: fixed-length symbolic tuples with slice / concat / index, whose
elements are linear forms over named atoms, plus a tiny straight-line symbolic
executor and a three-valued path walker.  Expression normalisation only."""
from __future__ import annotations

import ast
from fractions import Fraction
from typing import Callable, Dict, Iterator, List, Optional, Tuple

from .absval import Lin, Undecided, IDENTITY_CALLS
from .core import norm


class SymTuple(tuple):
    """A tuple of known length whose members are Lin / SymTuple / opaque str."""

    def pretty(self):
        return "(" + ", ".join(pretty(e) for e in self) + ")"


def pretty(v) -> str:
    if isinstance(v, SymTuple):
        return v.pretty()
    if isinstance(v, Lin):
        return v.pretty()
    return str(v)


def sym_tuple(name: str, n: int) -> SymTuple:
    return SymTuple(Lin({f"{name}[{i}]": Fraction(1)}) for i in range(n))


def atom(name: str) -> Lin:
    return Lin({name: Fraction(1)})


def sym_eval(expr: ast.AST, env: Dict[str, object], opaque: Optional[Callable] = None):
    """Evaluate ``expr`` in the shape domain.  ``env`` maps normalised source
    text (usually plain names) to SymTuple / Lin values."""
    key = norm(expr)
    if key in env:
        return env[key]
    if isinstance(expr, ast.Constant):
        if isinstance(expr.value, (int, float)) and not isinstance(expr.value, bool):
            return Lin({1: Fraction(expr.value)}).clean()
        return Lin({repr(expr.value): Fraction(1)})
    if isinstance(expr, ast.Tuple):
        return SymTuple(sym_eval(e, env, opaque) for e in expr.elts)
    if isinstance(expr, ast.Subscript):
        base = sym_eval(expr.value, env, opaque)
        if isinstance(base, SymTuple):
            sl = expr.slice
            if isinstance(sl, ast.Slice):
                lo = _const_int(sl.lower, 0)
                hi = _const_int(sl.upper, len(base))
                if sl.step is not None:
                    raise Undecided(f"slice step in {key}")
                return SymTuple(base[lo:hi])
            i = _const_int(sl, None)
            if i is None:
                raise Undecided(f"non-constant index in {key}")
            if not -len(base) <= i < len(base):
                raise Undecided(f"index out of range in {key}")
            return base[i]
        raise Undecided(f"subscript of a non-tuple: {key}")
    if isinstance(expr, ast.BinOp):
        l = sym_eval(expr.left, env, opaque)
        r = sym_eval(expr.right, env, opaque)
        if isinstance(l, SymTuple) and isinstance(r, SymTuple) and isinstance(expr.op, ast.Add):
            return SymTuple(tuple(l) + tuple(r))
        if isinstance(l, Lin) and isinstance(r, Lin):
            if isinstance(expr.op, ast.Add):
                return l + r
            if isinstance(expr.op, ast.Sub):
                return l - r
            if isinstance(expr.op, ast.Mult):
                if l.is_const():
                    return r.scale(l.get(1, 0))
                if r.is_const():
                    return l.scale(r.get(1, 0))
        raise Undecided(f"unsupported arithmetic: {key}")
    if isinstance(expr, ast.UnaryOp) and isinstance(expr.op, ast.USub):
        v = sym_eval(expr.operand, env, opaque)
        if isinstance(v, Lin):
            return v.scale(-1)
    if isinstance(expr, ast.Call) and isinstance(expr.func, ast.Name):
        if expr.func.id in IDENTITY_CALLS and expr.args:
            return sym_eval(expr.args[0], env, opaque)
        if expr.func.id == "tuple" and len(expr.args) == 1:
            v = sym_eval(expr.args[0], env, opaque)
            if isinstance(v, SymTuple):
                return v
    if opaque is not None:
        v = opaque(expr)
        if v is not None:
            return v
    raise Undecided(f"cannot evaluate {key} in the shape domain")


def _const_int(node, default):
    if node is None:
        return default
    if isinstance(node, ast.Constant) and isinstance(node.value, int):
        return node.value
    if isinstance(node, ast.UnaryOp) and isinstance(node.op, ast.USub) and isinstance(node.operand, ast.Constant):
        return -node.operand.value
    return None


# --------------------------------------------------------------------------
# three-valued tests and path walking
# --------------------------------------------------------------------------
def tri(test: ast.AST, known: Dict[str, Optional[bool]]) -> Optional[bool]:
    """Three-valued truth of ``test`` given the truth of some atoms (keyed by
    normalised text).  Unknown atoms make the result unknown unless decided by
    short-circuit."""
    k = norm(test)
    if k in known:
        return known[k]
    if isinstance(test, ast.Constant):
        return bool(test.value)
    if isinstance(test, ast.UnaryOp) and isinstance(test.op, ast.Not):
        v = tri(test.operand, known)
        return None if v is None else (not v)
    if isinstance(test, ast.BoolOp):
        vals = [tri(v, known) for v in test.values]
        if isinstance(test.op, ast.And):
            if any(v is False for v in vals):
                return False
            return True if all(v is True for v in vals) else None
        if any(v is True for v in vals):
            return True
        return False if all(v is False for v in vals) else None
    return None


class Path:
    def __init__(self):
        self.stmts: List[ast.AST] = []
        self.assumed: List[Tuple[ast.AST, bool]] = []
        self.end: Optional[ast.AST] = None  # Return / Raise / None (fall through)

    def copy(self):
        p = Path()
        p.stmts = list(self.stmts)
        p.assumed = list(self.assumed)
        p.end = self.end
        return p


def walk_paths(body: List[ast.stmt], known: Dict[str, Optional[bool]], limit: int = 4096) -> List[Path]:
    """All acyclic paths through ``body`` consistent with ``known``.  Loops are
    explored with zero and with one iteration (sufficient for counting effects
    that must happen 'exactly once per call' outside loops)."""
    done: List[Path] = []

    def run(stmts, path: Path) -> List[Path]:
        live = [path]
        for st in stmts:
            nxt = []
            for p in live:
                nxt += step(st, p)
                if len(nxt) + len(done) > limit:
                    raise Undecided("too many paths")
            live = nxt
            if not live:
                break
        return live

    def step(st, p: Path) -> List[Path]:
        # `x = A if c else B` (also produced by the load-time normal form from an if/else pair of assignments) forks like an `if`
        if isinstance(st, ast.Assign) and isinstance(st.value, ast.IfExp):
            v = tri(st.value.test, known)
            outs = []
            for sense, val in ((True, st.value.body), (False, st.value.orelse)):
                if v is not None and v != sense:
                    continue
                q = p.copy()
                q.assumed.append((st.value.test, sense))
                outs += step(ast.copy_location(ast.Assign(targets=st.targets, value=val), st), q)
            return outs
        if isinstance(st, ast.If):
            v = tri(st.test, known)
            outs = []
            for sense, blk in ((True, st.body), (False, st.orelse)):
                if v is not None and v != sense:
                    continue
                q = p.copy()
                q.assumed.append((st.test, sense))
                outs += run(blk, q)
            return outs
        if isinstance(st, (ast.Return, ast.Raise)):
            p.stmts.append(st)
            p.end = st
            done.append(p)
            return []
        if isinstance(st, (ast.For, ast.While, ast.AsyncFor)):
            q0 = p.copy()
            q1 = p.copy()
            q1.stmts.append(st)
            outs = run(st.body, q1)
            return [q0] + outs
        if isinstance(st, (ast.With, ast.AsyncWith)):
            p.stmts.append(st)
            return run(st.body, p)
        if isinstance(st, ast.Try):
            outs = run(st.body, p.copy())
            for h in st.handlers:
                outs += run(h.body, p.copy())
            if st.finalbody:
                outs = [r for o in outs for r in run(st.finalbody, o)]
            return outs
        p.stmts.append(st)
        return [p]

    for p in run(body, Path()):
        done.append(p)
    return done
