"""Loader, indices and small syntax-tree helpers shared by all rules."""
from __future__ import annotations

import ast
import collections
import hashlib
import os
from dataclasses import dataclass, field
from typing import Callable, Dict, Iterable, Iterator, List, Optional, Sequence, Tuple


from .normal import normalise  # noqa: E402
from .inline import inline_new_helpers  # noqa: E402


class AnalysisError(Exception):
    """The analyser cannot decide (vanished anchor, unmodelled idiom).

    Always ends the run as *analysis-broken* (exit 2), never as a pass and
    never as a VIOLATION."""


# --------------------------------------------------------------------------
# loader
# --------------------------------------------------------------------------
@dataclass
class FuncInfo:
    rel: str  # path relative to the analysed root, e.g. synkit/Graph/x.py
    qual: str  # Class.meth or func or outer.<locals>.inner
    node: ast.AST  # FunctionDef / AsyncFunctionDef
    cls: Optional[ast.ClassDef]
    module: "ModuleInfo"

    @property
    def key(self) -> str:
        return f"{self.rel}:{self.qual}"

    @property
    def params(self) -> List[str]:
        a = self.node.args
        return [x.arg for x in a.posonlyargs + a.args + a.kwonlyargs]


@dataclass
class ModuleInfo:
    rel: str
    path: str
    src: str
    tree: ast.Module
    funcs: Dict[str, FuncInfo] = field(default_factory=dict)
    classes: Dict[str, ast.ClassDef] = field(default_factory=dict)
    imports: Dict[str, str] = field(default_factory=dict)  # local name -> dotted origin
    inlined: List[str] = field(default_factory=list)  # helpers extracted after the pinned tree that were inlined at load time
    specialised: List[tuple] = field(default_factory=list)  # (function, option, default): options added after the pinned tree, analysed at their default

    def digest(self) -> str:
        return hashlib.sha256(self.src.encode()).hexdigest()[:16]


_PARSE_CACHE: Dict[tuple, "ModuleInfo"] = {}  # per process; keyed by (path, mtime, size)
_OVERLAY_CACHE: "collections.OrderedDict[tuple, ModuleInfo]" = collections.OrderedDict()  # per process; keyed by (rel, sha1 of the overlay text); LRU
_OVERLAY_CACHE_MAX = 700
_SIG_CACHE: Dict[tuple, tuple] = {}  # per process; (rel, sha1 of the source) -> (signatures, imports)


def package_signatures(root: str = "/repo", package: str = "synkit", overlay: Optional[Dict[str, str]] = None):
    """({module rel: {local name: signature}}, digest) without building a Repo (used by the self-test's twin generator)"""
    r = Repo.__new__(Repo)
    r.overlay = overlay or {}
    r.root = os.path.abspath(root)
    return r._package_signatures(os.path.join(r.root, package))


class Repo:
    """All of ``<root>/synkit/**/*.py`` parsed once."""

    def __init__(self, root: str = "/repo", package: str = "synkit",
                 overlay: Optional[Dict[str, str]] = None):
        """``overlay`` maps a relative path to replacement source text: the
        self-test analyses seeded variants of the tree without writing them."""
        self.overlay = overlay or {}
        self.root = os.path.abspath(root)
        self.package = package
        self.modules: Dict[str, ModuleInfo] = {}
        self.parse_failures: List[str] = []
        self.consulted: Dict[str, str] = {}
        pkg = os.path.join(self.root, package)
        if not os.path.isdir(pkg):
            raise AnalysisError(f"package directory {pkg} is missing")
        externs, sig_digest = self._package_signatures(pkg)
        self._externs = externs
        # a module's normal form depends on its own text and on the signatures of what it imports from the package - nothing else

        def _stable(x):
            return sorted((k, _stable(v)) for k, v in x.items()) if isinstance(x, dict) else (tuple(_stable(y) for y in x) if isinstance(x, (tuple, list)) else x)
        ext_digest = {rel: hashlib.sha1(repr(_stable(ex)).encode()).hexdigest() for rel, ex in externs.items()}
        for dirpath, dirnames, filenames in os.walk(pkg):
            dirnames[:] = sorted(d for d in dirnames if d != "__pycache__")
            for fn in sorted(filenames):
                if not fn.endswith(".py"):
                    continue
                path = os.path.join(dirpath, fn)
                rel = os.path.relpath(path, self.root)
                try:
                    ok_ = None
                    if rel in self.overlay:
                        src = self.overlay[rel]
                        ck = None
                        ok_ = (rel, hashlib.sha1(src.encode("utf-8", "replace")).hexdigest(), ext_digest.get(rel), self._spec_digest.get(rel))
                        if ok_ in _OVERLAY_CACHE:
                            _OVERLAY_CACHE.move_to_end(ok_)
                            self.modules[rel] = _OVERLAY_CACHE[ok_]
                            continue
                    else:
                        st = os.stat(path)
                        ck = (path, st.st_mtime_ns, st.st_size, ext_digest.get(rel), self._spec_digest.get(rel))
                        if ck in _PARSE_CACHE:
                            self.modules[rel] = _PARSE_CACHE[ck]
                            continue
                        with open(path, "r", encoding="utf-8") as fh:
                            src = fh.read()
                    from .specialise import specialise, inline_new_constants
                    tree00, new_consts = inline_new_constants(ast.parse(src, filename=path), rel, self._foreign_consts.get(rel))
                    tree0, specialised = specialise(tree00, rel, self._used_kws, self._max_pos, self._spec_ok)
                    specialised = list(specialised) + [("<module>", c_, "named constant read as its literal") for c_ in new_consts]
                    tree = normalise(tree0, externs.get(rel))
                    tree, inlined = inline_new_helpers(tree, rel)
                    if inlined:
                        tree = normalise(tree, externs.get(rel))
                except (SyntaxError, UnicodeDecodeError, OSError) as exc:
                    self.parse_failures.append(f"{rel}: {exc}")
                    continue
                mi = ModuleInfo(rel=rel, path=path, src=src, tree=tree)
                mi.inlined = inlined
                mi.specialised = specialised
                _index_module(mi)
                self.modules[rel] = mi
                if ck is not None:
                    _PARSE_CACHE[ck] = mi
                elif ok_ is not None:
                    _OVERLAY_CACHE[ok_] = mi
                    while len(_OVERLAY_CACHE) > _OVERLAY_CACHE_MAX:
                        _OVERLAY_CACHE.popitem(last=False)

        self._cross_module_helpers()

    def _package_signatures(self, pkg: str):
        """({module rel: {local name: signature of the package function / class it imports}}, digest of all signatures).
        A first, cheap pass (ast.parse only, cached by content): normal form N22 needs the parameter order of callees defined in other modules."""
        from .normal import module_signatures
        sigs, imps, usage, newp, newc = {}, {}, {}, {}, {}
        for dirpath, dirnames, filenames in os.walk(pkg):
            dirnames[:] = sorted(d for d in dirnames if d != "__pycache__")
            for fn in sorted(filenames):
                if not fn.endswith(".py"):
                    continue
                path = os.path.join(dirpath, fn)
                rel = os.path.relpath(path, self.root)
                try:
                    if rel in self.overlay:
                        src = self.overlay[rel]
                    else:
                        with open(path, "r", encoding="utf-8") as fh:
                            src = fh.read()
                    key = hashlib.sha1(src.encode("utf-8", "replace")).hexdigest()
                    hit = _SIG_CACHE.get((rel, key))
                    if hit is None:
                        t = ast.parse(src)
                        im = {}
                        for st in ast.walk(t):
                            if isinstance(st, ast.ImportFrom):
                                mod = ("." * st.level) + (st.module or "")
                                for a in st.names:
                                    im[a.asname or a.name] = f"{mod}.{a.name}"
                        from .specialise import call_usage, new_params, new_module_constants
                        hit = (module_signatures(t), im, call_usage(t), new_params(t, rel), new_module_constants(t, rel))
                        _SIG_CACHE[(rel, key)] = hit
                    sigs[rel], imps[rel] = hit[0], hit[1]
                    usage[rel] = hit[2]
                    newp[rel] = hit[3]
                    newc[rel] = hit[4]
                except (SyntaxError, UnicodeDecodeError, OSError):
                    continue
        rels = set(sigs)

        def resolve(rel, org):
            parts = org.split(".")
            level = 0
            while level < len(parts) and parts[level] == "":
                level += 1
            names = [p_ for p_ in parts[level:] if p_]
            if not names:
                return None, None
            fname, modparts = names[-1], names[:-1]
            if level:
                base = os.path.dirname(rel).split(os.sep)
                base = base[: len(base) - (level - 1)] if level > 1 else base
                path = os.path.join(*(base + modparts)) if (base + modparts) else ""
            else:
                path = os.path.join(*modparts) if modparts else ""
            for cand in (path + ".py", os.path.join(path, "__init__.py")):
                if cand in rels:
                    return cand, fname
            return None, None
        externs = {}
        self._foreign_consts = {}
        for rel, im in imps.items():
            ex = {}
            for local, org in im.items():
                target, name = resolve(rel, org)
                hops = 0
                # follow re-exports through __init__ modules (from .x import name)
                while target is not None and name not in sigs[target][0] and name not in sigs[target][1] and name in imps.get(target, {}) and hops < 3:
                    target, name = resolve(target, imps[target][name])
                    hops += 1
                if target is None or target == rel:
                    continue
                if name in newc.get(target, {}):
                    self._foreign_consts.setdefault(rel, {})[local] = newc[target][name]
                    continue
                funcs, classes = sigs[target]
                if name in funcs:
                    ex[local] = ("func", funcs[name])
                elif name in classes:
                    ex[local] = ("class", classes[name])
            if ex:
                externs[rel] = ex
        digest = hashlib.sha1(repr(sorted((r, sorted(f.items()), sorted((c, sorted(m.items())) for c, m in cl.items())) for r, (f, cl) in sigs.items())).encode()).hexdigest()
        # keywords / positional counts used by calls anywhere in the package (sa/specialise.py: an option no caller passes is analysed at its default)
        self._used_kws = set()
        self._max_pos = {}
        kw_values = {}
        for rel_, (kws_, npos_, vals_) in usage.items():
            self._used_kws |= kws_
            for k_, v_ in npos_.items():
                self._max_pos[k_] = max(self._max_pos.get(k_, 0), v_)
            for k_, v_ in vals_.items():
                kw_values.setdefault(k_, []).extend(v_)
        from .specialise import options_safe_to_fold
        all_new = {}
        for rel_, ps_ in newp.items():
            for k_, d_ in ps_.items():
                all_new[k_] = d_ if (k_ not in all_new or all_new[k_] == d_) else None
        self._spec_ok = options_safe_to_fold(all_new, self._used_kws, kw_values)
        self._spec_digest = {rel_: hashlib.sha1(repr(sorted((nm_, p_, (nm_, p_) in self._spec_ok, self._max_pos.get(nm_, 0))
                                                                for nm_, p_ in ps_)).encode()).hexdigest() for rel_, ps_ in newp.items() if ps_}
        for rel_, fc_ in self._foreign_consts.items():
            self._spec_digest[rel_] = hashlib.sha1((self._spec_digest.get(rel_, "") + repr(sorted(fc_.items()))).encode()).hexdigest()
        return externs, digest

    def _cross_module_helpers(self) -> None:
        """a helper that was extracted into ANOTHER module of the package (not in the inventory of the pinned tree there) is substituted at its
        call sites in the modules that import it, exactly like a helper extracted inside one module"""
        from .inline import new_module_functions, inline_new_helpers as _inl
        new_by_mod = {rel: new_module_functions(mi.tree, rel) for rel, mi in self.modules.items()}
        new_by_mod = {k: v for k, v in new_by_mod.items() if v}
        if not new_by_mod:
            return
        for rel, mi in list(self.modules.items()):
            foreign = {}
            for local, org in mi.imports.items():
                target, fname = self._resolve_import(rel, org)
                if target in new_by_mod and fname in new_by_mod[target] and target != rel:
                    foreign[local] = new_by_mod[target][fname]
            if not foreign:
                continue
            try:
                from .specialise import specialise as _spec, inline_new_constants as _inc
                tree = normalise(_spec(_inc(ast.parse(mi.src, filename=mi.path), rel, self._foreign_consts.get(rel))[0], rel, self._used_kws, self._max_pos, self._spec_ok)[0], self._externs.get(rel))
                tree, inlined = _inl(tree, rel, foreign)
                if inlined:
                    tree = normalise(tree, self._externs.get(rel))
            except (SyntaxError, RecursionError):
                continue
            if not inlined:
                continue
            mi2 = ModuleInfo(rel=rel, path=mi.path, src=mi.src, tree=tree)
            mi2.inlined = inlined
            mi2.specialised = list(getattr(mi, "specialised", []))
            _index_module(mi2)
            self.modules[rel] = mi2   # depends on another module's content: never put into the per-file parse cache

    def _resolve_import(self, rel: str, org: str):
        """('synkit/CRN/Props/utils.py', '_reaction_side') for '.utils._reaction_side' seen from synkit/CRN/Props/deficiency.py"""
        parts = org.split(".")
        level = 0
        while level < len(parts) and parts[level] == "":
            level += 1
        names = [p_ for p_ in parts[level:] if p_]
        if not names:
            return None, None
        fname = names[-1]
        modparts = names[:-1]
        if level:
            base = os.path.dirname(rel).split(os.sep)
            base = base[: len(base) - (level - 1)] if level > 1 else base
            path = os.path.join(*(base + modparts)) if (base + modparts) else ""
        else:
            path = os.path.join(*modparts) if modparts else ""
        for cand in (path + ".py", os.path.join(path, "__init__.py")):
            if cand in self.modules:
                return cand, fname
        return None, None

    # -- accessors (fail closed) ------------------------------------------
    def module(self, rel: str) -> ModuleInfo:
        mi = self.modules.get(rel)
        if mi is None:
            bad = [p for p in self.parse_failures if p.startswith(rel + ":")]
            if bad:
                raise AnalysisError(f"anchored module does not parse: {bad[0]}")
            raise AnalysisError(f"anchored module vanished: {rel}")
        self.consulted[rel] = mi.digest()
        return mi

    def func(self, rel: str, qual: str) -> FuncInfo:
        mi = self.module(rel)
        fi = mi.funcs.get(qual)
        if fi is None:
            raise AnalysisError(f"anchored function vanished: {rel}:{qual}")
        return fi

    def maybe_func(self, rel: str, qual: str) -> Optional[FuncInfo]:
        mi = self.modules.get(rel)
        if mi is None:
            return None
        self.consulted[rel] = mi.digest()
        return mi.funcs.get(qual)

    def cls(self, rel: str, name: str) -> ast.ClassDef:
        mi = self.module(rel)
        c = mi.classes.get(name)
        if c is None:
            raise AnalysisError(f"anchored class vanished: {rel}:{name}")
        return c

    def all_funcs(self) -> Iterator[FuncInfo]:
        for mi in self.modules.values():
            yield from mi.funcs.values()

    def loc(self, rel: str, node: ast.AST) -> str:
        return f"{rel}:{getattr(node, 'src_lineno', getattr(node, 'lineno', 0))}"


def _index_module(mi: ModuleInfo) -> None:
    def visit(body, prefix: str, cls: Optional[ast.ClassDef]):
        for st in body:
            if isinstance(st, (ast.FunctionDef, ast.AsyncFunctionDef)):
                q = prefix + st.name
                # keep the *last* definition, as Python does
                mi.funcs[q] = FuncInfo(mi.rel, q, st, cls, mi)
                visit_nested(st, q + ".<locals>.", cls)
            elif isinstance(st, ast.ClassDef):
                q = prefix + st.name
                mi.classes[q] = st
                visit(st.body, q + ".", st)
            elif isinstance(st, (ast.If, ast.Try, ast.With)):
                for sub in _sub_bodies(st):
                    visit(sub, prefix, cls)

    def visit_nested(fn, prefix, cls):
        for st in ast.walk(fn):
            if st is fn:
                continue
            if isinstance(st, (ast.FunctionDef, ast.AsyncFunctionDef)):
                q = prefix + st.name
                if q not in mi.funcs:
                    mi.funcs[q] = FuncInfo(mi.rel, q, st, cls, mi)

    visit(mi.tree.body, "", None)
    for st in ast.walk(mi.tree):
        if isinstance(st, ast.Import):
            for a in st.names:
                mi.imports[a.asname or a.name.split(".")[0]] = a.name
        elif isinstance(st, ast.ImportFrom):
            mod = ("." * st.level) + (st.module or "")
            for a in st.names:
                mi.imports[a.asname or a.name] = f"{mod}.{a.name}"


def _sub_bodies(st) -> List[list]:
    out = []
    for f in ("body", "orelse", "finalbody"):
        b = getattr(st, f, None)
        if isinstance(b, list):
            out.append(b)
    for h in getattr(st, "handlers", []) or []:
        out.append(h.body)
    return out


# --------------------------------------------------------------------------
# syntax helpers
# --------------------------------------------------------------------------
def dotted(node: ast.AST) -> Optional[str]:
    """``a.b.c`` for Name/Attribute chains, else None."""
    parts = []
    while isinstance(node, ast.Attribute):
        parts.append(node.attr)
        node = node.value
    if isinstance(node, ast.Name):
        parts.append(node.id)
        return ".".join(reversed(parts))
    return None


def norm(node: ast.AST) -> str:
    """Normalised source text of a node (used in finding keys, never lines)."""
    try:
        return " ".join(ast.unparse(node).split())
    except Exception:  # pragma: no cover
        return type(node).__name__


def const(node: ast.AST):
    """Python value of a constant expression (numbers, strings, tuples/lists of
    constants, unary minus); raises ValueError otherwise."""
    if isinstance(node, ast.Constant):
        return node.value
    if isinstance(node, ast.UnaryOp) and isinstance(node.op, ast.USub):
        return -const(node.operand)
    if isinstance(node, (ast.Tuple, ast.List)):
        return tuple(const(e) for e in node.elts)
    raise ValueError(norm(node))


def module_const(mi, node: ast.AST):
    """const(), additionally following a Name to its single module-level assignment of a constant expression"""
    if isinstance(node, ast.Name):
        vals = []
        for st in mi.tree.body:
            tg = st.targets[0] if isinstance(st, ast.Assign) and len(st.targets) == 1 else (st.target if isinstance(st, ast.AnnAssign) and st.value is not None else None)
            if isinstance(tg, ast.Name) and tg.id == node.id:
                vals.append(st.value)
        if len(vals) == 1:
            return const(vals[0])
    return const(node)


def is_const(node: ast.AST, value=...) -> bool:
    try:
        v = const(node)
    except ValueError:
        return False
    return True if value is ... else (v == value and type(v) is type(value) or v == value)


def walk_local(fn: ast.AST, into_nested: bool = False) -> Iterator[ast.AST]:
    """ast.walk restricted to ``fn``'s own body (nested defs/lambdas/classes are
    yielded as nodes but not entered unless ``into_nested``)."""
    stack = list(ast.iter_child_nodes(fn))
    while stack:
        n = stack.pop()
        yield n
        if not into_nested and isinstance(
            n, (ast.FunctionDef, ast.AsyncFunctionDef, ast.ClassDef, ast.Lambda)
        ):
            continue
        stack.extend(ast.iter_child_nodes(n))


def calls_in(fn: ast.AST, pred: Optional[Callable[[ast.Call], bool]] = None,
             into_nested: bool = True) -> List[ast.Call]:
    out = [n for n in walk_local(fn, into_nested) if isinstance(n, ast.Call)]
    if pred:
        out = [c for c in out if pred(c)]
    out.sort(key=lambda c: (c.lineno, c.col_offset))
    return out


def call_name(c: ast.Call) -> str:
    """Last component of the callee: ``foo`` for foo(), ``bar`` for x.bar()."""
    f = c.func
    if isinstance(f, ast.Attribute):
        return f.attr
    if isinstance(f, ast.Name):
        return f.id
    return ""


def call_full(c: ast.Call) -> str:
    return dotted(c.func) or call_name(c)


def kwarg(c: ast.Call, name: str) -> Optional[ast.AST]:
    """the argument bound to parameter `name`: the keyword if written; for a callee the normal form resolved (N22: same module, or imported from
    another module of the package) also the positional argument at that parameter's position"""
    for k in c.keywords:
        if k.arg == name:
            return k.value
    params = getattr(c, "_params", None)
    if params and name in params and params.index(name) < len(c.args) and not any(isinstance(a, ast.Starred) for a in c.args):
        return c.args[params.index(name)]
    return None


def bound(fi: "FuncInfo", c: ast.Call, name: str) -> Optional[ast.AST]:
    """the expression a call binds to parameter `name`: the keyword if written, else - for a callee defined in the same module (by name, through
    self. / cls. / ClassName.) - the positional argument at that parameter's position (normal form N22 writes such arguments positionally)"""
    v = kwarg(c, name)
    if v is not None or any(isinstance(a, ast.Starred) for a in c.args):
        return v
    mi = fi.module
    f = c.func
    target = None
    if isinstance(f, ast.Name):
        target = mi.funcs.get(f.id) or (mi.funcs.get(f"{f.id}.__init__") if f.id in mi.classes else None)
    elif isinstance(f, ast.Attribute) and isinstance(f.value, ast.Name):
        if f.value.id in ("self", "cls") and fi.cls is not None:
            target = mi.funcs.get(f"{fi.cls.name}.{f.attr}")
        elif f.value.id in mi.classes:
            target = mi.funcs.get(f"{f.value.id}.{f.attr}")
    if target is None:
        return None
    params = list(target.params)
    if params and params[0] in ("self", "cls") and "staticmethod" not in [norm(d) for d in target.node.decorator_list]:
        params = params[1:]
    if name in params and params.index(name) < len(c.args):
        return c.args[params.index(name)]
    return None


def arg(c: ast.Call, idx: int, name: Optional[str] = None) -> Optional[ast.AST]:
    """Positional argument ``idx`` or keyword ``name``."""
    if idx < len(c.args) and not any(isinstance(a, ast.Starred) for a in c.args[: idx + 1]):
        return c.args[idx]
    if name:
        return kwarg(c, name)
    return None


def names_in(node: ast.AST) -> set:
    return {n.id for n in ast.walk(node) if isinstance(n, ast.Name)}


def parent_map(root: ast.AST) -> Dict[ast.AST, ast.AST]:
    pm = {}
    for p in ast.walk(root):
        for c in ast.iter_child_nodes(p):
            pm[c] = p
    return pm


def enclosing_stmt(pm: Dict[ast.AST, ast.AST], node: ast.AST) -> ast.AST:
    while node in pm and not isinstance(node, ast.stmt):
        node = pm[node]
    return node


def terminates(body: Sequence[ast.stmt]) -> bool:
    """Every path through ``body`` leaves the enclosing block (return / raise /
    continue / break)."""
    if not body:
        return False
    last = body[-1]
    if isinstance(last, (ast.Return, ast.Raise, ast.Continue, ast.Break)):
        return True
    if isinstance(last, ast.If):
        return terminates(last.body) and terminates(last.orelse)
    return False


# --------------------------------------------------------------------------
# flow-insensitive def-use on locals
# --------------------------------------------------------------------------
@dataclass
class Def:
    kind: str  # assign | unpack | for | with | aug | param | comp | walrus | except | import
    value: Optional[ast.AST]
    index: Optional[Tuple[int, ...]]  # position inside an unpacked tuple
    stmt: ast.AST


def local_defs(fn: ast.AST, into_nested: bool = False) -> Dict[str, List[Def]]:
    defs: Dict[str, List[Def]] = {}

    def add(name, d):
        defs.setdefault(name, []).append(d)

    def bind(target, value, kind, stmt, index=()):
        if isinstance(target, ast.Name):
            if index:
                add(target.id, Def("unpack" if kind == "assign" else kind, value, tuple(index), stmt))
            else:
                add(target.id, Def(kind, value, None, stmt))
        elif isinstance(target, (ast.Tuple, ast.List)):
            for i, t in enumerate(target.elts):
                if isinstance(t, ast.Starred):
                    bind(t.value, value, kind, stmt, list(index) + [-1])
                else:
                    bind(t, value, kind, stmt, list(index) + [i])

    if isinstance(fn, (ast.FunctionDef, ast.AsyncFunctionDef, ast.Lambda)):
        a = fn.args
        for p in a.posonlyargs + a.args + a.kwonlyargs:
            add(p.arg, Def("param", None, None, fn))
        if a.vararg:
            add(a.vararg.arg, Def("param", None, None, fn))
        if a.kwarg:
            add(a.kwarg.arg, Def("param", None, None, fn))
    for n in walk_local(fn, into_nested):
        if isinstance(n, ast.Assign):
            for t in n.targets:
                bind(t, n.value, "assign", n)
        elif isinstance(n, ast.AnnAssign) and n.value is not None:
            bind(n.target, n.value, "assign", n)
        elif isinstance(n, ast.AugAssign):
            bind(n.target, n.value, "aug", n)
        elif isinstance(n, (ast.For, ast.AsyncFor)):
            bind(n.target, n.iter, "for", n)
        elif isinstance(n, (ast.With, ast.AsyncWith)):
            for it in n.items:
                if it.optional_vars is not None:
                    bind(it.optional_vars, it.context_expr, "with", n)
        elif isinstance(n, ast.comprehension):
            bind(n.target, n.iter, "comp", n)
        elif isinstance(n, ast.NamedExpr):
            bind(n.target, n.value, "walrus", n)
        elif isinstance(n, ast.ExceptHandler) and n.name:
            add(n.name, Def("except", None, None, n))
        elif isinstance(n, (ast.Import, ast.ImportFrom)):
            for al in n.names:
                add(al.asname or al.name.split(".")[0], Def("import", None, None, n))
    for ds in defs.values():  # source order (walk order is arbitrary)
        ds.sort(key=lambda d: (getattr(d.stmt, "lineno", 0), getattr(d.stmt, "col_offset", 0))
                if d.kind != "param" else (-1, 0))
    return defs


def origin(defs: Dict[str, List[Def]], expr: ast.AST, depth: int = 6) -> ast.AST:
    """Follow single plain assignments ``x = e`` back to ``e``.

    Stops (returns the expression reached so far) at parameters, loop targets,
    multiply-assigned names and anything that is not a bare Name."""
    seen = 0
    while isinstance(expr, ast.Name) and seen < depth:
        ds = defs.get(expr.id, [])
        plain = [d for d in ds if d.kind == "assign"]
        if len(ds) == 1 and len(plain) == 1:
            expr = plain[0].value
            seen += 1
            continue
        if len(ds) == 1 and ds[0].kind == "unpack" and isinstance(ds[0].value, (ast.Tuple, ast.List)):
            v = ds[0].value
            ok = True
            for i in ds[0].index:
                if isinstance(v, (ast.Tuple, ast.List)) and 0 <= i < len(v.elts):
                    v = v.elts[i]
                else:
                    ok = False
                    break
            if ok:
                expr = v
                seen += 1
                continue
        break
    return expr


def the_def(defs: Dict[str, List[Def]], name: str) -> Optional[Def]:
    ds = defs.get(name, [])
    return ds[0] if len(ds) == 1 else None


# --------------------------------------------------------------------------
# misc
# --------------------------------------------------------------------------
def find_stmts(fn: ast.AST, typ, pred=None, into_nested=False) -> list:
    out = [n for n in walk_local(fn, into_nested) if isinstance(n, typ) and (pred is None or pred(n))]
    out.sort(key=lambda n: (getattr(n, "lineno", 0), getattr(n, "col_offset", 0)))
    return out


def compare_parts(node: ast.AST):
    """(left, op, right) of a simple binary comparison, else None."""
    if isinstance(node, ast.Compare) and len(node.ops) == 1:
        return node.left, node.ops[0], node.comparators[0]
    return None


def string_constants(node: ast.AST) -> List[str]:
    return [n.value for n in ast.walk(node) if isinstance(n, ast.Constant) and isinstance(n.value, str)]


def subscript_index(node: ast.Subscript):
    """Constant index/key of a subscript, or raises ValueError."""
    return const(node.slice)


def get_key(call: ast.Call) -> Optional[str]:
    """``x.get("k", ...)`` -> "k"."""
    if call_name(call) == "get" and call.args and isinstance(call.args[0], ast.Constant) \
            and isinstance(call.args[0].value, str):
        return call.args[0].value
    return None


def alpha(node: ast.AST, fn: Optional[ast.AST] = None) -> str:
    """source text of ``node`` with every *local* name (locals of ``fn`` that are not parameters, plus comprehension and
    lambda variables inside ``node``) replaced by _1, _2, ... in order of appearance.  Two constructs that differ only in
    the spelling of local variables get the same text; used for keys that must survive a rename (known findings)."""
    import copy
    bound = set()
    if fn is not None:
        a = fn.args
        params = {x.arg for x in a.posonlyargs + a.args + a.kwonlyargs}
        if a.vararg:
            params.add(a.vararg.arg)
        if a.kwarg:
            params.add(a.kwarg.arg)
        for n in ast.walk(fn):
            if isinstance(n, ast.Name) and isinstance(n.ctx, (ast.Store, ast.Del)) and n.id not in params:
                bound.add(n.id)
    for n in ast.walk(node):
        if isinstance(n, ast.Lambda):
            bound |= {x.arg for x in n.args.args}
        if isinstance(n, ast.comprehension):
            bound |= {x.id for x in ast.walk(n.target) if isinstance(x, ast.Name)}
    table: Dict[str, str] = {}

    class T(ast.NodeTransformer):
        def visit_Name(self, n):
            if n.id in bound:
                table.setdefault(n.id, f"_{len(table) + 1}")
                return ast.copy_location(ast.Name(id=table[n.id], ctx=n.ctx), n)
            return n

        def visit_arg(self, n):
            if n.arg in bound:
                table.setdefault(n.arg, f"_{len(table) + 1}")
                return ast.copy_location(ast.arg(arg=table[n.arg], annotation=None), n)
            return n
    return norm(T().visit(copy.deepcopy(node)))
