"""Mutation self-test of the checkers ("test the checker both ways").

Every driver module may define

  MUTANTS = [dict(name=..., file=<rel>, old=<text>, new=<text>, expect=<obligation id prefix>), ...]
  TWINS   = [dict(name=..., file=<rel>, old=<text>, new=<text>), ...]   # behaviour-preserving rewrites

A mutant is applied as an in-memory overlay on top of the analysed tree (nothing
is written to disk), must still compile, and must produce a VIOLATION whose
obligation id starts with ``expect``.  A twin must stay silent (exit 0).  If
``old`` does not occur exactly once in the current file the variant is reported
as *skipped* (the tree has moved on), never as a failure of the property.

usage: python -m sa.selftest.run [Cxx ...] [--root /repo] [--jobs N] [-v]
"""
from __future__ import annotations

import argparse
import importlib
import os
import sys
from concurrent.futures import ProcessPoolExecutor

from ..check import ALL, analyse


SHAPE_KINDS = ("flip", "invert", "kwargs", "aug", "noise", "annot", "inlinetemp", "extracttemp", "comp2loop", "swapindep", "splitunpack", "imports", "mergeif", "splitif", "elsewrap", "unelse", "ternary2if", "demorgan", "unguard", "pos2kw", "fstring2format")


def _variants(prop, renamed_mutants=False, reshaped_mutants=False):
    mod = importlib.import_module(f"sa.props.{prop}")
    out = []
    for m in getattr(mod, "MUTANTS", []):
        out.append(("mutant", m))
    for t in getattr(mod, "TWINS", []):
        out.append(("twin", t))
    # the confirmed seeded changes of independent sub-agents (DESIGN section 9) are permanent mutants of their property
    here = os.path.dirname(os.path.dirname(os.path.dirname(os.path.abspath(__file__))))
    sd = os.path.join(here, "seeded")
    if os.path.isdir(sd):
        for sid in sorted(os.listdir(sd)):
            if sid.split("-")[0] == prop and os.path.exists(os.path.join(sd, sid, "patch.diff")):
                try:
                    import json as _json0
                    if _json0.load(open(os.path.join(sd, sid, "meta.json"))).get("declined"):
                        continue  # recorded as outside what a sound static rule can decide (DESIGN section 13); not a regression target
                except (OSError, ValueError):
                    pass
                m = dict(name=f"seeded change {sid}", patch=os.path.join(sd, sid, "patch.diff"), expect=None)
                try:
                    # not located: the restructuring that hides the slip takes the anchors out of the forms the rules read; the check then
                    # refuses to pass (exit 2, "cannot decide") but names no construct - recorded as such, never counted as caught
                    m["undecided_only"] = _json0.load(open(os.path.join(sd, sid, "meta.json"))).get("undecided_only")
                except (OSError, ValueError):
                    pass
                out.append(("mutant", m))
                if renamed_mutants:
                    out.append(("mutant", dict(m, name=m["name"] + " [on the alpha-renamed package]", rename=True)))
    # the confirmed behaviour-preserving refactorings of independent sub-agents (DESIGN section 11) are permanent twins: of their own
    # property and of every property whose check reacted to them at first contact
    rd = os.path.join(here, "refactors")
    if os.path.isdir(rd):
        import json as _json
        for rid in sorted(os.listdir(rd)):
            pth = os.path.join(rd, rid, "patch.diff")
            if not os.path.exists(pth):
                continue
            try:
                meta = _json.load(open(os.path.join(rd, rid, "meta.json")))
            except (OSError, ValueError):
                meta = {}
            fc = meta.get("checks_first_contact", {})
            cn = meta.get("checks_now", {})
            touched = {rid.split("-")[0]} | set(fc.get("false_violation", [])) | set(fc.get("undecided", [])) | set(cn.get("undecided", [])) | set(meta.get("known_limit", {}))
            if prop in touched:
                out.append(("twin", dict(name=f"refactoring {rid}", patch=pth, known_limit=meta.get("known_limit", {}).get(prop))))
    # every driver must give the clean verdict on the alpha-renamed package, and still see every mutant there
    out.append(("twin", dict(name="alpha-renamed locals (whole package)", rename=True, edits=[])))
    for kind in SHAPE_KINDS:
        out.append(("twin", dict(name=f"shape edit `{kind}` (whole package)", reshape=kind, edits=[])))
    if reshaped_mutants:
        # a normal form must not open a hole: every mutant is still reported when the whole package (mutant included) is rewritten
        for k_, m in [x for x in out if x[0] == "mutant" and not x[1].get("rename")]:
            for kind in SHAPE_KINDS:
                out.append(("mutant", dict(m, name=m["name"] + f" [on the `{kind}` package]", reshape=kind)))
    if renamed_mutants:
        for m in getattr(mod, "MUTANTS", []):
            out.append(("mutant", dict(m, name=m["name"] + " [on the alpha-renamed package]", rename=True)))
    return out


def reverse_patch_edits(patch_path, root):
    """Turn a unified diff into (file, new-text, old-text) edits, i.e. *revert* it by
    content (hunk line numbers are ignored, so the edit survives unrelated drift)."""
    import re
    here = os.path.dirname(os.path.dirname(os.path.dirname(os.path.abspath(__file__))))
    txt = open(os.path.join(here, patch_path)).read()
    edits = []
    cur = None
    for block in re.split(r"(?m)^(?=--- a/)", txt):
        m = re.match(r"--- a/(\S+)\n\+\+\+ b/(\S+)\n", block)
        if not m:
            continue
        rel = m.group(2)
        for hunk in re.split(r"(?m)^@@ .*\n", block[m.end():])[1:]:
            old, new = [], []
            for line in hunk.split("\n"):
                if line.startswith("+"):
                    new.append(line[1:])
                elif line.startswith("-"):
                    old.append(line[1:])
                elif line.startswith(" "):
                    old.append(line[1:]); new.append(line[1:])
                elif line == "":
                    pass
            # strip identical leading/trailing context to one line each side (keeps anchors unique but small)
            edits.append((rel, "\n".join(new) + "\n", "\n".join(old) + "\n"))
    return edits


def _patch_overlay(patch, root):
    """{rel: patched text} for a unified diff, applied to scratch copies of the touched files (the tree itself is not modified)"""
    import shutil
    import subprocess
    import tempfile
    files = [l[6:].strip() for l in open(patch) if l.startswith("+++ b/")]
    tmp = tempfile.mkdtemp(prefix="sa-selftest.")
    try:
        for rel in files:
            src = os.path.join(root, rel)
            if not os.path.exists(src):
                return None
            os.makedirs(os.path.dirname(os.path.join(tmp, rel)), exist_ok=True)
            shutil.copy(src, os.path.join(tmp, rel))
        r = subprocess.run(["git", "apply", patch], cwd=tmp, capture_output=True, text=True)
        if r.returncode:
            return None
        return {rel: open(os.path.join(tmp, rel), encoding="utf-8").read() for rel in files}
    finally:
        shutil.rmtree(tmp, ignore_errors=True)


def _edits(v, root="/repo"):
    if "edits" in v and not v["edits"]:
        return []
    if "revert_patch" in v:
        return reverse_patch_edits(v["revert_patch"], root)
    if "edits" in v:
        return v["edits"]
    return [(v["file"], v["old"], v["new"])]


def run_one(task):
    prop, kind, v, root = task
    overlay = {}
    if "patch" in v:
        ov = _patch_overlay(v["patch"], root)
        if ov is None:
            return (prop, kind, v["name"], "skipped", "patch no longer applies to the tree")
        overlay = ov
    for rel, old, new in ([] if "patch" in v else _edits(v, root)):
        path = os.path.join(root, rel)
        try:
            src = overlay.get(rel) or open(path, encoding="utf-8").read()
        except OSError:
            return (prop, kind, v["name"], "skipped", f"{rel} missing")
        if src.count(old) != 1:
            return (prop, kind, v["name"], "skipped", f"anchor text occurs {src.count(old)}x in {rel}")
        src = src.replace(old, new)
        try:
            compile(src, rel, "exec")
        except SyntaxError as exc:
            return (prop, kind, v["name"], "bad-variant", f"does not compile: {exc}")
        overlay[rel] = src
    if v.get("reshape"):
        from .shape import reshaped, reshaped_package
        full = dict(reshaped_package(root, v["reshape"]))
        for rel, src in overlay.items():
            full[rel] = reshaped(src, v["reshape"], rel, root)
        overlay = full
    if v.get("rename"):
        from .rename import renamed, renamed_package
        full = dict(renamed_package(root))
        for rel, src in overlay.items():
            try:
                full[rel] = renamed(src)
            except Exception as exc:
                return (prop, kind, v["name"], "bad-variant", f"cannot rename {rel}: {exc}")
        overlay = full
    try:
        code, rep, _ = analyse(prop, root, "quick", quiet=True, overlay=overlay)
    except Exception as exc:  # the analyser itself crashed on the variant
        import traceback
        return (prop, kind, v["name"], "CRASH", traceback.format_exc().strip().splitlines()[-1][:200])
    res = rep.result
    if kind == "twin":
        if code == 0:
            return (prop, kind, v["name"], "ok", "silent")
        if code == 2 and v.get("known_limit"):
            # recorded limit of the analysis (DESIGN section 11): the check answers "cannot decide" (exit 2), never VIOLATION
            return (prop, kind, v["name"], "ok", "undecided (known limit: %s)" % v["known_limit"])
        return (prop, kind, v["name"], "FALSE-ALARM", "; ".join(res.get("lines", [])[-6:]))
    # mutant
    if code == 1:
        obs = [o["obligation"] for o in res["violations"]]
        exp = v.get("expect")
        if exp is None or any(o.startswith(exp) for o in obs):
            o = res["violations"][0]
            return (prop, kind, v["name"], "ok", f"{o['rule']} {o['obligation']} at {o['where']}: {o['what']}")
        return (prop, kind, v["name"], "WRONG-OBLIGATION", f"expected {exp}, got {sorted(set(obs))}")
    if code == 2 and v.get("undecided_only"):
        return (prop, kind, v["name"], "ok", "not located - the check refuses to pass (exit 2): %s" % v["undecided_only"])
    if code == 2:
        return (prop, kind, v["name"], "UNDECIDED", "; ".join(l for l in res.get("lines", []) if "ANALYSIS-ERROR" in l)[:300])
    return (prop, kind, v["name"], "MISSED", "checker stayed silent")


def selftest(props, root="/repo", jobs=16, renamed_mutants=False, reshaped_mutants=False):
    tasks = []
    for p in props:
        for kind, v in _variants(p, renamed_mutants, reshaped_mutants):
            tasks.append((p, kind, v, root))
    if not tasks:
        return []
    if jobs <= 1 or len(tasks) == 1:
        return [run_one(t) for t in tasks]
    # variants of one whole-package rewrite go to the same worker(s): normalising a rewritten package costs ~9 s per process, a variant on top
    # of it well under a second (per-process module cache keyed by content)
    groups = {}
    for t in tasks:
        groups.setdefault((t[2].get("reshape") or "", bool(t[2].get("rename"))), []).append(t)
    chunks = []
    for key, ts in groups.items():
        n = jobs if key == ("", False) else max(1, min(len(ts) // 24, (2 * jobs) // max(1, len(groups) - 1) or 1))
        n = max(1, min(n, len(ts)))
        size = -(-len(ts) // n)
        chunks += [ts[i:i + size] for i in range(0, len(ts), size)]
    chunks.sort(key=len, reverse=True)
    with ProcessPoolExecutor(max_workers=min(jobs, len(chunks))) as ex:
        return [r for rs in ex.map(_run_chunk, chunks, chunksize=1) for r in rs]


def _run_chunk(ts):
    return [run_one(t) for t in ts]


def _unused():
    pass


def main(argv=None):
    ap = argparse.ArgumentParser()
    ap.add_argument("props", nargs="*")
    ap.add_argument("--root", default="/repo")
    ap.add_argument("--jobs", type=int, default=16)
    ap.add_argument("-v", action="store_true")
    ap.add_argument("--renamed", action="store_true", help="additionally run every mutant on the alpha-renamed package")
    ap.add_argument("--reshaped", action="store_true", help="additionally run every mutant on every whole-package shape twin")
    a = ap.parse_args(argv)
    props = a.props or ALL
    res = selftest(props, a.root, a.jobs, a.renamed, a.reshaped)
    bad = 0
    for prop, kind, name, status, detail in res:
        good = status in ("ok", "skipped")
        bad += 0 if good else 1
        if a.v or not good:
            print(f"{prop} {kind:6s} {status:16s} {name} :: {detail}")
    n_ok = sum(1 for r in res if r[3] == "ok")
    print(f"selftest: {len(res)} variants, {n_ok} ok, "
          f"{sum(1 for r in res if r[3] == 'skipped')} skipped, {bad} failing")
    return 0 if bad == 0 else 2


if __name__ == "__main__":
    sys.exit(main())
