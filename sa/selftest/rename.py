"""Alpha-renaming of local variables (behaviour preserving): every function-local name that is not a parameter, a
global/nonlocal, an import, an exception name, a nested def/class name or a name that is also a parameter of a nested
lambda/def gets the suffix ``_rn``.  Used as a twin that every driver must survive (same verdict as on the clean tree)
and, combined with the mutants, to show that detection does not hinge on the spelling of local variables."""
from __future__ import annotations

import ast
import functools
import os


class Renamer(ast.NodeTransformer):
    def __init__(self):
        self.stack = []

    @staticmethod
    def _locals_of(fn):
        params = {a.arg for a in fn.args.posonlyargs + fn.args.args + fn.args.kwonlyargs}
        if fn.args.vararg:
            params.add(fn.args.vararg.arg)
        if fn.args.kwarg:
            params.add(fn.args.kwarg.arg)
        assigned, declared = set(), set()
        for n in ast.walk(fn):
            if n is not fn and isinstance(n, (ast.FunctionDef, ast.AsyncFunctionDef, ast.Lambda)):
                aa = n.args
                declared |= {a.arg for a in aa.posonlyargs + aa.args + aa.kwonlyargs}
                if aa.vararg:
                    declared.add(aa.vararg.arg)
                if aa.kwarg:
                    declared.add(aa.kwarg.arg)
            if n is not fn and isinstance(n, (ast.FunctionDef, ast.AsyncFunctionDef, ast.ClassDef)):
                declared.add(n.name)
            if isinstance(n, ast.Name) and isinstance(n.ctx, (ast.Store, ast.Del)):
                assigned.add(n.id)
            if isinstance(n, (ast.Global, ast.Nonlocal)):
                declared |= set(n.names)
            if isinstance(n, ast.ExceptHandler) and n.name:
                declared.add(n.name)
            if isinstance(n, (ast.Import, ast.ImportFrom)):
                for a in n.names:
                    declared.add(a.asname or a.name.split(".")[0])
        return {x for x in assigned if x not in params and x not in declared and x != "_" and not x.startswith("__")}

    def visit_FunctionDef(self, node):
        self.stack.append(self._locals_of(node))
        self.generic_visit(node)
        self.stack.pop()
        return node
    visit_AsyncFunctionDef = visit_FunctionDef

    def visit_Name(self, node):
        for loc in reversed(self.stack):
            if node.id in loc:
                return ast.copy_location(ast.Name(id=node.id + "_rn", ctx=node.ctx), node)
        return node


def renamed(src: str) -> str:
    tree = Renamer().visit(ast.parse(src))
    ast.fix_missing_locations(tree)
    out = ast.unparse(tree)
    compile(out, "<renamed>", "exec")
    return out


@functools.lru_cache(maxsize=4)
def renamed_package(root: str, package: str = "synkit"):
    """{rel: renamed source} for every module of the package that can be renamed (others are left as they are)"""
    out = {}
    for dp, dn, fn in os.walk(os.path.join(root, package)):
        for f in fn:
            if f.endswith(".py"):
                path = os.path.join(dp, f)
                rel = os.path.relpath(path, root)
                try:
                    out[rel] = renamed(open(path, encoding="utf-8").read())
                except Exception:
                    continue
    return out
