"""Behaviour-preserving *shape* edits applied to a whole module (used as twins by the self-test):

  flip     a == b -> b == a ; a != b -> b != a ; a < b -> b > a ...  (single comparisons of call-free operands)
  invert   if c: A else: B  ->  if not c: B else: A                  (both branches present, no elif chain)
  kwargs   f(x, a=1, b=2)   ->  f(x, b=2, a=1)                       (keyword order reversed)
  aug      n += 1           ->  n = n + 1                             (plain name, numeric literal)

The analyser's load-time normal form (sa/normal.py) is what makes the rules indifferent to them."""
from __future__ import annotations

import ast
import functools
import os

SWAP = {ast.Eq: ast.Eq, ast.NotEq: ast.NotEq, ast.Lt: ast.Gt, ast.Gt: ast.Lt, ast.LtE: ast.GtE, ast.GtE: ast.LtE}


def _pure(e) -> bool:
    return not any(isinstance(n, (ast.Call, ast.Await, ast.Yield, ast.YieldFrom, ast.NamedExpr)) for n in ast.walk(e))


class Flip(ast.NodeTransformer):
    def visit_Compare(self, n):
        self.generic_visit(n)
        if len(n.ops) == 1 and type(n.ops[0]) in SWAP and _pure(n.left) and _pure(n.comparators[0]):
            return ast.copy_location(ast.Compare(left=n.comparators[0], ops=[SWAP[type(n.ops[0])]()], comparators=[n.left]), n)
        return n


class Invert(ast.NodeTransformer):
    def visit_If(self, n):
        self.generic_visit(n)
        if n.orelse and not (len(n.orelse) == 1 and isinstance(n.orelse[0], ast.If)):
            return ast.copy_location(ast.If(test=ast.UnaryOp(op=ast.Not(), operand=n.test), body=n.orelse, orelse=n.body), n)
        return n


class Kwargs(ast.NodeTransformer):
    def visit_Call(self, n):
        self.generic_visit(n)
        if len(n.keywords) > 1 and all(k.arg is not None for k in n.keywords):
            n.keywords = list(reversed(n.keywords))
        return n


class Aug(ast.NodeTransformer):
    def visit_AugAssign(self, n):
        if isinstance(n.target, ast.Name) and isinstance(n.value, ast.Constant) and isinstance(n.value.value, (int, float)) \
                and not isinstance(n.value.value, bool) and isinstance(n.op, (ast.Add, ast.Sub)):
            return ast.copy_location(ast.Assign(targets=[ast.Name(id=n.target.id, ctx=ast.Store())],
                                                value=ast.BinOp(left=ast.Name(id=n.target.id, ctx=ast.Load()), op=n.op, right=n.value)), n)
        return n


class Noise(ast.NodeTransformer):
    """a debug-log call at the top of every function, loop body and if-branch (pure noise for the analysed properties)"""
    @staticmethod
    def _log(n, what):
        return ast.copy_location(ast.Expr(value=ast.Call(func=ast.Attribute(value=ast.Name(id="__import__('logging')", ctx=ast.Load()), attr="debug", ctx=ast.Load()),
                                                          args=[ast.Constant(value=what)], keywords=[])), n)

    def _wrap(self, n, field, what):
        body = getattr(n, field)
        if body:
            first = 1 if (isinstance(body[0], ast.Expr) and isinstance(body[0].value, ast.Constant) and isinstance(body[0].value.value, str)
                          and isinstance(n, (ast.FunctionDef, ast.AsyncFunctionDef))) else 0
            # keep `nonlocal` / `global` declarations first
            while first < len(body) and isinstance(body[first], (ast.Global, ast.Nonlocal)):
                first += 1
            body.insert(first, self._log(body[0], what))

    def visit_FunctionDef(self, n):
        self.generic_visit(n)
        self._wrap(n, "body", f"enter {n.name}")
        return n
    visit_AsyncFunctionDef = visit_FunctionDef

    def visit_For(self, n):
        self.generic_visit(n)
        self._wrap(n, "body", "loop")
        return n

    def visit_While(self, n):
        self.generic_visit(n)
        self._wrap(n, "body", "loop")
        return n


class Annot(ast.NodeTransformer):
    """`x = v` -> `x: object = v` for plain local names inside functions"""
    def __init__(self):
        self.depth = 0

    def visit_FunctionDef(self, n):
        self.depth += 1
        self.generic_visit(n)
        self.depth -= 1
        return n
    visit_AsyncFunctionDef = visit_FunctionDef

    def visit_Assign(self, n):
        if self.depth and len(n.targets) == 1 and isinstance(n.targets[0], ast.Name):
            return ast.copy_location(ast.AnnAssign(target=ast.Name(id=n.targets[0].id, ctx=ast.Store()), annotation=ast.Name(id="object", ctx=ast.Load()),
                                                   value=n.value, simple=1), n)
        return n


def _simple_operand(e) -> bool:
    """evaluating it has no effect and cannot be affected by a call evaluated next to it"""
    return isinstance(e, (ast.Name, ast.Constant)) or (isinstance(e, ast.Attribute) and _simple_operand(e.value))


class InlineTemp(ast.NodeTransformer):
    """`t = <expr>` directly followed by the only use of t, as a whole operand of `return t` / `y = t` / `f(.., t, ..)` whose other operands are
    plain names -> the expression is written at the use and the temporary disappears (the "inline variable" refactoring)"""
    def _block(self, body, fn_counts):
        out = []
        i = 0
        while i < len(body):
            st = body[i]
            nxt = body[i + 1] if i + 1 < len(body) else None
            done = False
            if isinstance(st, ast.Assign) and len(st.targets) == 1 and isinstance(st.targets[0], ast.Name) and nxt is not None \
                    and isinstance(st.value, (ast.Call, ast.Attribute, ast.Subscript, ast.BinOp)) and not any(isinstance(x, (ast.Yield, ast.YieldFrom, ast.Await, ast.NamedExpr, ast.Lambda)) for x in ast.walk(st.value)):
                name = st.targets[0].id
                if fn_counts.get(name) == 2:   # one store, one load in the whole function
                    slot = None
                    if isinstance(nxt, ast.Return) and isinstance(nxt.value, ast.Name) and nxt.value.id == name:
                        slot = ("value", None)
                    elif isinstance(nxt, ast.Assign) and isinstance(nxt.value, ast.Name) and nxt.value.id == name and all(isinstance(t, ast.Name) for t in nxt.targets):
                        slot = ("value", None)
                    elif isinstance(nxt, (ast.Expr, ast.Assign, ast.Return)) and isinstance(nxt.value, ast.Call) and _simple_operand(nxt.value.func) \
                            and all(_simple_operand(a) for a in nxt.value.args) and all(k.arg is not None and _simple_operand(k.value) for k in nxt.value.keywords):
                        for j, a in enumerate(nxt.value.args):
                            if isinstance(a, ast.Name) and a.id == name:
                                slot = ("arg", j)
                        if isinstance(nxt, ast.Assign) and not all(isinstance(t, ast.Name) for t in nxt.targets):
                            slot = None
                    if slot is not None:
                        if slot[0] == "value":
                            nxt.value = st.value
                        else:
                            nxt.value.args[slot[1]] = st.value
                        out.append(nxt)
                        i += 2
                        done = True
            if not done:
                out.append(st)
                i += 1
        return out

    def visit_FunctionDef(self, fn):
        self.generic_visit(fn)
        counts = {}
        for n in ast.walk(fn):
            if isinstance(n, ast.Name):
                counts[n.id] = counts.get(n.id, 0) + 1
        for holder in ast.walk(fn):
            for f in ("body", "orelse", "finalbody"):
                lst = getattr(holder, f, None)
                if isinstance(lst, list) and lst and isinstance(lst[0], ast.stmt):
                    setattr(holder, f, self._block(lst, counts))
        return fn


class ExtractTemp(ast.NodeTransformer):
    """`y = f(g(a), b)` / `return f(g(a), b)` / `f(g(a), b)` with a nested call as FIRST argument and nothing but plain names before it ->
    `_tmp_k = g(a)` in front and the name in its place (the "extract variable" refactoring)"""
    def __init__(self):
        self.k = 0

    def _block(self, body):
        out = []
        for st in body:
            if isinstance(st, (ast.Expr, ast.Assign, ast.Return)) and isinstance(getattr(st, "value", None), ast.Call):
                c = st.value
                if _simple_operand(c.func) and c.args and isinstance(c.args[0], ast.Call) and not isinstance(c.args[0].func, ast.Lambda) \
                        and not any(isinstance(x, (ast.Yield, ast.YieldFrom, ast.Await, ast.NamedExpr, ast.Starred, ast.GeneratorExp)) for x in ast.walk(c.args[0])) \
                        and (not isinstance(st, ast.Assign) or all(isinstance(t, ast.Name) for t in st.targets)):
                    self.k += 1
                    nm = f"_tmp_{self.k}"
                    out.append(ast.copy_location(ast.Assign(targets=[ast.Name(id=nm, ctx=ast.Store())], value=c.args[0]), st))
                    c.args[0] = ast.copy_location(ast.Name(id=nm, ctx=ast.Load()), c.args[0])
            out.append(st)
        return out

    def visit_FunctionDef(self, fn):
        self.generic_visit(fn)
        for holder in ast.walk(fn):
            for f in ("body", "orelse", "finalbody"):
                lst = getattr(holder, f, None)
                if isinstance(lst, list) and lst and isinstance(lst[0], ast.stmt):
                    setattr(holder, f, self._block(lst))
        return fn


class Comp2Loop(ast.NodeTransformer):
    """`x = [E for t in X if C]` (one generator, plain name target) -> `x = []` + `for t in X: if C: x.append(E)` (only where x is not read in E/X/C and
    the comprehension variable names do not clash with other names of the function)"""
    def visit_FunctionDef(self, fn):
        self.generic_visit(fn)
        names = {}
        for n in ast.walk(fn):
            if isinstance(n, ast.Name):
                names[n.id] = names.get(n.id, 0) + 1
        for holder in ast.walk(fn):
            for f in ("body", "orelse", "finalbody"):
                lst = getattr(holder, f, None)
                if not (isinstance(lst, list) and lst and isinstance(lst[0], ast.stmt)):
                    continue
                out = []
                for st in lst:
                    if isinstance(st, ast.Assign) and len(st.targets) == 1 and isinstance(st.targets[0], ast.Name) and isinstance(st.value, ast.ListComp) \
                            and len(st.value.generators) == 1 and not st.value.generators[0].is_async:
                        g = st.value.generators[0]
                        x = st.targets[0].id
                        tn = [n.id for n in ast.walk(g.target) if isinstance(n, ast.Name)]
                        inside = sum(1 for n in ast.walk(st.value) if isinstance(n, ast.Name) and n.id in tn)
                        reads_x = any(isinstance(n, ast.Name) and n.id == x for n in ast.walk(st.value))
                        nested = any(isinstance(n, (ast.ListComp, ast.SetComp, ast.DictComp, ast.GeneratorExp, ast.Lambda)) for n in ast.walk(st.value) if n is not st.value)
                        if not reads_x and not nested and all(names.get(t, 0) == sum(1 for n in ast.walk(st.value) if isinstance(n, ast.Name) and n.id == t) for t in tn):
                            app = ast.Expr(value=ast.Call(func=ast.Attribute(value=ast.Name(id=x, ctx=ast.Load()), attr="append", ctx=ast.Load()), args=[st.value.elt], keywords=[]))
                            body = [app]
                            for c in reversed(g.ifs):
                                body = [ast.If(test=c, body=body, orelse=[])]
                            out.append(ast.copy_location(ast.Assign(targets=[ast.Name(id=x, ctx=ast.Store())], value=ast.List(elts=[], ctx=ast.Load())), st))
                            out.append(ast.copy_location(ast.For(target=g.target, iter=g.iter, body=body, orelse=[]), st))
                            continue
                    out.append(st)
                setattr(holder, f, out)
        return fn


class SwapIndependent(ast.NodeTransformer):
    """two adjacent simple assignments `a = <pure expr>` / `b = <pure expr>` that do not mention each other's names are exchanged
    (rules must not depend on the textual order of independent statements)"""
    def visit_FunctionDef(self, fn):
        self.generic_visit(fn)
        for holder in ast.walk(fn):
            for f in ("body", "orelse", "finalbody"):
                lst = getattr(holder, f, None)
                if not (isinstance(lst, list) and len(lst) > 1 and isinstance(lst[0], ast.stmt)):
                    continue
                i = 0
                while i + 1 < len(lst):
                    a, b = lst[i], lst[i + 1]
                    ok = all(isinstance(s_, ast.Assign) and len(s_.targets) == 1 and isinstance(s_.targets[0], ast.Name) and _pure(s_.value) for s_ in (a, b))
                    if ok:
                        na = {n.id for n in ast.walk(a) if isinstance(n, ast.Name)}
                        nb = {n.id for n in ast.walk(b) if isinstance(n, ast.Name)}
                        if a.targets[0].id not in nb and b.targets[0].id not in na and a.targets[0].id != b.targets[0].id:
                            lst[i], lst[i + 1] = b, a
                            i += 2
                            continue
                    i += 1
        return fn


class SplitUnpack(ast.NodeTransformer):
    """`a, b = x, y` with plain names on the left that do not occur on the right -> `a = x` ; `b = y`"""
    def visit_FunctionDef(self, fn):
        self.generic_visit(fn)
        for holder in ast.walk(fn):
            for f in ("body", "orelse", "finalbody"):
                lst = getattr(holder, f, None)
                if not (isinstance(lst, list) and lst and isinstance(lst[0], ast.stmt)):
                    continue
                out = []
                for st in lst:
                    if isinstance(st, ast.Assign) and len(st.targets) == 1 and isinstance(st.targets[0], ast.Tuple) and isinstance(st.value, ast.Tuple) \
                            and len(st.targets[0].elts) == len(st.value.elts) and all(isinstance(e, ast.Name) for e in st.targets[0].elts):
                        tn = {e.id for e in st.targets[0].elts}
                        if len(tn) == len(st.targets[0].elts) and not any(isinstance(n, ast.Name) and n.id in tn for e in st.value.elts for n in ast.walk(e)):
                            for t_, v_ in zip(st.targets[0].elts, st.value.elts):
                                out.append(ast.copy_location(ast.Assign(targets=[t_], value=v_), st))
                            continue
                    out.append(st)
                setattr(holder, f, out)
        return fn

_LIBS = {"networkx", "numpy", "pandas", "copy", "itertools", "collections", "functools", "operator", "heapq", "math"}


def _bound_names(tree) -> set:
    out = set()
    for n in ast.walk(tree):
        if isinstance(n, ast.Name) and isinstance(n.ctx, (ast.Store, ast.Del)):
            out.add(n.id)
        elif isinstance(n, ast.arg):
            out.add(n.arg)
        elif isinstance(n, (ast.FunctionDef, ast.AsyncFunctionDef, ast.ClassDef)):
            out.add(n.name)
        elif isinstance(n, ast.ExceptHandler) and n.name:
            out.add(n.name)
        elif isinstance(n, (ast.Global, ast.Nonlocal)):
            out.update(n.names)
    return out


class ImportStyle(ast.NodeTransformer):
    """module-level `import M as A` + `A.x`  <->  `from M import x` + `x` (the other spelling of each library reference):
         import networkx as nx ; nx.f(..)        ->  import networkx ; networkx.f(..)
         import itertools ; itertools.chain(..)  ->  from itertools import chain ; chain(..)      (no clash with a bound name)
         from copy import deepcopy ; deepcopy(x) ->  import copy as _copy_mod ; _copy_mod.deepcopy(x)
       only for top-level imports of library modules that are used as plain `A.x` / `x` loads everywhere."""

    def visit_Module(self, mod):
        bound = _bound_names(mod)
        imported = set()
        for st in ast.walk(mod):
            if isinstance(st, (ast.Import, ast.ImportFrom)):
                for a in st.names:
                    imported.add(a.asname or a.name.split(".")[0])
        top = [st for st in mod.body if isinstance(st, (ast.Import, ast.ImportFrom))]
        nested = {id(a) for st in ast.walk(mod) if isinstance(st, (ast.Import, ast.ImportFrom)) and st not in top for a in st.names}
        nested_names = {a.asname or a.name.split(".")[0] for st in ast.walk(mod) if isinstance(st, (ast.Import, ast.ImportFrom)) and st not in top for a in st.names}
        alias_to_attr = {}   # local alias -> new root expression text
        name_to_attr = {}    # bare imported name -> "mod.name"
        attr_to_name = {}    # alias -> {attr: bare}
        new_body = []
        uses = {}
        for n in ast.walk(mod):
            if isinstance(n, ast.Attribute) and isinstance(n.value, ast.Name):
                uses.setdefault(n.value.id, set()).add(n.attr)
        plain_loads = {}
        for n in ast.walk(mod):
            if isinstance(n, ast.Name):
                plain_loads[n.id] = plain_loads.get(n.id, 0) + 1
        attr_roots = {}
        for n in ast.walk(mod):
            if isinstance(n, ast.Attribute) and isinstance(n.value, ast.Name):
                attr_roots[n.value.id] = attr_roots.get(n.value.id, 0) + 1
        for st in mod.body:
            if isinstance(st, ast.Import) and len(st.names) == 1 and st.names[0].name in _LIBS:
                a = st.names[0]
                local = a.asname or a.name
                if local in bound or local in nested_names:
                    new_body.append(st)
                    continue
                only_attr = plain_loads.get(local, 0) == attr_roots.get(local, 0)   # every use is `local.x`
                if a.name in ("networkx", "numpy", "pandas"):
                    if a.asname and a.name not in bound | imported and only_attr:
                        alias_to_attr[local] = a.name
                        new_body.append(ast.Import(names=[ast.alias(name=a.name, asname=None)]))
                        continue
                else:
                    attrs = uses.get(local, set())
                    if only_attr and attrs and not (attrs & (bound | imported)) and local not in attrs:
                        attr_to_name[local] = {x: x for x in attrs}
                        new_body.append(ast.ImportFrom(module=a.name, names=[ast.alias(name=x, asname=None) for x in sorted(attrs)], level=0))
                        continue
                new_body.append(st)
            elif isinstance(st, ast.ImportFrom) and st.level == 0 and st.module in _LIBS and st.module not in ("networkx", "numpy", "pandas") \
                    and all(a.name != "*" for a in st.names):
                fresh = f"_{st.module}_mod"
                if fresh in bound | imported or any((a.asname or a.name) in bound | nested_names for a in st.names):
                    new_body.append(st)
                    continue
                for a in st.names:
                    name_to_attr[a.asname or a.name] = (fresh, a.name)
                new_body.append(ast.Import(names=[ast.alias(name=st.module, asname=fresh)]))
            else:
                new_body.append(st)
        mod.body = new_body

        class R(ast.NodeTransformer):
            def visit_Attribute(s, n):
                if isinstance(n.value, ast.Name):
                    r = n.value.id
                    if r in alias_to_attr:
                        return ast.copy_location(ast.Attribute(value=ast.Name(id=alias_to_attr[r], ctx=ast.Load()), attr=n.attr, ctx=n.ctx), n)
                    if r in attr_to_name and n.attr in attr_to_name[r]:
                        return ast.copy_location(ast.Name(id=n.attr, ctx=n.ctx), n)
                s.generic_visit(n)
                return n

            def visit_Name(s, n):
                if n.id in name_to_attr and isinstance(n.ctx, ast.Load):
                    m_, x = name_to_attr[n.id]
                    return ast.copy_location(ast.Attribute(value=ast.Name(id=m_, ctx=ast.Load()), attr=x, ctx=ast.Load()), n)
                return n
        return R().visit(mod)


def _terminates(body) -> bool:
    return bool(body) and isinstance(body[-1], (ast.Return, ast.Raise, ast.Continue, ast.Break))


class _Blocks(ast.NodeTransformer):
    """base: rewrite every statement list through self.block(list) (innermost first)"""

    def block(self, body):
        return body

    def generic_visit(self, node):
        super().generic_visit(node)
        for f in ("body", "orelse", "finalbody"):
            b = getattr(node, f, None)
            if isinstance(b, list) and b and isinstance(b[0], ast.stmt):
                setattr(node, f, self.block(b) or [ast.Pass()])
        return node


class MergeIf(_Blocks):
    """if a: (only statement) if b: X   ->   if a and b: X      (no else on either)"""

    def block(self, body):
        out = []
        for st in body:
            if isinstance(st, ast.If) and not st.orelse and len(st.body) == 1 and isinstance(st.body[0], ast.If) and not st.body[0].orelse:
                inner = st.body[0]
                vals = (st.test.values if isinstance(st.test, ast.BoolOp) and isinstance(st.test.op, ast.And) else [st.test]) + \
                       (inner.test.values if isinstance(inner.test, ast.BoolOp) and isinstance(inner.test.op, ast.And) else [inner.test])
                if not any(isinstance(v, ast.BoolOp) for v in vals) and not any(isinstance(n, ast.NamedExpr) for v in vals for n in ast.walk(v)):
                    st = ast.copy_location(ast.If(test=ast.BoolOp(op=ast.And(), values=vals), body=inner.body, orelse=[]), st)
            out.append(st)
        return out


class SplitIf(_Blocks):
    """if a and b: X   ->   if a: if b: X      (no else)"""

    def block(self, body):
        out = []
        for st in body:
            if isinstance(st, ast.If) and not st.orelse and isinstance(st.test, ast.BoolOp) and isinstance(st.test.op, ast.And) and len(st.test.values) == 2:
                a, b = st.test.values
                st = ast.copy_location(ast.If(test=a, body=[ast.copy_location(ast.If(test=b, body=st.body, orelse=[]), st)], orelse=[]), st)
            out.append(st)
        return out


class ElseWrap(_Blocks):
    """if c: ...; return     rest...      ->   if c: ...; return    else: rest...     (function bodies and loop bodies alike)"""

    def block(self, body):
        for i, st in enumerate(body):
            if isinstance(st, ast.If) and not st.orelse and _terminates(st.body) and i + 1 < len(body) \
                    and not any(isinstance(x, (ast.FunctionDef, ast.ClassDef, ast.Import, ast.ImportFrom, ast.Global, ast.Nonlocal)) for x in body[i + 1:]):
                st.orelse = body[i + 1:]
                return body[:i + 1]
        return body


class UnElse(_Blocks):
    """if c: ...; return    else: rest...   ->   if c: ...; return      rest...      (last statement of its block only)"""

    def block(self, body):
        if body and isinstance(body[-1], ast.If) and body[-1].orelse and _terminates(body[-1].body) \
                and not (len(body[-1].orelse) == 1 and isinstance(body[-1].orelse[0], ast.If)):
            st = body[-1]
            rest = st.orelse
            st.orelse = []
            return body[:-1] + [st] + rest
        return body


class Ternary2If(_Blocks):
    """x = a if c else b   ->   if c: x = a  else: x = b       (plain name target)"""

    def block(self, body):
        out = []
        for st in body:
            if isinstance(st, ast.Assign) and len(st.targets) == 1 and isinstance(st.targets[0], ast.Name) and isinstance(st.value, ast.IfExp):
                v = st.value
                mk = lambda e: ast.copy_location(ast.Assign(targets=[ast.Name(id=st.targets[0].id, ctx=ast.Store())], value=e), st)  # noqa: E731
                st = ast.copy_location(ast.If(test=v.test, body=[mk(v.body)], orelse=[mk(v.orelse)]), st)
            out.append(st)
        return out


class DeMorgan(ast.NodeTransformer):
    """in test position of if / while / ternary / comprehension filter:   not (a and b) -> not a or not b ;  a and b -> not (not a or not b) is NOT applied
       (only the first direction, and `a != b` -> `not a == b`)"""

    def _t(self, t):
        if isinstance(t, ast.UnaryOp) and isinstance(t.op, ast.Not) and isinstance(t.operand, ast.BoolOp):
            op = ast.Or() if isinstance(t.operand.op, ast.And) else ast.And()
            return ast.copy_location(ast.BoolOp(op=op, values=[ast.UnaryOp(op=ast.Not(), operand=v) for v in t.operand.values]), t)
        if isinstance(t, ast.Compare) and len(t.ops) == 1 and isinstance(t.ops[0], (ast.NotEq, ast.NotIn, ast.IsNot)):
            pos = {ast.NotEq: ast.Eq, ast.NotIn: ast.In, ast.IsNot: ast.Is}[type(t.ops[0])]()
            return ast.copy_location(ast.UnaryOp(op=ast.Not(), operand=ast.Compare(left=t.left, ops=[pos], comparators=t.comparators)), t)
        return t

    def visit_If(self, n):
        self.generic_visit(n)
        n.test = self._t(n.test)
        return n

    visit_While = visit_If
    visit_IfExp = visit_If

    def visit_comprehension(self, n):
        self.generic_visit(n)
        n.ifs = [self._t(t) for t in n.ifs]
        return n


class UnGuard(_Blocks):
    """loop body   if c: continue ; rest...    ->   if not c: rest...       (the inverse of the guard-clause form, N7)"""

    def visit_For(self, node):
        self.generic_visit(node)
        node.body = self._un(node.body)
        return node

    visit_While = visit_For

    def _un(self, body):
        for i, st in enumerate(body):
            if isinstance(st, ast.If) and not st.orelse and len(st.body) == 1 and isinstance(st.body[0], ast.Continue) and i + 1 < len(body) \
                    and not any(isinstance(x, (ast.FunctionDef, ast.ClassDef)) for x in body[i + 1:]):
                rest = self._un(body[i + 1:])
                return body[:i] + [ast.copy_location(ast.If(test=ast.UnaryOp(op=ast.Not(), operand=st.test), body=rest, orelse=[]), st)]
        return body


def _module_callables(mod):
    """{name: (params, has_star)} for module-level functions and {cls: {meth: (params, is_static)}} for classes of one module"""
    funcs, classes = {}, {}
    for st in mod.body:
        if isinstance(st, (ast.FunctionDef, ast.AsyncFunctionDef)):
            a = st.args
            if not st.decorator_list:
                funcs[st.name] = ([x.arg for x in a.posonlyargs + a.args], bool(a.vararg or a.kwarg or a.posonlyargs))
        elif isinstance(st, ast.ClassDef):
            ms = {}
            for m in st.body:
                if isinstance(m, (ast.FunctionDef, ast.AsyncFunctionDef)):
                    a = m.args
                    deco = [ast.unparse(d) for d in m.decorator_list]
                    if any(d not in ("staticmethod", "classmethod") for d in deco):
                        continue
                    params = [x.arg for x in a.posonlyargs + a.args]
                    if "staticmethod" not in deco:
                        params = params[1:]
                    ms[m.name] = (params, bool(a.vararg or a.kwarg or a.posonlyargs))
            classes[st.name] = ms
    return funcs, classes


class Pos2Kw(ast.NodeTransformer):
    """f(a, b, c) -> f(a, b=b_, c=c_): positional arguments after the first are passed by keyword, for callees defined in the same module
    (module functions by name; methods through self. / cls. / ClassName.) whose signature has no *args / **kwargs / positional-only part"""

    extern = None   # {local name: ("func", (params, vararg, n_posonly)) | ("class", {method: (params, vararg, n_posonly, static)})} of imported package callees

    def visit_Module(self, mod):
        self.funcs, self.classes = _module_callables(mod)
        bound = _bound_names(mod)
        for nm, sig in (self.extern or {}).items():
            if nm in bound or nm in self.funcs or nm in self.classes:
                continue
            if sig[0] == "func":
                self.funcs[nm] = (sig[1][0], bool(sig[1][1] or sig[1][2]))
            else:
                self.classes[nm] = {m: (v[0], bool(v[1] or v[2])) for m, v in sig[1].items() if v[3] or m == "__init__"}
        self.cls = None
        self.generic_visit(mod)
        return mod

    def visit_ClassDef(self, n):
        prev, self.cls = self.cls, n.name
        self.generic_visit(n)
        self.cls = prev
        return n

    def visit_Call(self, c):
        self.generic_visit(c)
        if any(isinstance(a, ast.Starred) for a in c.args) or any(k.arg is None for k in c.keywords) or len(c.args) < 2:
            return c
        sig = None
        f = c.func
        if isinstance(f, ast.Name) and f.id in self.funcs:
            sig = self.funcs[f.id]
        elif isinstance(f, ast.Name) and f.id in self.classes and "__init__" in self.classes[f.id] and self.extern and f.id in self.extern:
            sig = self.classes[f.id]["__init__"]
        elif isinstance(f, ast.Attribute) and isinstance(f.value, ast.Name):
            if f.value.id in ("self", "cls") and self.cls and f.attr in self.classes.get(self.cls, {}):
                sig = self.classes[self.cls][f.attr]
            elif f.value.id in self.classes and f.attr in self.classes[f.value.id]:
                sig = self.classes[f.value.id][f.attr]
                # Class.method(obj, ...) on an instance method passes self explicitly: leave it
                if sig is not None and len(c.args) > len(sig[0]):
                    sig = None
        if sig is None or sig[1] or len(c.args) > len(sig[0]):
            return c
        params = sig[0]
        have = {k.arg for k in c.keywords}
        if any(params[i] in have for i in range(len(c.args))):
            return c
        new_kw = [ast.keyword(arg=params[i], value=c.args[i]) for i in range(1, len(c.args))]
        c.args = c.args[:1]
        c.keywords = new_kw + c.keywords
        return c


class FString2Format(ast.NodeTransformer):
    """f"a{x}b{y!r}"  ->  "a{}b{!r}".format(x, y)     (no nested format specs that are themselves expressions; logging calls are left alone)"""

    def visit_JoinedStr(self, n):
        self.generic_visit(n)
        tmpl, args = "", []
        for v in n.values:
            if isinstance(v, ast.Constant) and isinstance(v.value, str):
                tmpl += v.value.replace("{", "{{").replace("}", "}}")
            elif isinstance(v, ast.FormattedValue):
                conv = {-1: "", 115: "!s", 114: "!r", 97: "!a"}.get(v.conversion, None)
                if conv is None:
                    return n
                spec = ""
                if v.format_spec is not None:
                    if not (isinstance(v.format_spec, ast.JoinedStr) and all(isinstance(x, ast.Constant) for x in v.format_spec.values)):
                        return n
                    spec = ":" + "".join(x.value for x in v.format_spec.values)
                tmpl += "{" + conv + spec + "}"
                args.append(v.value)
            else:
                return n
        if not args:
            return n
        return ast.copy_location(ast.Call(func=ast.Attribute(value=ast.Constant(value=tmpl), attr="format", ctx=ast.Load()), args=args, keywords=[]), n)


KINDS = {"fstring2format": FString2Format, "pos2kw": Pos2Kw, "mergeif": MergeIf, "splitif": SplitIf, "elsewrap": ElseWrap, "unelse": UnElse, "ternary2if": Ternary2If, "demorgan": DeMorgan, "unguard": UnGuard, "imports": ImportStyle, "comp2loop": Comp2Loop, "swapindep": SwapIndependent, "splitunpack": SplitUnpack, "flip": Flip, "invert": Invert, "kwargs": Kwargs, "aug": Aug, "noise": Noise, "annot": Annot, "inlinetemp": InlineTemp, "extracttemp": ExtractTemp}


_EXTERNS = {}


def _externs_for(root: str, rel):
    if rel is None:
        return None
    if root not in _EXTERNS:
        import sys as _sys
        _sys.path.insert(0, os.path.dirname(os.path.dirname(os.path.dirname(os.path.abspath(__file__)))))
        from sa.core import package_signatures
        _EXTERNS[root] = package_signatures(root)[0]
    return _EXTERNS[root].get(rel)


def reshaped(src: str, kind: str, rel=None, root: str = "/repo") -> str:
    tr = KINDS[kind]()
    if kind == "pos2kw":
        tr.extern = _externs_for(root, rel)
    t = tr.visit(ast.parse(src))
    ast.fix_missing_locations(t)
    out = ast.unparse(t)
    compile(out, "<reshaped>", "exec")
    return out


@functools.lru_cache(maxsize=32)
def reshaped_package(root: str, kind: str, package: str = "synkit"):
    out = {}
    for dp, dn, fn in os.walk(os.path.join(root, package)):
        for f in fn:
            if f.endswith(".py"):
                path = os.path.join(dp, f)
                try:
                    out[os.path.relpath(path, root)] = reshaped(open(path, encoding="utf-8").read(), kind, os.path.relpath(path, root), root)
                except Exception:
                    continue
    return out
