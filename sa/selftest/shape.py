"""Behaviour-preserving *shape* edits applied to a whole module (used as twins by the self-test):

  flip     a == b -> b == a ; a != b -> b != a ; a < b -> b > a ...  (single comparisons of call-free operands)
  invert   if c: A else: B  ->  if not c: B else: A                  (both branches present, no elif chain)
  kwargs   f(x, a=1, b=2)   ->  f(x, b=2, a=1)                       (keyword order reversed)
  aug      n += 1           ->  n = n + 1                             (plain name, numeric literal)

The analyser's load-time normal form (sa/normal.py) is what makes the rules indifferent to them."""
from __future__ import annotations

import ast
import functools
import os

SWAP = {ast.Eq: ast.Eq, ast.NotEq: ast.NotEq, ast.Lt: ast.Gt, ast.Gt: ast.Lt, ast.LtE: ast.GtE, ast.GtE: ast.LtE}


def _pure(e) -> bool:
    return not any(isinstance(n, (ast.Call, ast.Await, ast.Yield, ast.YieldFrom, ast.NamedExpr)) for n in ast.walk(e))


class Flip(ast.NodeTransformer):
    def visit_Compare(self, n):
        self.generic_visit(n)
        if len(n.ops) == 1 and type(n.ops[0]) in SWAP and _pure(n.left) and _pure(n.comparators[0]):
            return ast.copy_location(ast.Compare(left=n.comparators[0], ops=[SWAP[type(n.ops[0])]()], comparators=[n.left]), n)
        return n


class Invert(ast.NodeTransformer):
    def visit_If(self, n):
        self.generic_visit(n)
        if n.orelse and not (len(n.orelse) == 1 and isinstance(n.orelse[0], ast.If)):
            return ast.copy_location(ast.If(test=ast.UnaryOp(op=ast.Not(), operand=n.test), body=n.orelse, orelse=n.body), n)
        return n


class Kwargs(ast.NodeTransformer):
    def visit_Call(self, n):
        self.generic_visit(n)
        if len(n.keywords) > 1 and all(k.arg is not None for k in n.keywords):
            n.keywords = list(reversed(n.keywords))
        return n


class Aug(ast.NodeTransformer):
    def visit_AugAssign(self, n):
        if isinstance(n.target, ast.Name) and isinstance(n.value, ast.Constant) and isinstance(n.value.value, (int, float)) \
                and not isinstance(n.value.value, bool) and isinstance(n.op, (ast.Add, ast.Sub)):
            return ast.copy_location(ast.Assign(targets=[ast.Name(id=n.target.id, ctx=ast.Store())],
                                                value=ast.BinOp(left=ast.Name(id=n.target.id, ctx=ast.Load()), op=n.op, right=n.value)), n)
        return n


class Noise(ast.NodeTransformer):
    """a debug-log call at the top of every function, loop body and if-branch (pure noise for the analysed properties)"""
    @staticmethod
    def _log(n, what):
        return ast.copy_location(ast.Expr(value=ast.Call(func=ast.Attribute(value=ast.Name(id="__import__('logging')", ctx=ast.Load()), attr="debug", ctx=ast.Load()),
                                                          args=[ast.Constant(value=what)], keywords=[])), n)

    def _wrap(self, n, field, what):
        body = getattr(n, field)
        if body:
            first = 1 if (isinstance(body[0], ast.Expr) and isinstance(body[0].value, ast.Constant) and isinstance(body[0].value.value, str)
                          and isinstance(n, (ast.FunctionDef, ast.AsyncFunctionDef))) else 0
            # keep `nonlocal` / `global` declarations first
            while first < len(body) and isinstance(body[first], (ast.Global, ast.Nonlocal)):
                first += 1
            body.insert(first, self._log(body[0], what))

    def visit_FunctionDef(self, n):
        self.generic_visit(n)
        self._wrap(n, "body", f"enter {n.name}")
        return n
    visit_AsyncFunctionDef = visit_FunctionDef

    def visit_For(self, n):
        self.generic_visit(n)
        self._wrap(n, "body", "loop")
        return n

    def visit_While(self, n):
        self.generic_visit(n)
        self._wrap(n, "body", "loop")
        return n


class Annot(ast.NodeTransformer):
    """`x = v` -> `x: object = v` for plain local names inside functions"""
    def __init__(self):
        self.depth = 0

    def visit_FunctionDef(self, n):
        self.depth += 1
        self.generic_visit(n)
        self.depth -= 1
        return n
    visit_AsyncFunctionDef = visit_FunctionDef

    def visit_Assign(self, n):
        if self.depth and len(n.targets) == 1 and isinstance(n.targets[0], ast.Name):
            return ast.copy_location(ast.AnnAssign(target=ast.Name(id=n.targets[0].id, ctx=ast.Store()), annotation=ast.Name(id="object", ctx=ast.Load()),
                                                   value=n.value, simple=1), n)
        return n


KINDS = {"flip": Flip, "invert": Invert, "kwargs": Kwargs, "aug": Aug, "noise": Noise, "annot": Annot}


def reshaped(src: str, kind: str) -> str:
    t = KINDS[kind]().visit(ast.parse(src))
    ast.fix_missing_locations(t)
    out = ast.unparse(t)
    compile(out, "<reshaped>", "exec")
    return out


@functools.lru_cache(maxsize=8)
def reshaped_package(root: str, kind: str, package: str = "synkit"):
    out = {}
    for dp, dn, fn in os.walk(os.path.join(root, package)):
        for f in fn:
            if f.endswith(".py"):
                path = os.path.join(dp, f)
                try:
                    out[os.path.relpath(path, root)] = reshaped(open(path, encoding="utf-8").read(), kind)
                except Exception:
                    continue
    return out
