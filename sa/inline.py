"""Load-time inlining of helpers that were extracted after the pinned tree.

The rules are anchored in the functions the properties name.  The commonest maintenance edit, "extract function", moves part of an
anchored function into a new private helper - the behaviour is unchanged, but a rule that looks for a construct inside the anchored
function no longer finds it.  This pass undoes exactly that: a function that

  * is NOT in the frozen inventory of the pinned tree (`sa/baseline_functions.json`, written by tools/gen_baseline_functions.py),
  * lives in the same module as its callers (its definition stays; only same-module call sites are rewritten), is not recursive,
    takes plain parameters (no *args / **kwargs) and is small enough to be understood as one of the three forms below,

is substituted at its call sites (inlining bound: three rounds, i.e. new helpers may call new helpers two levels deep):

  E  expression helper:   [docstring] [x = <expr>]* [if <c>: return <e>]* return <e>
     -> the call becomes one (conditional) expression with the locals substituted
  S  procedure:           statements without `return <value>`; only a trailing bare return / guard clauses `if c: return` at top level
     -> an expression statement `helper(args)` becomes the helper's statements
  A  block with a result: like S but ending in `return <expr>`
     -> `t = helper(args)` / `return helper(args)` becomes the helper's statements followed by `t = <expr>` / `return <expr>`

  R  function with several `return <expr>` nested in if/else only (never inside a loop / try / with), ending in a return
     -> the body is restructured into if/else assignments of one result variable (statements after an `if` that returns are moved into
        the branches that fall through); a statement that evaluates the call first (`x.extend(helper(a))`, `if not helper(a): ...`)
        becomes those statements followed by the statement with the call replaced by the result variable.
        Jump threading: when all results are the constants True/False and the call site is `if [not] helper(a): continue|break|return ..`
        whose jump is taken for exactly the non-final results, every non-final `return` simply becomes that jump and the final one falls
        through (`if key in seen: return False` in the helper is `if key in seen: continue` at the call site).
  G  generator whose yields are all statements `yield <expr>` (no return value)
     -> `for t in helper(a): BODY` becomes the generator's statements with every `yield e` replaced by `t = e; BODY`.  Only when BODY has no
        `break` of that loop, and - if BODY has a `continue` of that loop - every yield is the last thing its own innermost loop does.

Parameters are replaced by the argument expressions (arguments are names, attributes, constants or calls in practice; an argument
with side effects would be duplicated - irrelevant for an analysis that executes nothing).  Locals of the helper are renamed
`<name>__<helper>` so that they cannot capture names of the caller.  The helper's own definition stays in the tree.
Anything that does not fit is left alone; the rules then answer as before (typically: anchor construct not found, exit 2)."""
from __future__ import annotations

import ast
import copy
import json
import os
from typing import Dict, List, Optional, Set, Tuple

_BASE: Optional[Dict[str, Set[str]]] = None
MAX_STMTS = 40


def baseline() -> Dict[str, Set[str]]:
    global _BASE
    if _BASE is None:
        p = os.path.join(os.path.dirname(os.path.abspath(__file__)), "baseline_functions.json")
        try:
            _BASE = {k: set(v) for k, v in json.load(open(p)).items()}
        except OSError:
            _BASE = {}
    return _BASE


# ------------------------------------------------------------------ discovery
def _functions(tree) -> List[Tuple[str, ast.AST, Optional[ast.ClassDef], Optional[ast.AST]]]:
    """[(qual, node, class, enclosing function)] with the qualified names used by core._index_module"""
    out = []

    def visit(body, prefix, cls):
        for st in body:
            if isinstance(st, (ast.FunctionDef, ast.AsyncFunctionDef)):
                q = prefix + st.name
                out.append((q, st, cls, None))
                nested(st, q + ".<locals>.", cls)
            elif isinstance(st, ast.ClassDef):
                visit(st.body, prefix + st.name + ".", st)
            elif isinstance(st, (ast.If, ast.Try, ast.With)):
                for f in ("body", "orelse", "finalbody"):
                    b = getattr(st, f, None)
                    if isinstance(b, list):
                        visit(b, prefix, cls)

    def nested(fn, prefix, cls):
        for st in ast.walk(fn):
            if st is not fn and isinstance(st, (ast.FunctionDef, ast.AsyncFunctionDef)):
                out.append((prefix + st.name, st, cls, fn))
    visit(tree.body, "", None)
    return out


def _simple_params(fn) -> Optional[List[str]]:
    a = fn.args
    if a.vararg or a.kwarg or a.posonlyargs:
        return None
    return [x.arg for x in a.args + a.kwonlyargs]


def _body(fn) -> List[ast.stmt]:
    b = list(fn.body)
    if b and isinstance(b[0], ast.Expr) and isinstance(b[0].value, ast.Constant) and isinstance(b[0].value.value, str):
        b = b[1:]
    return [s for s in b if not isinstance(s, ast.Pass)]


def _has(node, kinds) -> bool:
    return any(isinstance(n, kinds) for n in ast.walk(node))


def _returns(stmts) -> List[ast.Return]:
    """return statements of the function itself (those of nested defs / lambdas do not count)"""
    out = []

    def walk(n):
        if isinstance(n, ast.Return):
            out.append(n)
        for c in ast.iter_child_nodes(n):
            if not isinstance(c, (ast.FunctionDef, ast.AsyncFunctionDef, ast.Lambda, ast.ClassDef)):
                walk(c)
    for s in stmts:
        if not isinstance(s, (ast.FunctionDef, ast.AsyncFunctionDef, ast.ClassDef)):
            walk(s)
    return out


class _Template:
    def __init__(self, name, params, defaults, form, stmts, result, owner_cls, is_method, is_static):
        self.name, self.params, self.defaults, self.form = name, params, defaults, form
        self.stmts, self.result = stmts, result  # statements to splice, expression to return (or None)
        self.owner_cls, self.is_method, self.is_static = owner_cls, is_method, is_static


def _classify_ESAG(fn) -> Optional[Tuple[str, List[ast.stmt], Optional[ast.expr]]]:
    """('E'|'S'|'A'|'G', statements, result expression)"""
    if isinstance(fn, ast.AsyncFunctionDef) or _has(fn, (ast.YieldFrom, ast.Await, ast.Global, ast.Nonlocal)):
        return None
    nested = [n for n in ast.walk(fn) if isinstance(n, (ast.FunctionDef, ast.AsyncFunctionDef, ast.ClassDef)) and n is not fn]
    if nested:
        # a helper with a closure is spliced together with it, provided the closure's own parameter names cannot be confused with
        # the helper's parameters / locals (they are not renamed) and it is a plain function
        own = set(_simple_params(fn) or []) | {n.id for n in ast.walk(fn) if isinstance(n, ast.Name) and isinstance(n.ctx, ast.Store)}
        for d in nested:
            if not isinstance(d, ast.FunctionDef) or d.decorator_list or _has(d, (ast.Yield, ast.YieldFrom)):
                return None
            if {a.arg for a in d.args.posonlyargs + d.args.args + d.args.kwonlyargs} & (own - {n.id for n in ast.walk(d) if isinstance(n, ast.Name) and isinstance(n.ctx, ast.Store)}):
                return None
            if d.args.vararg or d.args.kwarg:
                return None
    body = _body(fn)
    if not body or len(list(ast.walk(fn))) > 1500 or sum(1 for n in ast.walk(fn) if isinstance(n, ast.stmt)) > MAX_STMTS:
        return None
    if _has(fn, ast.Yield):
        # ---- form G: every yield is a statement, nothing is returned
        ys = [n for n in ast.walk(fn) if isinstance(n, ast.Yield)]
        stmts_y = [n for n in ast.walk(fn) if isinstance(n, ast.Expr) and isinstance(n.value, ast.Yield)]
        if len(ys) != len(stmts_y) or any(y.value is None for y in ys) or _returns(body):
            return None
        return "G", body, None
    # ---- form E: assignments of plain names, guard returns, final return
    if isinstance(body[-1], ast.Return) and body[-1].value is not None:
        ok = True
        flat = []
        for s in body[:-1]:
            # a, b = x, y  ->  a = x; b = y
            if isinstance(s, ast.Assign) and len(s.targets) == 1 and isinstance(s.targets[0], ast.Tuple) and isinstance(s.value, ast.Tuple) \
                    and len(s.targets[0].elts) == len(s.value.elts) and all(isinstance(e, ast.Name) for e in s.targets[0].elts):
                for tg, v in zip(s.targets[0].elts, s.value.elts):
                    flat.append(ast.copy_location(ast.Assign(targets=[tg], value=v), s))
            else:
                flat.append(s)
        body = flat + [body[-1]]
        for s in body[:-1]:
            if isinstance(s, ast.Assign) and len(s.targets) == 1 and isinstance(s.targets[0], ast.Name):
                continue
            if isinstance(s, ast.If) and not s.orelse and len(s.body) == 1 and isinstance(s.body[0], ast.Return) and s.body[0].value is not None:
                continue
            ok = False
        if ok:
            return "E", body[:-1], body[-1].value
    # ---- forms S / A: no `return <value>` except a trailing one; bare returns only as top-level guard clauses
    tail = body[-1] if isinstance(body[-1], ast.Return) else None
    core = body[:-1] if tail is not None else body
    inner = []
    for s in core:
        if isinstance(s, ast.If) and not s.orelse and len(s.body) == 1 and isinstance(s.body[0], ast.Return) and s.body[0].value is None:
            inner.append(("guard", s))
        elif _returns([s]):
            return None
        else:
            inner.append(("stmt", s))
    # turn top-level guard clauses `if c: return` into nesting: if not c: <rest>
    def nest(items):
        out = []
        for i, (kind, s) in enumerate(items):
            if kind == "guard":
                rest = nest(items[i + 1:])
                if tail is not None and tail.value is not None:
                    return None if rest is None else None  # a value is returned after a bare-return guard: not modelled
                if rest:
                    out.append(ast.copy_location(ast.If(test=ast.UnaryOp(op=ast.Not(), operand=s.test), body=rest, orelse=[]), s))
                return out
            out.append(s)
        return out
    stmts = nest(inner)
    if stmts is None:
        return None
    if tail is not None and tail.value is not None:
        return "A", stmts, tail.value
    return "S", stmts, None


_PURE_CALLS = {"int", "float", "str", "len", "bool", "tuple", "list", "dict", "set", "frozenset", "sorted", "min", "max", "abs", "round", "repr", "sum", "any", "all", "isinstance"}


def _pure_template(t) -> bool:
    """the helper only computes with its arguments and fills containers it created itself: moving its statements in front of the calling
    statement cannot be observed by the other calls of that statement"""
    own = _locals_of(t.stmts, set(t.params))
    nodes = [n for s_ in t.stmts for n in ast.walk(s_)] + (list(ast.walk(t.result)) if t.result is not None else [])
    for n in nodes:
        if isinstance(n, ast.Call):
            if not (isinstance(n.func, ast.Name) and n.func.id in _PURE_CALLS):
                # methods of own fresh containers are fine: x.append / x.add / x.update / x.setdefault / x.get
                if not (isinstance(n.func, ast.Attribute) and isinstance(n.func.value, ast.Name) and n.func.value.id in own
                        and n.func.attr in ("append", "add", "update", "setdefault", "get", "extend", "items", "keys", "values")):
                    return False
        if isinstance(n, (ast.Subscript, ast.Attribute)) and isinstance(n.ctx, (ast.Store, ast.Del)):
            base = n.value
            while isinstance(base, (ast.Subscript, ast.Attribute)):
                base = base.value
            if not (isinstance(base, ast.Name) and base.id in own):
                return False
        if isinstance(n, (ast.Yield, ast.YieldFrom, ast.Await, ast.Global, ast.Nonlocal, ast.Raise, ast.Delete)):
            return False
    return True


RES = "__result"


def _classify(fn):
    r = _classify_ESAG(fn)
    if r is not None:
        return r
    if isinstance(fn, ast.AsyncFunctionDef) or _has(fn, (ast.Yield, ast.YieldFrom, ast.Await, ast.Global, ast.Nonlocal)):
        return None
    if any(isinstance(n, (ast.FunctionDef, ast.AsyncFunctionDef, ast.ClassDef)) and n is not fn for n in ast.walk(fn)):
        return None
    if len(list(ast.walk(fn))) > 1500 or sum(1 for n in ast.walk(fn) if isinstance(n, ast.stmt)) > MAX_STMTS:
        return None
    return _classify_R(fn)


def _contains_return(s) -> bool:
    return bool(_returns([s]))


def _classify_R(fn):
    """form R: ('R', original body, None) when returns sit only in if/else nests and the body ends in a return"""
    body = _body(fn)
    if not body or not isinstance(body[-1], ast.Return) or body[-1].value is None:
        return None

    def ok(stmts):
        for s in stmts:
            if isinstance(s, ast.Return):
                if s.value is None:
                    return False
            elif isinstance(s, ast.If):
                if not ok(s.body) or not ok(s.orelse):
                    return False
            elif _contains_return(s):
                return False
        return True
    if not ok(body):
        return None
    return "R", body, None


def _structure(stmts, res, budget):
    """statements in which every `return e` is `res = e` and nothing follows an assignment of res on any path"""
    out = []
    for i, s in enumerate(stmts):
        budget[0] -= 1
        if budget[0] < 0:
            return None
        if isinstance(s, ast.Return):
            out.append(ast.copy_location(ast.Assign(targets=[ast.Name(id=res, ctx=ast.Store())], value=s.value), s))
            return out
        if isinstance(s, ast.If) and _contains_return(s):
            rest = stmts[i + 1:]
            b = _structure(list(s.body) + copy.deepcopy(rest), res, budget)
            o = _structure(list(s.orelse) + copy.deepcopy(rest), res, budget)
            if b is None or o is None:
                return None
            out.append(ast.copy_location(ast.If(test=s.test, body=b or [ast.Pass()], orelse=o), s))
            return out
        out.append(s)
    return out


# ------------------------------------------------------------------ substitution
class _Subst(ast.NodeTransformer):
    def __init__(self, mapping: Dict[str, ast.expr], rename: Dict[str, str]):
        self.mapping, self.rename = mapping, rename

    def visit_Name(self, n):
        if n.id in self.mapping and isinstance(n.ctx, ast.Load):
            return copy.deepcopy(self.mapping[n.id])
        if n.id in self.rename:
            return ast.copy_location(ast.Name(id=self.rename[n.id], ctx=n.ctx), n)
        return n

    def visit_arg(self, n):
        return n

    def visit_Lambda(self, n):
        shadow = {a.arg for a in n.args.args}
        sub = _Subst({k: v for k, v in self.mapping.items() if k not in shadow}, {k: v for k, v in self.rename.items() if k not in shadow})
        n.body = sub.visit(n.body)
        return n


def _locals_of(stmts, params) -> Set[str]:
    out = set()
    for s in stmts:
        for n in ast.walk(s):
            if isinstance(n, ast.Name) and isinstance(n.ctx, (ast.Store, ast.Del)) and n.id not in params:
                out.add(n.id)
            if isinstance(n, ast.comprehension):
                pass
    return out


def _bind(t: _Template, call: ast.Call, recv: Optional[ast.expr]) -> Optional[Dict[str, ast.expr]]:
    params = list(t.params)
    mapping: Dict[str, ast.expr] = {}
    if t.is_method and not t.is_static:
        if not params:
            return None
        mapping[params[0]] = recv if recv is not None else ast.Name(id=params[0], ctx=ast.Load())
        params = params[1:]
    if any(isinstance(a, ast.Starred) for a in call.args) or any(k.arg is None for k in call.keywords):
        return None
    if len(call.args) > len(params):
        return None
    for p, a in zip(params, call.args):
        mapping[p] = a
    for k in call.keywords:
        if k.arg not in params or k.arg in mapping:
            return None
        mapping[k.arg] = k.value
    for p in params:
        if p not in mapping:
            if p in t.defaults:
                mapping[p] = t.defaults[p]
            else:
                return None
    return mapping


def _as_expression(t: _Template, mapping) -> Optional[ast.expr]:
    """form E -> one expression (locals substituted, guards become conditional expressions)"""
    env = dict(mapping)
    pending: List[Tuple[ast.expr, ast.expr]] = []
    for s in t.stmts:
        if isinstance(s, ast.Assign):
            env[s.targets[0].id] = _Subst(env, {}).visit(copy.deepcopy(s.value))
        else:
            pending.append((_Subst(env, {}).visit(copy.deepcopy(s.test)), _Subst(env, {}).visit(copy.deepcopy(s.body[0].value))))
    res = _Subst(env, {}).visit(copy.deepcopy(t.result))
    for test, val in reversed(pending):
        res = ast.IfExp(test=test, body=val, orelse=res)
    return res


class _Inliner(ast.NodeTransformer):
    def __init__(self, templates: Dict[str, _Template], current_cls_stack=None):
        self.t = templates
        self.count = 0
        self.cls: List[ast.ClassDef] = []
        self.fn: List[ast.AST] = []
        self.uid = 0
        self.res_used: Dict[str, int] = {}
        self.instances: Dict[Tuple[int, str], int] = {}
        self.prologue: List[ast.stmt] = []

    # -- context
    def visit_ClassDef(self, n):
        self.cls.append(n)
        self.generic_visit(n)
        self.cls.pop()
        return n

    def visit_FunctionDef(self, n):
        self.fn.append(n)
        n.body = self._block(n.body)
        self.fn.pop()
        return n
    visit_AsyncFunctionDef = visit_FunctionDef

    def _lookup(self, call: ast.Call):
        """(template, receiver) if the call targets a known new helper"""
        f = call.func
        if isinstance(f, ast.Name) and f.id in self.t:
            t = self.t[f.id]
            if t.owner_cls is None or not t.is_method:
                return t, None
        if isinstance(f, ast.Attribute) and f.attr in self.t:
            t = self.t[f.attr]
            if t.owner_cls is not None and isinstance(f.value, ast.Name) and (f.value.id in ("self", "cls") or f.value.id == t.owner_cls.name):
                return t, f.value
        return None, None

    def _inside_own_body(self, t: _Template) -> bool:
        return any(getattr(f, "name", None) == t.name for f in self.fn)

    # -- expression calls (form E)
    def visit_Call(self, n):
        self.generic_visit(n)
        t, recv = self._lookup(n)
        if t is None or t.form != "E" or self._inside_own_body(t):
            return n
        m = _bind(t, n, recv)
        if m is None:
            return n
        e = _as_expression(t, m)
        if e is None:
            return n
        self.count += 1
        return ast.copy_location(e, n)

    # -- statement level (forms S, A)
    def _renaming(self, t: _Template, fuse: Optional[Tuple[str, str]] = None, m: Optional[Dict[str, ast.expr]] = None) -> Dict[str, str]:
        """helper locals -> caller-side names: `x__helper` for the first instance inside a function, `x__helper_2`, ... for later ones;
        `fuse` = (helper local, caller name) lets the helper's result variable become the caller's target directly"""
        key = (id(self.fn[-1]) if self.fn else 0, t.name)
        self.instances[key] = self.instances.get(key, 0) + 1
        k = self.instances[key]
        suffix = f"__{t.name.strip('_')}" + ("" if k == 1 else f"_{k}")
        ren = {x: f"{x}{suffix}" for x in _locals_of(t.stmts, set(t.params))}
        if fuse is not None and fuse[0] in ren:
            ren[fuse[0]] = fuse[1]
        # a parameter the helper re-binds is a local that starts with the argument's value
        self.prologue = []
        if m is not None:
            stored = {n.id for s_ in t.stmts for n in ast.walk(s_) if isinstance(n, ast.Name) and isinstance(n.ctx, (ast.Store, ast.Del)) and n.id in m}
            for p_ in sorted(stored):
                arg = m.pop(p_)
                ren[p_] = f"{p_}{suffix}"
                self.prologue.append(ast.Assign(targets=[ast.Name(id=ren[p_], ctx=ast.Store())], value=copy.deepcopy(arg)))
        return ren

    def _splice(self, t: _Template, call: ast.Call, recv, at: ast.stmt, target: Optional[str] = None):
        m = _bind(t, call, recv)
        if m is None:
            return None
        self.uid += 1
        fuse = None
        if target is not None and isinstance(t.result, ast.Name) and t.result.id not in t.params:
            # `t = helper(..)` where the helper ends in `return local`: the local simply is `t` (unless the arguments mention t)
            used = {n.id for a in m.values() for n in ast.walk(a) if isinstance(n, ast.Name)}
            if target not in used and (target == t.result.id or target not in _locals_of(t.stmts, set(t.params))):
                fuse = (t.result.id, target)
        ren = self._renaming(t, fuse, m)
        sub = _Subst(m, ren)
        stmts = [ast.copy_location(s_, at) for s_ in self.prologue] + [ast.copy_location(sub.visit(copy.deepcopy(s)), at) for s in t.stmts]
        for s in stmts:
            for x in ast.walk(s):
                if hasattr(x, "lineno"):
                    x.lineno = getattr(at, "lineno", 0)
                    x.end_lineno = getattr(at, "end_lineno", x.lineno)
        res = sub.visit(copy.deepcopy(t.result)) if t.result is not None else None
        return stmts, res

    # -- generators consumed by a for loop (form G)
    @staticmethod
    def _bound(body, kinds):
        """statements of `kinds` that belong to the loop whose body is `body`"""
        out = []

        def walk(stmts):
            for s in stmts:
                if isinstance(s, kinds):
                    out.append(s)
                elif isinstance(s, (ast.For, ast.While, ast.AsyncFor)):
                    walk(s.orelse)
                elif isinstance(s, (ast.FunctionDef, ast.AsyncFunctionDef, ast.ClassDef)):
                    continue
                else:
                    for f in ("body", "orelse", "finalbody"):
                        walk(getattr(s, f, None) or [])
                    for h in getattr(s, "handlers", None) or []:
                        walk(h.body)
        walk(body)
        return out

    @staticmethod
    def _yields_in_tail(stmts, tail=False):
        for i, s in enumerate(stmts):
            t = tail and i == len(stmts) - 1
            if isinstance(s, ast.Expr) and isinstance(s.value, ast.Yield):
                if not t:
                    return False
            elif isinstance(s, (ast.For, ast.While)):
                if not _Inliner._yields_in_tail(s.body, True) or not _Inliner._yields_in_tail(s.orelse, t):
                    return False
            elif isinstance(s, ast.If):
                if not _Inliner._yields_in_tail(s.body, t) or not _Inliner._yields_in_tail(s.orelse, t):
                    return False
            elif isinstance(s, ast.With):
                if not _Inliner._yields_in_tail(s.body, t):
                    return False
            elif _has(s, ast.Yield):
                return False
        return True

    def _splice_gen(self, t: _Template, call: ast.Call, recv, loop: ast.For):
        if loop.orelse or self._bound(loop.body, (ast.Break,)):
            return None
        if self._bound(loop.body, (ast.Continue,)) and not self._yields_in_tail(t.stmts):
            return None
        m = _bind(t, call, recv)
        if m is None:
            return None
        ren = self._renaming(t, None, m)
        sub = _Subst(m, ren)
        stmts = list(self.prologue) + [sub.visit(copy.deepcopy(s)) for s in t.stmts]
        for s_ in stmts:
            for x in ast.walk(s_):
                if hasattr(x, "lineno"):
                    x.lineno = getattr(loop, "lineno", 0)
                    x.end_lineno = getattr(loop, "end_lineno", x.lineno)

        class Y(ast.NodeTransformer):
            def visit_Expr(self_, n):
                if isinstance(n.value, ast.Yield):
                    tgt = copy.deepcopy(loop.target)
                    return [ast.copy_location(ast.Assign(targets=[tgt], value=n.value.value), loop)] + copy.deepcopy(loop.body)
                return n
        out = []
        for s_ in stmts:
            r = Y().visit(s_)
            out.extend(r if isinstance(r, list) else [r])
        return out

    # -- several returns (form R)
    def _res_name(self, t):
        self.res_used[t.name] = self.res_used.get(t.name, 0) + 1
        k = self.res_used[t.name]
        return f"result__{t.name.strip('_')}" + ("" if k == 1 else f"_{k}")

    def _instantiate(self, t: _Template, call, recv, at, stmts):
        m = _bind(t, call, recv)
        if m is None:
            return None
        ren = self._renaming(t, None, m)
        sub = _Subst(m, ren)
        out = list(self.prologue) + [sub.visit(copy.deepcopy(s)) for s in stmts]
        for s_ in out:
            for x in ast.walk(s_):
                if hasattr(x, "lineno"):
                    x.lineno = getattr(at, "lineno", 0)
                    x.end_lineno = getattr(at, "end_lineno", x.lineno)
        return out

    def _thread_jump(self, t: _Template, call, recv, st: ast.If, negated: bool):
        """if [not] helper(): JUMP  ->  helper body with the non-final returns replaced by JUMP"""
        rets = [n for s_ in t.stmts for n in ast.walk(s_) if isinstance(n, ast.Return)]
        final = t.stmts[-1]
        if not all(isinstance(r.value, ast.Constant) and isinstance(r.value.value, bool) for r in rets):
            return None
        jump_on = not negated
        if final.value.value == jump_on or any(r.value.value != jump_on for r in rets if r is not final):
            return None
        body = self._instantiate(t, call, recv, st, t.stmts[:-1])
        if body is None:
            return None
        jump = st.body[0]

        class J(ast.NodeTransformer):
            def visit_Return(self_, n):
                return ast.copy_location(copy.deepcopy(jump), n)
        return [J().visit(s_) for s_ in body]

    @staticmethod
    def _evaluated_first(root: ast.AST, call: ast.Call) -> bool:
        """the call is evaluated unconditionally and before any other call of the expression"""
        path = []

        def find(n, acc):
            if n is call:
                path.extend(acc)
                return True
            for c in ast.iter_child_nodes(n):
                if find(c, acc + [n]):
                    return True
            return False
        if not find(root, []):
            return False
        for par, child in zip(path, path[1:] + [call]):
            if isinstance(par, (ast.Lambda, ast.ListComp, ast.SetComp, ast.DictComp, ast.GeneratorExp, ast.NamedExpr)):
                return False
            if isinstance(par, ast.BoolOp) and par.values[0] is not child:
                return False
            if isinstance(par, ast.IfExp) and par.test is not child:
                return False
        inside = set(map(id, ast.walk(call)))
        anc = set(map(id, path))
        for n in ast.walk(root):
            if isinstance(n, (ast.Call, ast.Await, ast.Yield, ast.YieldFrom, ast.NamedExpr, ast.ListComp, ast.SetComp, ast.DictComp, ast.GeneratorExp)) \
                    and id(n) not in inside and id(n) not in anc:
                return False
        return True

    def _expand_comprehension(self, st):
        """`x = [helper(a) for t in X if C]` / `return [helper(a) ...]` with a statement-form helper (A): the inverse of the accumulate-loop normal
        form - an explicit loop whose body is the helper's statements followed by `x.append(<result>)`"""
        if isinstance(st, ast.Assign) and len(st.targets) == 1 and isinstance(st.targets[0], ast.Name):
            comp, out_name, is_ret = st.value, st.targets[0].id, False
        elif isinstance(st, ast.Return) and st.value is not None:
            comp, out_name, is_ret = st.value, None, True
        else:
            return None
        if not (isinstance(comp, ast.ListComp) and len(comp.generators) == 1 and not comp.generators[0].is_async and isinstance(comp.elt, ast.Call)):
            return None
        t, recv = self._lookup(comp.elt)
        if t is None or t.form != "A" or self._inside_own_body(t):
            return None
        g = comp.generators[0]
        if out_name is None:
            self.res_used["<comp>"] = self.res_used.get("<comp>", 0) + 1
            out_name = f"collected__{t.name.strip('_')}" + ("" if self.res_used["<comp>"] == 1 else f"_{self.res_used['<comp>']}")
        sp = self._splice(t, comp.elt, recv, st)
        if sp is None:
            return None
        stmts, res = sp
        guards = [ast.copy_location(ast.If(test=ast.UnaryOp(op=ast.Not(), operand=c), body=[ast.Continue()], orelse=[]), st) for c in g.ifs]
        app = ast.Expr(value=ast.Call(func=ast.Attribute(value=ast.Name(id=out_name, ctx=ast.Load()), attr="append", ctx=ast.Load()), args=[res], keywords=[]))
        loop = ast.For(target=g.target, iter=g.iter, body=guards + stmts + [app], orelse=[])
        init = ast.Assign(targets=[ast.Name(id=out_name, ctx=ast.Store())], value=ast.List(elts=[], ctx=ast.Load()))
        new = [init, loop] + ([ast.Return(value=ast.Name(id=out_name, ctx=ast.Load()))] if is_ret else [])
        for n_ in new:
            ast.copy_location(n_, st)
            for x in ast.walk(n_):
                if not hasattr(x, "lineno") and isinstance(x, (ast.stmt, ast.expr)):
                    ast.copy_location(x, st)
            ast.fix_missing_locations(n_)
        return new

    @staticmethod
    def _unconditional(root, call) -> bool:
        """the call is evaluated whenever the statement is (not under a lambda / comprehension / short-circuit / conditional expression branch)"""
        path = []

        def find(n, acc):
            if n is call:
                path.extend(acc)
                return True
            return any(find(c, acc + [n]) for c in ast.iter_child_nodes(n))
        if not find(root, []):
            return False
        for par, child in zip(path, path[1:] + [call]):
            if isinstance(par, (ast.Lambda, ast.ListComp, ast.SetComp, ast.DictComp, ast.GeneratorExp, ast.NamedExpr)):
                return False
            if isinstance(par, ast.BoolOp) and par.values[0] is not child:
                return False
            if isinstance(par, ast.IfExp) and par.test is not child:
                return False
        return True

    def _hoist(self, st):
        """statement with one call of a form-R helper evaluated first -> structured helper statements + the statement reading the result variable"""
        roots = [st.test] if isinstance(st, ast.If) else ([st.iter] if isinstance(st, ast.For) else
                                                            ([st] if isinstance(st, (ast.Expr, ast.Assign, ast.AugAssign, ast.AnnAssign, ast.Return)) else []))
        if not roots:
            return None
        root = roots[0]
        cands = []
        for n in ast.walk(root):
            if isinstance(n, ast.Call):
                t, recv = self._lookup(n)
                if t is not None and t.form in ("R", "A") and not self._inside_own_body(t):
                    cands.append((n, t, recv))
        if len(cands) != 1:
            return None
        call, t, recv = cands[0]
        if not self._evaluated_first(root, call) and not (_pure_template(t) and self._unconditional(root, call)):
            return None
        if t.form == "A" and isinstance(st, (ast.Assign, ast.Return, ast.Expr)) and getattr(st, "value", None) is call:
            return None  # `t = helper()` / `return helper()` / `helper()`: the plain statement forms below (with result fusion)
        if t.form == "A":
            # statements first, then the statement with the call replaced by the helper's result expression
            sp = self._splice(t, call, recv, st)
            if sp is None or sp[1] is None:
                return None
            stmts_a, res_expr = sp

            class RA(ast.NodeTransformer):
                def visit_Call(self_, n):
                    if n is call:
                        return ast.copy_location(res_expr, n)
                    return self_.generic_visit(n)
            if isinstance(st, ast.If):
                st.test = RA().visit(st.test)
            elif isinstance(st, ast.For):
                st.iter = RA().visit(st.iter)
            else:
                st = RA().visit(st)
            return stmts_a + [st]
        res = self._res_name(t)
        structured = _structure(copy.deepcopy(t.stmts), RES, [200])
        if structured is None:
            return None
        stmts = self._instantiate(t, call, recv, st, structured)
        if stmts is None:
            return None
        for s_ in stmts:
            for x in ast.walk(s_):
                if isinstance(x, ast.Name) and x.id.startswith(RES):
                    x.id = res

        class R(ast.NodeTransformer):
            def visit_Call(self_, n):
                if n is call:
                    return ast.copy_location(ast.Name(id=res, ctx=ast.Load()), n)
                return self_.generic_visit(n)
        if isinstance(st, ast.If):
            st.test = R().visit(st.test)
        elif isinstance(st, ast.For):
            st.iter = R().visit(st.iter)
        else:
            st = R().visit(st)
        return stmts + [st]

    def _block(self, body):
        out = []
        for st in body:
            st = self.visit(st)
            repl = None
            call = None
            if isinstance(st, ast.For) and isinstance(st.iter, ast.Call):
                t, recv = self._lookup(st.iter)
                if t is not None and t.form == "G" and not self._inside_own_body(t):
                    repl = self._splice_gen(t, st.iter, recv, st)
                    if repl is not None:
                        self.count += 1
                        out.extend(repl)
                        continue
            if isinstance(st, ast.If) and not st.orelse and len(st.body) == 1 and isinstance(st.body[0], (ast.Continue, ast.Break, ast.Return)):
                test, neg = st.test, False
                if isinstance(test, ast.UnaryOp) and isinstance(test.op, ast.Not):
                    test, neg = test.operand, True
                if isinstance(test, ast.Call):
                    t, recv = self._lookup(test)
                    if t is not None and t.form == "R" and not self._inside_own_body(t):
                        repl = self._thread_jump(t, test, recv, st, neg)
                        if repl is not None:
                            self.count += 1
                            out.extend(repl)
                            continue
            expanded = self._expand_comprehension(st)
            if expanded is not None:
                self.count += 1
                out.extend(expanded)
                continue
            hoisted = self._hoist(st)
            if hoisted is not None:
                self.count += 1
                out.extend(hoisted)
                continue
            if isinstance(st, ast.Expr) and isinstance(st.value, ast.Call):
                call, kind = st.value, "expr"
            elif isinstance(st, ast.Assign) and isinstance(st.value, ast.Call):
                call, kind = st.value, "assign"
            elif isinstance(st, ast.Return) and isinstance(st.value, ast.Call):
                call, kind = st.value, "return"
            if call is not None:
                t, recv = self._lookup(call)
                if t is not None and t.form in ("S", "A") and not self._inside_own_body(t):
                    tgt_name = st.targets[0].id if kind == "assign" and len(st.targets) == 1 and isinstance(st.targets[0], ast.Name) else None
                    sp = self._splice(t, call, recv, st, tgt_name)
                    if sp is not None:
                        stmts, res = sp
                        if kind == "expr":
                            repl = stmts
                        elif kind == "assign" and res is not None:
                            if tgt_name is not None and isinstance(res, ast.Name) and res.id == tgt_name:
                                repl = stmts  # the helper's result variable was fused with the target
                            else:
                                repl = stmts + [ast.copy_location(ast.Assign(targets=st.targets, value=res), st)]
                        elif kind == "return" and res is not None:
                            repl = stmts + [ast.copy_location(ast.Return(value=res), st)]
                        if repl is not None:
                            self.count += 1
            if repl is not None:
                out.extend(repl)
            else:
                out.append(st)
        return out

    def generic_visit(self, node):
        for f in ("body", "orelse", "finalbody"):
            lst = getattr(node, f, None)
            if isinstance(lst, list) and lst and isinstance(lst[0], ast.stmt) and not isinstance(node, (ast.FunctionDef, ast.AsyncFunctionDef, ast.ClassDef, ast.Module)):
                setattr(node, f, self._block(lst))
        if isinstance(node, (ast.If, ast.For, ast.While, ast.With, ast.Try, ast.AsyncFor, ast.AsyncWith, ast.ExceptHandler)):
            # the statement lists were handled by _block; visit the remaining expression fields
            for field, value in ast.iter_fields(node):
                if field in ("body", "orelse", "finalbody"):
                    continue
                if isinstance(value, ast.AST):
                    setattr(node, field, self.visit(value))
                elif isinstance(value, list):
                    setattr(node, field, [self.visit(v) if isinstance(v, ast.AST) else v for v in value])
            return node
        return super().generic_visit(node)


def new_module_functions(tree: ast.Module, rel: str) -> Dict[str, ast.AST]:
    """module-level functions of `rel` that are not in the inventory of the pinned tree (candidates for substitution in modules that import them)"""
    base = baseline().get(rel)
    if base is None:
        return {}
    return {st.name: st for st in tree.body if isinstance(st, ast.FunctionDef) and st.name not in base and not st.name.startswith("__")}


def inline_new_helpers(tree: ast.Module, rel: str, foreign: Optional[Dict[str, ast.AST]] = None) -> Tuple[ast.Module, List[str]]:
    """`foreign`: local name -> definition of a function imported from another module of the package where it is new (a helper moved to a
    shared module); it is substituted at its call sites like a helper of this module"""
    base = baseline().get(rel)
    if base is None or os.environ.get("SA_NO_INLINE"):
        return tree, []
    done: List[str] = []
    for _round in range(3):
        funcs = _functions(tree)
        templates: Dict[str, _Template] = {}
        names_seen: Dict[str, int] = {}
        for local, fdef in (foreign or {}).items():
            if any(getattr(fn_, "name", None) == local for _, fn_, _, _ in funcs):
                continue  # shadowed by a local definition
            params_f = _simple_params(fdef)
            cl_f = _classify(fdef) if params_f is not None and not fdef.decorator_list else None
            if cl_f is None or any(isinstance(c, ast.Call) and isinstance(c.func, ast.Name) and c.func.id == fdef.name for c in ast.walk(fdef)):
                continue
            form_f, stmts_f, result_f = cl_f
            defaults_f: Dict[str, ast.expr] = {}
            for p_, d_ in zip(reversed(fdef.args.args), reversed(fdef.args.defaults)):
                defaults_f[p_.arg] = d_
            for p_, d_ in zip(fdef.args.kwonlyargs, fdef.args.kw_defaults):
                if d_ is not None:
                    defaults_f[p_.arg] = d_
            templates[local] = _Template(local, params_f, defaults_f, form_f, stmts_f, result_f, None, False, False)
        for q, fn, cls, outer in funcs:
            names_seen[fn.name] = names_seen.get(fn.name, 0) + 1
        for q, fn, cls, outer in funcs:
            if q in base:
                continue
            if fn.name.startswith("__"):
                continue  # dunder methods are protocol hooks, never "extracted helpers"
            if names_seen.get(fn.name, 0) != 1:
                continue  # ambiguous short name
            deco = [ast.unparse(d) for d in fn.decorator_list]
            if any(d not in ("staticmethod", "classmethod") for d in deco):
                continue
            params = _simple_params(fn)
            if params is None:
                continue
            # recursion
            if any(isinstance(c, ast.Call) and ((isinstance(c.func, ast.Name) and c.func.id == fn.name) or (isinstance(c.func, ast.Attribute) and c.func.attr == fn.name))
                   for c in ast.walk(fn)):
                continue
            cl = _classify(fn)
            if cl is None:
                continue
            form, stmts, result = cl
            a = fn.args
            defaults: Dict[str, ast.expr] = {}
            pos = a.args
            for p, d in zip(reversed(pos), reversed(a.defaults)):
                defaults[p.arg] = d
            for p, d in zip(a.kwonlyargs, a.kw_defaults):
                if d is not None:
                    defaults[p.arg] = d
            is_method = cls is not None and outer is None
            is_static = "staticmethod" in deco
            if is_method and "classmethod" in deco:
                pass  # cls is bound like self
            templates[fn.name] = _Template(fn.name, params, defaults, form, stmts, result, cls if is_method else None, is_method, is_static)
        if not templates:
            break
        inl = _Inliner(templates)
        tree = inl.visit(tree)
        ast.fix_missing_locations(tree)
        if not inl.count:
            break
        done += [f"{n} [{t.form}]" for n, t in templates.items()]
    if done:
        _renumber(tree)
    return tree, sorted(set(done))


def _renumber(tree) -> None:
    """Substituted statements all carry the line of their call site, which makes "A comes before B" tests by line number meaningless.  In every
    function that received substituted code the statements get strictly increasing synthetic line numbers in execution-text order; the source
    line is kept in `src_lineno` (reports show that one)."""
    for fn in ast.walk(tree):
        if not isinstance(fn, (ast.FunctionDef, ast.AsyncFunctionDef)):
            continue
        stmts = [n for n in ast.walk(fn) if isinstance(n, ast.stmt) and n is not fn]
        lines = [getattr(n, "lineno", 0) for n in stmts]
        # only where some block is not already strictly increasing
        def ordered(body):
            ls = [getattr(x, "lineno", 0) for x in body]
            return all(a < b for a, b in zip(ls, ls[1:]))
        blocks = [getattr(n, f) for n in ast.walk(fn) for f in ("body", "orelse", "finalbody")
                  if isinstance(getattr(n, f, None), list) and getattr(n, f) and isinstance(getattr(n, f)[0], ast.stmt)]
        if all(ordered(b) for b in blocks):
            continue
        counter = [getattr(fn, "lineno", 1)]

        def number(node, line):
            for x in ast.walk(node):
                if hasattr(x, "lineno") and not isinstance(x, ast.stmt):
                    if not hasattr(x, "src_lineno"):
                        x.src_lineno = x.lineno
                    x.lineno = line
                    x.end_lineno = line

        def visit_block(body):
            for st in body:
                counter[0] += 1
                line = counter[0]
                if not hasattr(st, "src_lineno"):
                    st.src_lineno = getattr(st, "lineno", line)
                st.lineno = line
                # header expressions of this statement
                for field, value in ast.iter_fields(st):
                    if field in ("body", "orelse", "finalbody", "handlers"):
                        continue
                    for v in (value if isinstance(value, list) else [value]):
                        if isinstance(v, ast.AST):
                            number(v, line)
                if isinstance(st, (ast.FunctionDef, ast.AsyncFunctionDef, ast.ClassDef)):
                    visit_block(st.body)
                else:
                    for f in ("body", "orelse", "finalbody"):
                        b = getattr(st, f, None)
                        if isinstance(b, list) and b and isinstance(b[0], ast.stmt):
                            visit_block(b)
                    for h in getattr(st, "handlers", None) or []:
                        counter[0] += 1
                        h.src_lineno = getattr(h, "lineno", counter[0])
                        h.lineno = counter[0]
                        visit_block(h.body)
                st.end_lineno = counter[0]
        visit_block(fn.body)
