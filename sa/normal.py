"""Load-time normal form of the analysed syntax trees (orientation only; nothing is evaluated).

Every module (and every pattern of `sa/pattern.py`) is brought into the same shape before a rule looks at it, so that
edits which only change the *orientation* of a construct cannot change a verdict:

  N1  test position:  `not not x` -> `x`;  `not (a == b)` -> `a != b`  (likewise != / in / not in / is / is not)
  N2  `if not c: A else: B` -> `if c: B else: A`  (both branches present, no elif chain);  `x if not c else y` -> `y if c else x`;
      likewise a two-branch `if a != b` / `a not in b` / `a is not b` is turned into its positive form with the branches swapped
  N3  single comparisons: a literal constant goes to the right (`0 == n` -> `n == 0`, `0 < n` -> `n > 0`);
      between two non-constant operands only `<` / `<=` are used (`a > b` -> `b < a`)
  N4  `n = n + 1` / `n = n - 1` (plain name, numeric literal) -> `n += 1` / `n -= 1`
  N5  statement-level logging / print / warnings.warn calls are dropped (trusted: they do not change state)
  N6  `x: T = v` -> `x = v`; a bare declaration `x: T` is dropped
  N7  a loop body ending in `if C: B` (no else) is written as the guard clause `if not C: continue` followed by B
  N20 `if a:` whose only statement is `if b: X` (no else on either) -> `if a and b: X`
  N21 `if c: ...; return|raise|continue|break` with an `else: E` -> the `if` without else, followed by E
  N8  `if c: x = A else: x = B` -> `x = A if c else B`;  `x = D` directly followed by `if c: x = V` -> `x = V if c else D` (D a simple value)

Later additions (each documented at its function; DESIGN.md sections 11-18):
  N9-N18  defaultdict grouping, unpack of literal pairs, accumulate loops <-> comprehensions, loops over generators, search loops <-> all()/any(),
          chain.from_iterable, unrolled literal tables, getattr with a literal name, constant folding, single-use temporaries
  N19 library references in one spelling (nx. / np. / pd., bare stdlib members)      N20 nested ifs merged      N21 else after a jump dropped
  N22 calls to resolved callees written positionally, default-valued keywords dropped  N23 .format / % read as f-strings
  N24 a local that merely names `self.a.b` is that attribute      N26 `**extra` of a never-written empty literal dropped      N27 dead code after a jump
  N28 private NamedTuple records are tuples (fields unpacked)      N29 private slotted records are dicts      N30 a private field that is only a literal
  N31 new named constants read as their literals (specialise.py)   N32 bool(X) in test position is X      N33 `*t` of a local tuple display written out
  N34 list(<display>) / tuple(<display>) is the display      N35 f(**{'k': v}) is f(k=v)
  (+ sa/specialise.py: opt-in options newer than the pinned tree are analysed at their default; sa/inline.py: helpers newer than the pinned tree substituted)

Line numbers are kept (reports still point at the source line); printed constructs show the normal form.
`==` / `!=` between two non-constant operands keep their source order: `sa/pattern.py` matches them commutatively."""
from __future__ import annotations

import ast
import copy
from typing import Dict

_MIRROR = {ast.Eq: ast.Eq, ast.NotEq: ast.NotEq, ast.Lt: ast.Gt, ast.Gt: ast.Lt, ast.LtE: ast.GtE, ast.GtE: ast.LtE}
_NEG = {ast.Eq: ast.NotEq, ast.NotEq: ast.Eq, ast.In: ast.NotIn, ast.NotIn: ast.In, ast.Is: ast.IsNot, ast.IsNot: ast.Is}


def _is_lit(e) -> bool:
    if isinstance(e, ast.Constant):
        return True
    return isinstance(e, ast.UnaryOp) and isinstance(e.op, (ast.USub, ast.UAdd)) and isinstance(e.operand, ast.Constant)


def _strip_not(t):
    """(expr, negated?) with leading `not`s removed and `not <compare>` folded into the comparison"""
    neg = False
    while isinstance(t, ast.UnaryOp) and isinstance(t.op, ast.Not):
        t = t.operand
        neg = not neg
    if neg and isinstance(t, ast.Compare) and len(t.ops) == 1 and type(t.ops[0]) in _NEG:
        t = ast.copy_location(ast.Compare(left=t.left, ops=[_NEG[type(t.ops[0])]()], comparators=t.comparators), t)
        neg = False
    return t, neg


def _test(t):
    """normal form of an expression in test position (value only matters for truthiness)"""
    t, neg = _strip_not(t)
    # N32: bool(X) in test position is X (only the truth value is read)
    while isinstance(t, ast.Call) and isinstance(t.func, ast.Name) and t.func.id == "bool" and len(t.args) == 1 and not t.keywords \
            and not isinstance(t.args[0], ast.Starred):
        t, neg2 = _strip_not(t.args[0])
        neg = neg != neg2
    if isinstance(t, ast.BoolOp):
        t.values = [_test(v) for v in t.values]
    if neg:
        t = ast.copy_location(ast.UnaryOp(op=ast.Not(), operand=t), t)
    return t


def _negative(t) -> bool:
    return isinstance(t, ast.Compare) and len(t.ops) == 1 and isinstance(t.ops[0], (ast.NotEq, ast.NotIn, ast.IsNot))


def _positive(t):
    return ast.copy_location(ast.Compare(left=t.left, ops=[_NEG[type(t.ops[0])]()], comparators=t.comparators), t)


_LOG_RECEIVERS = ("logger", "log", "logging", "_logger", "_log", "LOGGER", "LOG", "self.logger", "self._logger", "self.log", "warnings")
_LOG_METHODS = {"debug", "info", "warning", "warn", "error", "exception", "critical", "log"}


def _is_log_call(e) -> bool:
    if not isinstance(e, ast.Call):
        return False
    f = e.func
    if isinstance(f, ast.Name) and f.id == "print":
        return True
    if isinstance(f, ast.Attribute) and f.attr in _LOG_METHODS:
        try:
            recv = ast.unparse(f.value)
        except Exception:
            return False
        return recv in _LOG_RECEIVERS or recv.startswith("logging.") or recv.startswith("__import__('logging')") or recv.endswith("getLogger(__name__)")
    return False


def _guard_form(body):
    """N7: a loop body that ENDS with `if C: B` (no else) is written with a guard clause: `if not C: continue` followed by B
    (applied repeatedly, so nested trailing ifs become a sequence of guard clauses)"""
    out = list(body)
    while out and isinstance(out[-1], ast.If) and not out[-1].orelse and out[-1].body \
            and not (len(out[-1].body) == 1 and isinstance(out[-1].body[0], (ast.Continue, ast.Break, ast.Return, ast.Raise, ast.Pass))):
        last = out.pop()
        neg, was_neg = _strip_not(ast.copy_location(ast.UnaryOp(op=ast.Not(), operand=last.test), last.test))
        test = neg if not was_neg else ast.copy_location(ast.UnaryOp(op=ast.Not(), operand=neg), last.test)
        guard = ast.copy_location(ast.If(test=test, body=[ast.copy_location(ast.Continue(), last)], orelse=[]), last)
        out.append(guard)
        out.extend(last.body)
    return out


def _canon_ifexp(n: ast.IfExp) -> ast.IfExp:
    n.test = _test(n.test)
    if isinstance(n.test, ast.UnaryOp) and isinstance(n.test.op, ast.Not):
        n.test, n.body, n.orelse = n.test.operand, n.orelse, n.body
    elif _negative(n.test):
        n.test, n.body, n.orelse = _positive(n.test), n.orelse, n.body
    return n


def _simple_value(e) -> bool:
    return isinstance(e, (ast.Constant, ast.Name)) or (isinstance(e, ast.Attribute) and _simple_value(e.value)) \
        or (isinstance(e, (ast.List, ast.Tuple, ast.Dict, ast.Set)) and not any(True for _ in ast.iter_child_nodes(e) if not isinstance(_, ast.expr_context)))


def _one_assign(body):
    """the single `name = value` statement of a branch, else None"""
    if len(body) == 1 and isinstance(body[0], ast.Assign) and len(body[0].targets) == 1 and isinstance(body[0].targets[0], ast.Name):
        return body[0]
    return None


def _merge_conditional_assignments(body):
    """N8: `if c: x = A` / `else: x = B`  ->  `x = A if c else B`;   `x = D` directly followed by `if c: x = V`  ->  `x = V if c else D`"""
    out = []
    for st in body:
        if isinstance(st, ast.If):
            a = _one_assign(st.body)
            b = _one_assign(st.orelse) if st.orelse else None
            if a is not None and b is not None and a.targets[0].id == b.targets[0].id:
                out.append(ast.copy_location(ast.Assign(targets=[ast.Name(id=a.targets[0].id, ctx=ast.Store())],
                                                        value=_canon_ifexp(ast.copy_location(ast.IfExp(test=st.test, body=a.value, orelse=b.value), st))), st))
                continue
            if a is not None and not st.orelse and out:
                prev = out[-1]
                if isinstance(prev, ast.Assign) and len(prev.targets) == 1 and isinstance(prev.targets[0], ast.Name) and prev.targets[0].id == a.targets[0].id \
                        and _simple_value(prev.value):
                    x = a.targets[0].id
                    test = st.test
                    if x in {n.id for n in ast.walk(test) if isinstance(n, ast.Name)}:
                        # the test reads the value just assigned: `x = D; if x is None: x = V`  ->  `x = V if D is None else D`
                        import copy as _copy

                        class _S(ast.NodeTransformer):
                            def visit_Name(self, n_):
                                return _copy.deepcopy(prev.value) if n_.id == x and isinstance(n_.ctx, ast.Load) else n_
                        test = _S().visit(_copy.deepcopy(test))
                    new_val = a.value
                    if x in {n.id for n in ast.walk(new_val) if isinstance(n, ast.Name)}:
                        # the new value reads the value just assigned as well: `x = D; if c(x): x = f(x)`  ->  `x = f(D) if c(D) else D`
                        import copy as _copy2

                        class _S2(ast.NodeTransformer):
                            def visit_Name(self, n_):
                                return _copy2.deepcopy(prev.value) if n_.id == x and isinstance(n_.ctx, ast.Load) else n_
                        new_val = _S2().visit(_copy2.deepcopy(new_val))
                    out[-1] = ast.copy_location(ast.Assign(targets=[ast.Name(id=x, ctx=ast.Store())],
                                                           value=_canon_ifexp(ast.copy_location(ast.IfExp(test=test, body=new_val, orelse=prev.value), st))), prev)
                    continue
        out.append(st)
    return out


def _and_values(t):
    return list(t.values) if isinstance(t, ast.BoolOp) and isinstance(t.op, ast.And) else [t]


def _merge_nested_ifs(body):
    """N20: `if a:` whose only statement is `if b: X` (no else on either)  ->  `if a and b: X`   (same evaluation order, same short circuit)"""
    out = []
    for st in body:
        if isinstance(st, ast.If) and not st.orelse and len(st.body) == 1 and isinstance(st.body[0], ast.If) and not st.body[0].orelse:
            inner = st.body[0]
            vals = _and_values(st.test) + _and_values(inner.test)
            if not any(isinstance(n, ast.NamedExpr) for v in vals for n in ast.walk(v)):
                st = ast.copy_location(ast.If(test=ast.copy_location(ast.BoolOp(op=ast.And(), values=vals), st.test), body=inner.body, orelse=[]), st)
        out.append(st)
    return out


_JUMPS = (ast.Return, ast.Raise, ast.Continue, ast.Break)


def _unelse(body):
    """N21: `if c: ...; <return|raise|continue|break>` / `else: E`  ->  the `if` without else, followed by E   (E is only reached when c is false)"""
    out = []
    for st in body:
        if isinstance(st, ast.If) and st.orelse and st.body and isinstance(st.body[-1], _JUMPS):
            rest = st.orelse
            st.orelse = []
            out.append(st)
            out.extend(_unelse(rest))
        else:
            out.append(st)
    return out


def _side_effect_free(e) -> bool:
    return not any(isinstance(x, (ast.Call, ast.Await, ast.Yield, ast.YieldFrom, ast.NamedExpr)) for x in ast.walk(e))


def _drop_pass(lst):
    out = []
    for s_ in lst:
        if isinstance(s_, ast.Pass):
            continue
        out.append(s_)
        if isinstance(s_, (ast.Return, ast.Raise, ast.Continue, ast.Break)):
            break   # N27: nothing after an unconditional jump is reached
    return out if out else lst[:1]


class Normalise(ast.NodeTransformer):
    def visit_BinOp(self, n):
        self.generic_visit(n)
        # N17: arithmetic on two integer literals (left behind by a folded option): `1 - 1` -> `0`
        if isinstance(n.op, (ast.Add, ast.Sub, ast.Mult)) and isinstance(n.left, ast.Constant) and isinstance(n.right, ast.Constant) \
                and type(n.left.value) is int and type(n.right.value) is int:
            v = {ast.Add: n.left.value + n.right.value, ast.Sub: n.left.value - n.right.value, ast.Mult: n.left.value * n.right.value}[type(n.op)]
            return ast.copy_location(ast.Constant(value=v) if v >= 0 else ast.UnaryOp(op=ast.USub(), operand=ast.Constant(value=-v)), n)
        return n

    def visit_UnaryOp(self, n):
        self.generic_visit(n)
        if isinstance(n.op, ast.Not) and isinstance(n.operand, ast.Constant) and isinstance(n.operand.value, bool):
            return ast.copy_location(ast.Constant(value=not n.operand.value), n)   # N17
        return n

    def visit_BoolOp(self, n):
        self.generic_visit(n)
        # N17: literal operands of and / or (left behind by a folded option): `True and x` -> x, `False and x` -> False, `False or x` -> x, `True or x` -> True
        is_and = isinstance(n.op, ast.And)
        vals = []
        for v in n.values:
            if isinstance(v, ast.Constant) and isinstance(v.value, bool):
                if v.value == is_and:
                    continue          # neutral element
                vals.append(v)        # absorbing element: nothing after it is evaluated
                break
            vals.append(v)
        if not vals:
            return ast.copy_location(ast.Constant(value=is_and), n)
        if len(vals) == 1:
            return vals[0]
        if isinstance(vals[-1], ast.Constant) and isinstance(vals[-1].value, bool) and vals[-1].value != is_and and all(_side_effect_free(v) for v in vals[:-1]):
            return vals[-1]
        n.values = vals
        return n

    def generic_visit(self, node):
        node = super().generic_visit(node)
        for f in ("body", "orelse", "finalbody"):
            lst = getattr(node, f, None)
            if isinstance(lst, list) and lst and isinstance(lst[0], ast.stmt):
                setattr(node, f, _merge_conditional_assignments(_unelse(_merge_nested_ifs(_drop_pass(lst)))))
        for f in ("body", "orelse", "finalbody"):
            lst = getattr(node, f, None)
            if isinstance(lst, list) and f == "body" and not lst and isinstance(node, (ast.FunctionDef, ast.AsyncFunctionDef, ast.For, ast.AsyncFor, ast.While, ast.If,
                                                                                        ast.With, ast.AsyncWith, ast.Try, ast.ExceptHandler, ast.ClassDef)):
                lst.append(ast.copy_location(ast.Pass(), node))
        return node

    def visit_Expr(self, n):
        # N5: logging / print statements are not part of the analysed behaviour
        if _is_log_call(n.value):
            return None
        return self.generic_visit(n)

    def visit_AnnAssign(self, n):
        # N6: `x: T = v` -> `x = v`; a bare declaration `x: T` disappears
        self.generic_visit(n)
        if n.value is None:
            return None
        return self.visit_Assign(ast.copy_location(ast.Assign(targets=[n.target], value=n.value), n))

    def visit_If(self, n):
        self.generic_visit(n)
        n.test = _test(n.test)
        if isinstance(n.test, ast.Constant) and isinstance(n.test.value, bool):
            keep = n.body if n.test.value else n.orelse   # N17: the branch a literal test selects
            return keep if keep else ast.copy_location(ast.Pass(), n)
        two = n.orelse and not (len(n.orelse) == 1 and isinstance(n.orelse[0], ast.If))
        jb, jo = bool(n.body) and isinstance(n.body[-1], _JUMPS), bool(n.orelse) and isinstance(n.orelse[-1], _JUMPS)
        size = lambda b: sum(1 for x in b for y in ast.walk(x) if isinstance(y, ast.stmt))  # noqa: E731
        if n.orelse and (jb != jo or (jb and jo and size(n.body) != size(n.orelse))):
            # N21 will drop the else: the branch that leaves (the shorter one when both leave) is the `if` body, whatever the polarity of the test
            if jo and (not jb or size(n.orelse) < size(n.body)):
                neg, was_neg = _strip_not(ast.copy_location(ast.UnaryOp(op=ast.Not(), operand=n.test), n.test))
                n.test = neg if not was_neg else ast.copy_location(ast.UnaryOp(op=ast.Not(), operand=neg), n.test)
                n.body, n.orelse = n.orelse, n.body
            return n
        if two and isinstance(n.test, ast.UnaryOp) and isinstance(n.test.op, ast.Not):
            n.test, n.body, n.orelse = n.test.operand, n.orelse, n.body
        elif two and _negative(n.test):
            n.test, n.body, n.orelse = _positive(n.test), n.orelse, n.body
        return n

    def visit_While(self, n):
        self.generic_visit(n)
        n.test = _test(n.test)
        n.body = _guard_form(n.body)
        return n

    def visit_For(self, n):
        self.generic_visit(n)
        n.body = _guard_form(n.body)
        return n
    visit_AsyncFor = visit_For

    def visit_IfExp(self, n):
        self.generic_visit(n)
        if isinstance(n.test, ast.Constant) and isinstance(n.test.value, bool):
            return n.body if n.test.value else n.orelse   # N17
        return _canon_ifexp(n)

    def visit_comprehension(self, n):
        self.generic_visit(n)
        n.ifs = [_test(t) for t in n.ifs]
        return n

    def visit_Call(self, n):
        # N14: list(chain.from_iterable(X)) / list(chain(*X))  ->  [x for sub in X for x in sub]   (one spelling of "flatten one level")
        self.generic_visit(n)
        # N35: f(**{'k': v}) with literal identifier keys is f(k=v)
        if any(k.arg is None and isinstance(k.value, ast.Dict) for k in n.keywords):
            kws = []
            for k in n.keywords:
                if k.arg is None and isinstance(k.value, ast.Dict) and k.value.keys and all(
                        isinstance(x, ast.Constant) and isinstance(x.value, str) and x.value.isidentifier() for x in k.value.keys):
                    kws.extend(ast.copy_location(ast.keyword(arg=x.value, value=v_), k) for x, v_ in zip(k.value.keys, k.value.values))
                else:
                    kws.append(k)
            names_ = [k.arg for k in kws if k.arg is not None]
            if len(names_) == len(set(names_)):
                n.keywords = kws
        # N34: list(<display>) / tuple(<display>) is the list / tuple display of the same elements
        if isinstance(n.func, ast.Name) and n.func.id in ("list", "tuple") and len(n.args) == 1 and not n.keywords and isinstance(n.args[0], (ast.Tuple, ast.List)) \
                and not any(isinstance(e, ast.Starred) for e in n.args[0].elts):
            cls_ = ast.List if n.func.id == "list" else ast.Tuple
            return ast.copy_location(cls_(elts=n.args[0].elts, ctx=ast.Load()), n)
        if isinstance(n.func, ast.Name) and n.func.id == "list" and len(n.args) == 1 and not n.keywords and isinstance(n.args[0], ast.Call) and not n.args[0].keywords:
            inner = n.args[0]
            fn_ = ast.unparse(inner.func)
            src = None
            if fn_ in ("chain.from_iterable", "itertools.chain.from_iterable") and len(inner.args) == 1 and not isinstance(inner.args[0], ast.Starred):
                src = inner.args[0]
            elif fn_ in ("chain", "itertools.chain") and len(inner.args) == 1 and isinstance(inner.args[0], ast.Starred):
                src = inner.args[0].value
            if src is not None and not isinstance(src, (ast.GeneratorExp,)):
                comp = ast.ListComp(elt=ast.Name(id="_flat_x", ctx=ast.Load()), generators=[
                    ast.comprehension(target=ast.Name(id="_flat_sub", ctx=ast.Store()), iter=src, ifs=[], is_async=0),
                    ast.comprehension(target=ast.Name(id="_flat_x", ctx=ast.Store()), iter=ast.Name(id="_flat_sub", ctx=ast.Load()), ifs=[], is_async=0)])
                return ast.fix_missing_locations(ast.copy_location(comp, n))
        return n

    def visit_Compare(self, n):
        self.generic_visit(n)
        # N17: a comparison of two literals (left behind when a helper's parameter was replaced by a constant argument) is its value
        if len(n.ops) == 1 and isinstance(n.left, ast.Constant) and isinstance(n.comparators[0], ast.Constant) and isinstance(n.ops[0], (ast.Eq, ast.NotEq)) \
                and type(n.left.value) is type(n.comparators[0].value) and isinstance(n.left.value, (str, int, bool)):
            eq = n.left.value == n.comparators[0].value
            return ast.copy_location(ast.Constant(value=eq if isinstance(n.ops[0], ast.Eq) else not eq), n)
        if len(n.ops) == 1 and isinstance(n.ops[0], (ast.Is, ast.IsNot)) and isinstance(n.left, ast.Constant) and isinstance(n.comparators[0], ast.Constant) \
                and all(v is None or isinstance(v, bool) for v in (n.left.value, n.comparators[0].value)):
            same = n.left.value is n.comparators[0].value
            return ast.copy_location(ast.Constant(value=same if isinstance(n.ops[0], ast.Is) else not same), n)
        if len(n.ops) == 1 and type(n.ops[0]) in _MIRROR:
            l, r = n.left, n.comparators[0]
            swap = (_is_lit(l) and not _is_lit(r)) or (not _is_lit(l) and not _is_lit(r) and isinstance(n.ops[0], (ast.Gt, ast.GtE)))
            if swap:
                return ast.copy_location(ast.Compare(left=r, ops=[_MIRROR[type(n.ops[0])]()], comparators=[l]), n)
        return n

    def visit_Assign(self, n):
        self.generic_visit(n)
        if len(n.targets) == 1 and isinstance(n.targets[0], ast.Name) and isinstance(n.value, ast.BinOp) and isinstance(n.value.op, (ast.Add, ast.Sub)) \
                and isinstance(n.value.left, ast.Name) and n.value.left.id == n.targets[0].id and isinstance(n.value.right, ast.Constant) \
                and isinstance(n.value.right.value, (int, float)) and not isinstance(n.value.right.value, bool):
            return ast.copy_location(ast.AugAssign(target=ast.Name(id=n.targets[0].id, ctx=ast.Store()), op=n.value.op, value=n.value.right), n)
        return n


_DD_EMPTY = {"list": ("append", "extend", lambda: ast.List(elts=[], ctx=ast.Load())),
             "set": ("add", "update", lambda: ast.Call(func=ast.Name(id="set", ctx=ast.Load()), args=[], keywords=[]))}


def _defaultdict_groups(tree):
    """N9: in a function whose local `b` is only ever bound by `b = defaultdict(list)` (or set), the grouping statement
    `b[k].append(v)` is the same operation as `b.setdefault(k, []).append(v)` on a plain dict; use the latter spelling."""
    for fn in ast.walk(tree):
        if not isinstance(fn, (ast.FunctionDef, ast.AsyncFunctionDef)):
            continue
        kinds, other = {}, set()
        for n in ast.walk(fn):
            tg = None
            if isinstance(n, ast.Assign) and len(n.targets) == 1:
                tg, v = n.targets[0], n.value
            elif isinstance(n, ast.AnnAssign) and n.value is not None:
                tg, v = n.target, n.value
            if isinstance(tg, ast.Name):
                kind = None
                if isinstance(v, ast.Call) and not v.keywords and len(v.args) == 1 and isinstance(v.args[0], ast.Name) and v.args[0].id in _DD_EMPTY \
                        and ((isinstance(v.func, ast.Name) and v.func.id == "defaultdict")
                             or (isinstance(v.func, ast.Attribute) and v.func.attr == "defaultdict")):
                    kind = v.args[0].id
                if kind and kinds.get(tg.id, kind) == kind:
                    kinds[tg.id] = kind
                else:
                    other.add(tg.id)
            elif isinstance(n, (ast.For, ast.comprehension, ast.NamedExpr, ast.AugAssign, ast.withitem)):
                t = n.target if not isinstance(n, ast.withitem) else n.optional_vars
                for x in ast.walk(t) if t is not None else ():
                    if isinstance(x, ast.Name):
                        other.add(x.id)
            elif isinstance(n, ast.arg):
                other.add(n.arg)
        names = {k: v for k, v in kinds.items() if k not in other}
        if not names:
            continue
        for n in ast.walk(fn):
            if isinstance(n, ast.Call) and isinstance(n.func, ast.Attribute) and isinstance(n.func.value, ast.Subscript) \
                    and isinstance(n.func.value.value, ast.Name) and n.func.value.value.id in names \
                    and n.func.attr in _DD_EMPTY[names[n.func.value.value.id]][:2]:
                sub = n.func.value
                n.func.value = ast.copy_location(ast.Call(
                    func=ast.copy_location(ast.Attribute(value=sub.value, attr="setdefault", ctx=ast.Load()), sub),
                    args=[sub.slice, ast.copy_location(_DD_EMPTY[names[sub.value.id]][2](), sub)], keywords=[]), sub)
    return tree


class _SubstName(ast.NodeTransformer):
    def __init__(self, name, repl):
        self.name, self.repl = name, repl

    def visit_Name(self, n):
        if n.id == self.name and isinstance(n.ctx, ast.Load):
            return ast.copy_location(copy.deepcopy(self.repl), n)
        return n


def _unpack_of_literal_map(tree):
    """N10: `a, b = (f(s) for s in (x, y))` (generator or list comprehension over a literal of the same length, no filter)
    is the parallel assignment `a, b = f(x), f(y)`; with plain-name targets that are not read on the right it is `a = f(x)`; `b = f(y)`."""
    for holder in ast.walk(tree):
        for f in ("body", "orelse", "finalbody"):
            lst = getattr(holder, f, None)
            if not (isinstance(lst, list) and lst and isinstance(lst[0], ast.stmt)):
                continue
            out = []
            for st in lst:
                if isinstance(st, ast.Assign) and len(st.targets) == 1 and isinstance(st.targets[0], (ast.Tuple, ast.List)) \
                        and isinstance(st.value, (ast.GeneratorExp, ast.ListComp)) and len(st.value.generators) == 1:
                    g = st.value.generators[0]
                    if not g.ifs and not g.is_async and isinstance(g.target, ast.Name) and isinstance(g.iter, (ast.Tuple, ast.List)) \
                            and len(g.iter.elts) == len(st.targets[0].elts) and not any(isinstance(e, ast.Starred) for e in g.iter.elts + st.targets[0].elts):
                        st.value = ast.copy_location(ast.Tuple(elts=[_SubstName(g.target.id, e).visit(copy.deepcopy(st.value.elt)) for e in g.iter.elts],
                                                               ctx=ast.Load()), st.value)
                if isinstance(st, ast.Assign) and len(st.targets) == 1 and isinstance(st.targets[0], ast.Tuple) and isinstance(st.value, ast.Tuple) \
                        and len(st.targets[0].elts) == len(st.value.elts) and all(isinstance(e, ast.Name) for e in st.targets[0].elts):
                    tnames = {e.id for e in st.targets[0].elts}
                    if len(tnames) == len(st.targets[0].elts) and not any(isinstance(x, ast.Name) and x.id in tnames for e in st.value.elts for x in ast.walk(e)):
                        for tg, v in zip(st.targets[0].elts, st.value.elts):
                            out.append(ast.copy_location(ast.Assign(targets=[tg], value=v), st))
                        continue
                out.append(st)
            setattr(holder, f, out)
    return tree


def _accumulate_loops(tree):
    """N11: `x = []` directly followed by `for T in IT: x.append(E)` (optionally under one `if C:` / after guard clauses `if not C: continue`)
    is the list comprehension `x = [E for T in IT if C]`.  Only when the loop has no else, E / C do not read x, and nothing else is in the body."""
    for holder in ast.walk(tree):
        for f in ("body", "orelse", "finalbody"):
            lst = getattr(holder, f, None)
            if not (isinstance(lst, list) and lst and isinstance(lst[0], ast.stmt)):
                continue
            out = []
            for st in lst:
                prev = out[-1] if out else None
                done = False
                if isinstance(st, ast.For) and not st.orelse and isinstance(prev, ast.Assign) and len(prev.targets) == 1 and isinstance(prev.targets[0], ast.Name) \
                        and isinstance(prev.value, ast.List) and not prev.value.elts:
                    x = prev.targets[0].id
                    body, conds = list(st.body), []
                    # leading `y = e` with fresh plain names are substituted into what follows (as in N13)
                    lead = []
                    while len(body) > 1 and isinstance(body[0], ast.Assign) and len(body[0].targets) == 1 and isinstance(body[0].targets[0], ast.Name) \
                            and body[0].targets[0].id != x and body[0].targets[0].id not in {n.id for n in ast.walk(st.target) if isinstance(n, ast.Name)} \
                            and body[0].targets[0].id not in [a.targets[0].id for a in lead] \
                            and not any(isinstance(n, (ast.Yield, ast.YieldFrom, ast.Await, ast.NamedExpr)) for n in ast.walk(body[0])):
                        lead.append(body[0])
                        body = body[1:]
                    # a call is never duplicated: a lead value that contains one is substituted only when the name is read once afterwards
                    for k_, a in enumerate(lead):
                        if any(isinstance(n, ast.Call) for n in ast.walk(a.value)):
                            reads_ = sum(1 for part in [l_.value for l_ in lead[k_ + 1:]] + body for n in ast.walk(part)
                                         if isinstance(n, ast.Name) and n.id == a.targets[0].id and isinstance(n.ctx, ast.Load))
                            if reads_ > 1:
                                lead, body = [], [ast.Pass(), ast.Pass(), ast.Pass()]  # leave the loop alone
                                break
                    if lead:
                        body = copy.deepcopy(body)
                        for _ in range(len(lead)):
                            for a in reversed(lead):
                                body = [_SubstName(a.targets[0].id, a.value).visit(b_) for b_ in body]
                        # the substituted names must not be needed after the loop
                        after = lst[lst.index(st) + 1:]
                        if any(isinstance(n, ast.Name) and n.id in {a.targets[0].id for a in lead} for s_ in after for n in ast.walk(s_)) \
                                or any(isinstance(n, ast.Name) and isinstance(n.ctx, ast.Store) and n.id in {a.targets[0].id for a in lead} for b_ in body for n in ast.walk(b_)):
                            body = [ast.Pass(), ast.Pass(), ast.Pass()]  # leave the loop alone
                    while True:
                        if len(body) == 1 and isinstance(body[0], ast.If) and not body[0].orelse:
                            conds.append(body[0].test)
                            body = list(body[0].body)
                            continue
                        if len(body) >= 2 and isinstance(body[0], ast.If) and not body[0].orelse and len(body[0].body) == 1 and isinstance(body[0].body[0], ast.Continue):
                            conds.append(ast.copy_location(ast.UnaryOp(op=ast.Not(), operand=body[0].test), body[0].test))
                            body = body[1:]
                            continue
                        break
                    if len(body) == 1 and isinstance(body[0], ast.Expr) and isinstance(body[0].value, ast.Call) and isinstance(body[0].value.func, ast.Attribute) \
                            and body[0].value.func.attr == "append" and isinstance(body[0].value.func.value, ast.Name) and body[0].value.func.value.id == x \
                            and len(body[0].value.args) == 1 and not body[0].value.keywords:
                        e = body[0].value.args[0]
                        reads_x = any(isinstance(n, ast.Name) and n.id == x for part in [e, st.iter] + conds for n in ast.walk(part))
                        bad = any(isinstance(n, (ast.Yield, ast.YieldFrom, ast.Await, ast.NamedExpr)) for part in [e] + conds for n in ast.walk(part))
                        if not reads_x and not bad:
                            comp = ast.ListComp(elt=e, generators=[ast.comprehension(target=st.target, iter=st.iter, ifs=[_test(c) for c in conds], is_async=0)])
                            out[-1] = ast.copy_location(ast.Assign(targets=prev.targets, value=ast.copy_location(comp, st)), prev)
                            done = True
                if not done:
                    out.append(st)
            setattr(holder, f, out)
    return tree


def _stored_names(stmts):
    """names (re)bound by the statements in the enclosing function's scope; comprehension variables live in their own scope"""
    out = set()

    def walk(n):
        if isinstance(n, (ast.ListComp, ast.SetComp, ast.DictComp, ast.GeneratorExp, ast.Lambda)):
            # only the outermost iterable is evaluated in the enclosing scope, and it cannot bind (walrus aside)
            for x in ast.walk(n):
                if isinstance(x, ast.NamedExpr) and isinstance(x.target, ast.Name):
                    out.add(x.target.id)
            return
        if isinstance(n, ast.Name) and isinstance(n.ctx, (ast.Store, ast.Del)):
            out.add(n.id)
        for c in ast.iter_child_nodes(n):
            walk(c)
    for s in stmts:
        walk(s)
    return out


def _loops_over_generators(tree):
    """N12: `for T in (ELT for GT in IT if C): BODY` is `for GT in IT:` + guard `if not C: continue` + `T = ELT` + BODY (a generator expression is
    consumed lazily, so the interleaving is the same).  When T and ELT are plain names / equally long tuples of plain names that BODY does
    not re-bind, BODY simply reads the ELT names."""
    # a generator expression bound to a local that is consumed by exactly one `for` of the same block is written at that `for`
    for fn in ast.walk(tree):
        if not isinstance(fn, (ast.FunctionDef, ast.AsyncFunctionDef)):
            continue
        uses = {}
        for n in ast.walk(fn):
            if isinstance(n, ast.Name):
                uses.setdefault(n.id, []).append(n)
        for holder in ast.walk(fn):
            for f in ("body", "orelse", "finalbody"):
                lst = getattr(holder, f, None)
                if not (isinstance(lst, list) and lst and isinstance(lst[0], ast.stmt)):
                    continue
                drop = []
                for i, st in enumerate(lst):
                    if not (isinstance(st, ast.Assign) and len(st.targets) == 1 and isinstance(st.targets[0], ast.Name) and isinstance(st.value, ast.GeneratorExp)):
                        continue
                    x = st.targets[0].id
                    if len(uses.get(x, [])) != 2:
                        continue
                    reads = {n.id for n in ast.walk(st.value) if isinstance(n, ast.Name)}
                    for later in lst[i + 1:]:
                        if isinstance(later, ast.For) and isinstance(later.iter, ast.Name) and later.iter.id == x:
                            later.iter = st.value
                            drop.append(st)
                            break
                        # statements in between must not re-bind what the generator reads (mutation of the objects themselves is not tracked)
                        if isinstance(later, (ast.FunctionDef, ast.AsyncFunctionDef, ast.ClassDef, ast.Return, ast.Raise)) or (_stored_names([later]) & reads) \
                                or any(isinstance(n, ast.Name) and n.id == x for n in ast.walk(later)):
                            break
                if drop:
                    setattr(holder, f, [s_ for s_ in lst if s_ not in drop])
    for node in ast.walk(tree):
        if not (isinstance(node, ast.For) and isinstance(node.iter, ast.GeneratorExp) and len(node.iter.generators) == 1 and not node.iter.generators[0].is_async):
            continue
        g, elt, T = node.iter.generators[0], node.iter.elt, node.target
        if any(isinstance(n, (ast.Yield, ast.YieldFrom, ast.Await, ast.NamedExpr)) for n in ast.walk(node.iter)):
            continue
        guards = [ast.copy_location(ast.If(test=_test(ast.copy_location(ast.UnaryOp(op=ast.Not(), operand=c), c)), body=[ast.copy_location(ast.Continue(), c)], orelse=[]), c)
                  for c in g.ifs]
        ts = T.elts if isinstance(T, ast.Tuple) else [T]
        es = elt.elts if isinstance(T, ast.Tuple) and isinstance(elt, ast.Tuple) else [elt]
        stored = _stored_names(node.body)
        gen_names = {n.id for n in ast.walk(g.target) if isinstance(n, ast.Name)}
        if len(ts) == len(es) and all(isinstance(x, ast.Name) for x in ts + es) and len({x.id for x in ts}) == len(ts) \
                and not ({x.id for x in ts} | {x.id for x in es}) & stored and not ({x.id for x in ts} & gen_names):
            body = node.body
            for t_, e_ in zip(ts, es):
                body = [_SubstName(t_.id, e_).visit(s_) for s_ in body]
            node.body = guards + body
        else:
            node.body = guards + [ast.copy_location(ast.Assign(targets=[T], value=elt), node)] + node.body
        node.target, node.iter = g.target, g.iter
    return tree


def _search_loops(tree):
    """N13: `for T in IT: [x = e]* if C: return False` directly followed by `return True` is `return all(not C for T in IT)` (and the dual
    with any); the locals x are substituted into C.  Only when the loop has no else and nothing else in its body."""
    owners = {}
    for fn in ast.walk(tree):
        if isinstance(fn, (ast.FunctionDef, ast.AsyncFunctionDef)):
            for n in ast.walk(fn):
                owners.setdefault(id(n), fn.name) if n is not fn else None
    for holder in ast.walk(tree):
        for f in ("body", "orelse", "finalbody"):
            lst = getattr(holder, f, None)
            if not (isinstance(lst, list) and lst and isinstance(lst[0], ast.stmt)):
                continue
            me = holder.name if isinstance(holder, (ast.FunctionDef, ast.AsyncFunctionDef)) else owners.get(id(holder))
            out = []
            i = 0
            while i < len(lst):
                st = lst[i]
                nxt = lst[i + 1] if i + 1 < len(lst) else None
                done = False
                if isinstance(st, ast.For) and not st.orelse and isinstance(nxt, ast.Return) and isinstance(nxt.value, ast.Constant) and isinstance(nxt.value.value, bool) \
                        and st.body and isinstance(st.body[-1], ast.If) and not st.body[-1].orelse and len(st.body[-1].body) == 1 \
                        and isinstance(st.body[-1].body[0], ast.Return) and isinstance(st.body[-1].body[0].value, ast.Constant) \
                        and st.body[-1].body[0].value.value is (not nxt.value.value) \
                        and all(isinstance(a, ast.Assign) and len(a.targets) == 1 and isinstance(a.targets[0], ast.Name) for a in st.body[:-1]):
                    test = copy.deepcopy(st.body[-1].test)
                    names = [a.targets[0].id for a in st.body[:-1]]
                    tnames = {n.id for n in ast.walk(st.target) if isinstance(n, ast.Name)}
                    recursive = any(isinstance(c, ast.Call) and ((isinstance(c.func, ast.Name) and c.func.id == me) or (isinstance(c.func, ast.Attribute) and c.func.attr == me))
                                    for c in ast.walk(st))  # a recursive search is control structure, not a predicate over the items
                    ok = len(set(names)) == len(names) and not (set(names) & tnames) and not recursive \
                        and not any(isinstance(n, (ast.Yield, ast.YieldFrom, ast.Await, ast.NamedExpr)) for n in ast.walk(st))
                    if ok:
                        for a in reversed(st.body[:-1]):
                            test = _SubstName(a.targets[0].id, a.value).visit(test)
                        # earlier locals may occur in later ones' values: substitute until none is left
                        for _ in range(len(names)):
                            for a in reversed(st.body[:-1]):
                                test = _SubstName(a.targets[0].id, a.value).visit(test)
                        if nxt.value.value:  # ... return False inside, True after: all(not C)
                            elt, fn_ = _test(ast.UnaryOp(op=ast.Not(), operand=test)), "all"
                        else:
                            elt, fn_ = _test(test), "any"
                        gen = ast.GeneratorExp(elt=elt, generators=[ast.comprehension(target=st.target, iter=st.iter, ifs=[], is_async=0)])
                        call = ast.Call(func=ast.Name(id=fn_, ctx=ast.Load()), args=[gen], keywords=[])
                        out.append(ast.copy_location(ast.Return(value=ast.copy_location(call, st)), st))
                        ast.fix_missing_locations(out[-1])
                        i += 2
                        done = True
                if not done:
                    out.append(st)
                    i += 1
            setattr(holder, f, out)
    return tree


def _param_defaults(tree):
    """N8c: `if c: p = V` for a parameter p of the enclosing function (always bound) is `p = V if c else p`"""
    for fn in ast.walk(tree):
        if not isinstance(fn, (ast.FunctionDef, ast.AsyncFunctionDef)):
            continue
        a = fn.args
        params = {x.arg for x in a.posonlyargs + a.args + a.kwonlyargs}
        for holder in ast.walk(fn):
            if holder is not fn and isinstance(holder, (ast.FunctionDef, ast.AsyncFunctionDef, ast.Lambda)):
                continue
            for f in ("body", "orelse", "finalbody"):
                lst = getattr(holder, f, None)
                if not (isinstance(lst, list) and lst and isinstance(lst[0], ast.stmt)):
                    continue
                for i, st in enumerate(lst):
                    if isinstance(st, ast.If) and not st.orelse and len(st.body) == 1 and isinstance(st.body[0], ast.Assign) and len(st.body[0].targets) == 1 \
                            and isinstance(st.body[0].targets[0], ast.Name) and st.body[0].targets[0].id in params:
                        p_ = st.body[0].targets[0].id
                        lst[i] = ast.copy_location(ast.Assign(
                            targets=[ast.Name(id=p_, ctx=ast.Store())],
                            value=_canon_ifexp(ast.copy_location(ast.IfExp(test=st.test, body=st.body[0].value, orelse=ast.Name(id=p_, ctx=ast.Load())), st))), st)
                        ast.fix_missing_locations(lst[i])
    return tree


class _ConstGetattr(ast.NodeTransformer):
    """N16: getattr(x, 'name') with a literal name and no default is x.name"""
    def visit_Call(self, n):
        self.generic_visit(n)
        if isinstance(n.func, ast.Name) and n.func.id == "getattr" and len(n.args) == 2 and not n.keywords and isinstance(n.args[1], ast.Constant) \
                and isinstance(n.args[1].value, str) and n.args[1].value.isidentifier():
            return ast.copy_location(ast.Attribute(value=n.args[0], attr=n.args[1].value, ctx=ast.Load()), n)
        return n


def _literal_rows(e, consts):
    """rows of a literal table: a tuple/list of constants or of equally long tuples of constants (possibly behind a module-level name / reversed())"""
    rev = False
    if isinstance(e, ast.Call) and isinstance(e.func, ast.Name) and e.func.id == "reversed" and len(e.args) == 1 and not e.keywords:
        e, rev = e.args[0], True
    if isinstance(e, ast.Name) and e.id in consts:
        e = consts[e.id]
    if not isinstance(e, (ast.Tuple, ast.List)) or not (1 <= len(e.elts) <= 4):
        return None
    rows = []
    for r in e.elts:
        if isinstance(r, (ast.Constant, ast.Name)):
            rows.append([r])
        elif isinstance(r, (ast.Tuple, ast.List)) and r.elts and all(isinstance(c, (ast.Constant, ast.Name)) for c in r.elts):
            rows.append(list(r.elts))
        else:
            return None
    if len({len(r) for r in rows}) != 1:
        return None
    return list(reversed(rows)) if rev else rows


def _unroll_table_loops(tree):
    """N15: a `for` over a small literal table of constants (written in place, or a module-level name bound once to such a literal) is its body
    repeated once per row with the row's constants substituted - only when the body has no break/continue of that loop and does not re-bind the
    loop variables.  Inside each copy a local that merely names an attribute (`idx = self.some_index`) is replaced by that attribute, and
    locals assigned in the body get a per-copy suffix."""
    consts = {}
    stores = {}
    for st in getattr(tree, "body", []):
        tg = st.targets[0] if isinstance(st, ast.Assign) and len(st.targets) == 1 else (st.target if isinstance(st, ast.AnnAssign) and st.value is not None else None)
        if isinstance(tg, ast.Name):
            stores[tg.id] = stores.get(tg.id, 0) + 1
            consts[tg.id] = st.value
    consts = {k: v for k, v in consts.items() if stores.get(k) == 1 and isinstance(v, (ast.Tuple, ast.List))}

    def loop_jumps(body):
        out = []

        def walk(stmts):
            for s_ in stmts:
                if isinstance(s_, (ast.Break, ast.Continue)):
                    out.append(s_)
                elif isinstance(s_, (ast.For, ast.While, ast.AsyncFor)):
                    walk(s_.orelse)
                elif isinstance(s_, (ast.FunctionDef, ast.AsyncFunctionDef, ast.ClassDef)):
                    continue
                else:
                    for f in ("body", "orelse", "finalbody"):
                        walk(getattr(s_, f, None) or [])
                    for h in getattr(s_, "handlers", None) or []:
                        walk(h.body)
        walk(body)
        return out

    def unroll(st, fn_locals_after):
        rows = _literal_rows(st.iter, consts)
        if rows is None or st.orelse or loop_jumps(st.body):
            return None
        tgs = st.target.elts if isinstance(st.target, (ast.Tuple, ast.List)) else [st.target]
        if not all(isinstance(t, ast.Name) for t in tgs) or len(tgs) != len(rows[0]):
            return None
        tnames = [t.id for t in tgs]
        assigned = _stored_names(st.body)
        if set(tnames) & assigned or set(tnames) & fn_locals_after:
            return None
        # rows may name variables (a table of (graph, flag) pairs): those must not be re-bound by the body, and not every cell may be a variable
        row_names = {c.id for r in rows for c in r if isinstance(c, ast.Name)}
        if row_names & assigned or all(isinstance(c, ast.Name) for r in rows for c in r) and len(rows[0]) == 1:
            return None
        out = []
        for k, row in enumerate(rows, 1):
            body = copy.deepcopy(st.body)
            for nm, c in zip(tnames, row):
                body = [_SubstName(nm, c).visit(b) for b in body]
            body = [_ConstGetattr().visit(b) for b in body]
            # per-copy names for locals that are only used inside the loop
            for nm in sorted(assigned - fn_locals_after):
                new = f"{nm}__{k}"
                for b in body:
                    for x in ast.walk(b):
                        if isinstance(x, ast.Name) and x.id == nm:
                            x.id = new
            # a local that merely names an attribute chain is that attribute
            changed = True
            while changed:
                changed = False
                for i, b in enumerate(body):
                    if isinstance(b, ast.Assign) and len(b.targets) == 1 and isinstance(b.targets[0], ast.Name) and isinstance(b.value, ast.Attribute):
                        chain_ok, v = True, b.value
                        while isinstance(v, ast.Attribute):
                            v = v.value
                        chain_ok = isinstance(v, ast.Name)
                        nm = b.targets[0].id
                        rest = body[:i] + body[i + 1:]
                        if chain_ok and nm not in _stored_names(rest) and v.id not in _stored_names(rest) and nm not in fn_locals_after:
                            body = [_SubstName(nm, b.value).visit(r_) for r_ in rest]
                            changed = True
                            break
            out.extend(body)
        return out

    for fn in ast.walk(tree):
        if not isinstance(fn, (ast.FunctionDef, ast.AsyncFunctionDef)):
            continue
        changed_any = True
        rounds = 0
        while changed_any and rounds < 3:
            changed_any = False
            rounds += 1
            for holder in ast.walk(fn):
                for f in ("body", "orelse", "finalbody"):
                    lst = getattr(holder, f, None)
                    if not (isinstance(lst, list) and lst and isinstance(lst[0], ast.stmt)):
                        continue
                    new = []
                    for i, st in enumerate(lst):
                        rep_ = None
                        if isinstance(st, ast.For):
                            # names that also occur outside this loop must keep their meaning: count occurrences inside vs in the whole function
                            cnt_all, cnt_in = {}, {}
                            for x in ast.walk(fn):
                                if isinstance(x, ast.Name):
                                    cnt_all[x.id] = cnt_all.get(x.id, 0) + 1
                            for x in ast.walk(st):
                                if isinstance(x, ast.Name):
                                    cnt_in[x.id] = cnt_in.get(x.id, 0) + 1
                            after = {nm for nm in cnt_in if cnt_all.get(nm, 0) > cnt_in[nm]}
                            rep_ = unroll(st, after & (_stored_names(st.body) | {t.id for t in ast.walk(st.target) if isinstance(t, ast.Name)}))
                        if rep_ is not None:
                            new.extend(rep_)
                            changed_any = True
                        else:
                            new.append(st)
                    setattr(holder, f, new)
    tree = _ConstGetattr().visit(tree)
    ast.fix_missing_locations(tree)
    return tree


def _simple_operand(e) -> bool:
    return isinstance(e, (ast.Name, ast.Constant)) or (isinstance(e, ast.Attribute) and _simple_operand(e.value))


def _inline_single_use_temps(tree):
    """N18: `t = <expr>` directly followed by the ONLY use of t - as the whole value of `return t` / `y = t`, or as an argument of a call whose
    function and other arguments are plain names / constants / attribute chains - is written at the use ("extract variable" and "inline
    variable" are the same program).  t must occur exactly twice in its function (one store, one load)."""
    def block(body, counts):
        out = []
        i = 0
        while i < len(body):
            st = body[i]
            nxt = body[i + 1] if i + 1 < len(body) else None
            done = False
            if isinstance(st, ast.Assign) and len(st.targets) == 1 and isinstance(st.targets[0], ast.Name) and nxt is not None \
                    and isinstance(st.value, (ast.Call, ast.Attribute, ast.Subscript, ast.BinOp)) \
                    and not any(isinstance(x, (ast.Yield, ast.YieldFrom, ast.Await, ast.NamedExpr, ast.Lambda)) for x in ast.walk(st.value)):
                name = st.targets[0].id
                if counts.get(name) == 2:
                    slot = None
                    if isinstance(nxt, ast.Return) and isinstance(nxt.value, ast.Name) and nxt.value.id == name:
                        slot = ("value", None)
                    elif isinstance(nxt, ast.Assign) and isinstance(nxt.value, ast.Name) and nxt.value.id == name and all(isinstance(t, ast.Name) for t in nxt.targets):
                        slot = ("value", None)
                    elif isinstance(nxt, (ast.Expr, ast.Assign, ast.Return)) and isinstance(getattr(nxt, "value", None), ast.Call) and _simple_operand(nxt.value.func) \
                            and all(k.arg is not None for k in nxt.value.keywords) and not any(isinstance(a, ast.Starred) for a in nxt.value.args) \
                            and (not isinstance(nxt, ast.Assign) or all(isinstance(t, ast.Name) for t in nxt.targets)):
                        # operands evaluated BEFORE the slot must be plain (what comes after is evaluated after t either way)
                        for j, a in enumerate(nxt.value.args):
                            if isinstance(a, ast.Name) and a.id == name and all(_simple_operand(b) for b in nxt.value.args[:j]):
                                slot = ("arg", j)
                    if slot is not None:
                        if slot[0] == "value":
                            nxt.value = st.value
                        else:
                            nxt.value.args[slot[1]] = st.value
                        body = body[:i] + body[i + 1:]   # re-examine: the statement that received the expression may itself be a single-use temporary
                        done = True
            if not done:
                out.append(st)
                i += 1
            else:
                continue
        return out

    for fn in ast.walk(tree):
        if not isinstance(fn, (ast.FunctionDef, ast.AsyncFunctionDef)):
            continue
        counts = {}
        for n in ast.walk(fn):
            if isinstance(n, ast.Name):
                counts[n.id] = counts.get(n.id, 0) + 1
        for holder in ast.walk(fn):
            for f in ("body", "orelse", "finalbody"):
                lst = getattr(holder, f, None)
                if isinstance(lst, list) and lst and isinstance(lst[0], ast.stmt):
                    setattr(holder, f, block(lst, counts))
    return tree


# N19: one spelling per library reference ------------------------------------------------------------------------------------------
_ALIASED = {"networkx": "nx", "numpy": "np", "pandas": "pd"}
_BARE = {"copy", "itertools", "collections", "functools", "operator", "heapq"}


def _module_bound_names(tree) -> set:
    out = set()
    for n in ast.walk(tree):
        if isinstance(n, ast.Name) and isinstance(n.ctx, (ast.Store, ast.Del)):
            out.add(n.id)
        elif isinstance(n, ast.arg):
            out.add(n.arg)
        elif isinstance(n, (ast.FunctionDef, ast.AsyncFunctionDef, ast.ClassDef)):
            out.add(n.name)
        elif isinstance(n, ast.ExceptHandler) and n.name:
            out.add(n.name)
        elif isinstance(n, (ast.Global, ast.Nonlocal)):
            out.update(n.names)
    return out


def _canonical_imports(tree):
    """N19: a reference to a member of a library module is written one way, whatever the import statement looked like:
         networkx / numpy / pandas members      ->  nx.X / np.X / pd.X      (`import networkx`, `import networkx as NX`, `from networkx import X [as Y]`)
         members of networkx sub-modules        ->  bare X                  (`nx.isomorphism.GraphMatcher`, `isomorphism.GraphMatcher`, `GraphMatcher`)
         copy / itertools / collections / functools / operator / heapq members -> bare X   (`itertools.chain`, `it.chain`, `from itertools import chain as ch`)
       (a member named like its module - `copy.copy` - keeps the dotted form).  The matching canonical import statement is added to the
       analysed tree so that import-based resolution sees the same thing.  Nothing is rewritten when the canonical name is bound to
       something else in the module."""
    if not isinstance(tree, ast.Module):
        return tree
    stmts = [st for st in ast.walk(tree) if isinstance(st, (ast.Import, ast.ImportFrom))]
    if not stmts:
        return tree
    bound = _module_bound_names(tree)
    roots: Dict[str, str] = {}     # local name -> dotted library module it names
    members: Dict[str, str] = {}   # local name -> dotted library member it names
    all_import_locals = set()
    for st in stmts:
        for a in st.names:
            all_import_locals.add(a.asname or a.name.split(".")[0])
    libs = set(_ALIASED) | _BARE
    for st in stmts:
        if isinstance(st, ast.Import):
            for a in st.names:
                top = a.name.split(".")[0]
                if top in libs:
                    if a.asname:
                        roots[a.asname] = a.name
                    else:
                        roots[top] = top
        elif st.level == 0 and st.module and st.module.split(".")[0] in libs:
            for a in st.names:
                if a.name != "*":
                    members[a.asname or a.name] = f"{st.module}.{a.name}"
    # a name that is also bound by ordinary code is not reliably the library
    for d in (roots, members):
        for k in [k for k in d if k in bound]:
            del d[k]
    # the same local name imported in two different meanings is left alone
    seen: Dict[str, set] = {}
    for st in stmts:
        for a in st.names:
            if isinstance(st, ast.Import):
                seen.setdefault(a.asname or a.name.split(".")[0], set()).add(a.name if a.asname else a.name.split(".")[0])
            else:
                seen.setdefault(a.asname or a.name, set()).add(("." * st.level) + f"{st.module}.{a.name}")
    for k, v in seen.items():
        if len(v) > 1:
            roots.pop(k, None)
            members.pop(k, None)
    if not roots and not members:
        return tree
    need: set = set()   # canonical import statements to add: ("alias", module, alias) | ("from", module, name)

    def canonical(full: str, ctx):
        parts = full.split(".")
        top = parts[0]
        if top in _ALIASED:
            al = _ALIASED[top]
            if len(parts) == 2:
                if al in bound or (al in all_import_locals and roots.get(al, top) != top):
                    return None
                need.add(("alias", top, al))
                return ast.Attribute(value=ast.Name(id=al, ctx=ast.Load()), attr=parts[1], ctx=ctx)
            if len(parts) > 2 and all(p.islower() or "_" in p for p in parts[1:-1]) and top == "networkx":
                x = parts[-1]
                if x in bound or (x in all_import_locals and members.get(x, "").split(".")[-1] != x):
                    return None
                need.add(("from", ".".join(parts[:-1]), x))
                return ast.Name(id=x, ctx=ctx)
            return None
        if top in _BARE and len(parts) == 2:
            x = parts[1]
            if x == top:
                if top in bound or roots.get(top, top) != top:
                    return None
                need.add(("alias", top, top))
                return ast.Attribute(value=ast.Name(id=top, ctx=ast.Load()), attr=x, ctx=ctx)
            if x in bound or (x in all_import_locals and members.get(x) != full and x not in roots):
                return None
            if x in roots:
                return None
            need.add(("from", top, x))
            return ast.Name(id=x, ctx=ctx)
        return None

    class R(ast.NodeTransformer):
        def visit_Attribute(self, n):
            d = []
            cur = n
            while isinstance(cur, ast.Attribute):
                d.append(cur.attr)
                cur = cur.value
            if isinstance(cur, ast.Name) and isinstance(cur.ctx, ast.Load) and (cur.id in roots or cur.id in members):
                base = roots.get(cur.id) or members[cur.id]
                d.reverse()
                # the longest prefix that names a library member is canonicalised, the rest stays an attribute chain
                for k in range(len(d), -1, -1):
                    full = ".".join([base] + d[:k])
                    if k == 0 and cur.id in roots:
                        break
                    c = canonical(full, ast.Load())
                    if c is not None:
                        out = c
                        for a_ in d[k:]:
                            out = ast.Attribute(value=out, attr=a_, ctx=ast.Load())
                        out.ctx = n.ctx
                        return ast.copy_location(out, n)
                return n
            self.generic_visit(n)
            return n

        def visit_Name(self, n):
            if isinstance(n.ctx, ast.Load) and n.id in members:
                c = canonical(members[n.id], ast.Load())
                if c is not None:
                    return ast.copy_location(c, n)
            return n

        def visit_Import(self, n):
            return n

        def visit_ImportFrom(self, n):
            return n

    tree = R().visit(tree)
    have = set()
    for st in stmts:
        for a in st.names:
            if isinstance(st, ast.Import) and a.asname:
                have.add(("alias", a.name, a.asname))
            elif isinstance(st, ast.Import):
                have.add(("alias", a.name, a.name))
            elif st.level == 0 and not a.asname:
                have.add(("from", st.module, a.name))
    extra = []
    for kind, mod, nm in sorted(need - have):
        if kind == "alias":
            extra.append(ast.Import(names=[ast.alias(name=mod, asname=None if nm == mod else nm)]))
        else:
            extra.append(ast.ImportFrom(module=mod, names=[ast.alias(name=nm, asname=None)], level=0))
    if extra:
        k = 0
        body = tree.body
        if body and isinstance(body[0], ast.Expr) and isinstance(body[0].value, ast.Constant) and isinstance(body[0].value.value, str):
            k = 1
        while k < len(body) and isinstance(body[k], ast.ImportFrom) and body[k].module == "__future__":
            k += 1
        for e in extra:
            e.lineno = body[k].lineno if k < len(body) else 1
            e.col_offset = 0
        tree.body = body[:k] + extra + body[k:]
    return tree


# N22: one spelling of a call to a function of the same module ---------------------------------------------------------------------
def _module_signatures(mod):
    funcs, classes = {}, {}
    for st in mod.body:
        if isinstance(st, (ast.FunctionDef, ast.AsyncFunctionDef)):
            a = st.args
            if not st.decorator_list or all(_deco_keeps_signature(d) for d in st.decorator_list):
                funcs[st.name] = ([x.arg for x in a.posonlyargs + a.args], bool(a.vararg), len(a.posonlyargs), _literal_defaults(a))
        elif isinstance(st, ast.ClassDef):
            ms = {}
            for m in st.body:
                if isinstance(m, (ast.FunctionDef, ast.AsyncFunctionDef)):
                    a = m.args
                    deco = [ast.unparse(d) for d in m.decorator_list]
                    if any(d not in ("staticmethod", "classmethod") and not _deco_keeps_signature(dn) for d, dn in zip(deco, m.decorator_list)):
                        continue
                    params = [x.arg for x in a.posonlyargs + a.args]
                    ms[m.name] = (params if "staticmethod" in deco else params[1:], bool(a.vararg), len(a.posonlyargs), "staticmethod" in deco or "classmethod" in deco, _literal_defaults(a))
            classes[st.name] = ms
    return funcs, classes


def _literal_defaults(a) -> tuple:
    """((parameter, text of its literal default), ...) - hashable, for the signature tables"""
    pos = a.posonlyargs + a.args
    d = dict(zip([x.arg for x in pos[len(pos) - len(a.defaults):]], a.defaults))
    d.update({x.arg: v for x, v in zip(a.kwonlyargs, a.kw_defaults) if v is not None})
    return tuple(sorted((k, ast.unparse(v)) for k, v in d.items() if isinstance(v, ast.Constant) or (isinstance(v, ast.Tuple) and not v.elts)))


def _deco_keeps_signature(d) -> bool:
    t = ast.unparse(d)
    return t.split("(")[0].split(".")[-1] in ("lru_cache", "cache", "wraps", "staticmethod", "classmethod")


def module_signatures(mod):
    """public name of _module_signatures (core builds the package-wide table from it)"""
    return _module_signatures(mod)


def _positional_calls(tree, extern=None):
    """N22: in a call to a function / method defined in the same module (by name, through self. / cls., or ClassName.method for static and class
    methods), keyword arguments that name the next positional parameters are written positionally, in the callee's order:
        f(a, c=3, b=2) -> f(a, 2, 3)        (def f(a, b, c))
    Only a contiguous run is moved (a skipped parameter keeps the rest as keywords); keyword-only parameters stay keywords."""
    if not isinstance(tree, ast.Module):
        return tree
    funcs, classes = _module_signatures(tree)
    # names imported from other modules of the package (core passes their signatures): they never shadow a local definition
    for nm, sig in (extern or {}).items():
        if sig[0] == "func" and nm not in funcs and nm not in classes:
            funcs[nm] = sig[1]
        elif sig[0] == "class" and nm not in classes and nm not in funcs:
            classes[nm] = sig[1]
    if not funcs and not classes:
        return tree
    bound_elsewhere = _module_bound_names(tree) - set(classes) - {n.name for n in tree.body if isinstance(n, (ast.FunctionDef, ast.AsyncFunctionDef))}

    class R(ast.NodeTransformer):
        def __init__(self):
            self.cls = None
            self.shadow = []

        def visit_ClassDef(self, n):
            prev, self.cls = self.cls, (n.name if self.cls is None else self.cls)
            self.generic_visit(n)
            self.cls = prev
            return n

        def visit_Call(self, c):
            self.generic_visit(c)
            if any(isinstance(a, ast.Starred) for a in c.args) or any(k.arg is None for k in c.keywords):
                return c
            f = c.func
            sig = None
            dfl = ()
            if isinstance(f, ast.Name) and f.id in funcs and f.id not in bound_elsewhere:
                sig = funcs[f.id][:2]
                dfl = funcs[f.id][3] if len(funcs[f.id]) > 3 else ()
            elif isinstance(f, ast.Name) and f.id in classes and f.id not in bound_elsewhere and "__init__" in classes[f.id]:
                sig = classes[f.id]["__init__"][:2]
                dfl = classes[f.id]["__init__"][4] if len(classes[f.id]["__init__"]) > 4 else ()
            elif isinstance(f, ast.Attribute) and isinstance(f.value, ast.Name):
                if f.value.id in ("self", "cls") and self.cls and f.attr in classes.get(self.cls, {}):
                    sig = classes[self.cls][f.attr][:2]
                    dfl = classes[self.cls][f.attr][4] if len(classes[self.cls][f.attr]) > 4 else ()
                elif f.value.id in classes and f.attr in classes[f.value.id] and classes[f.value.id][f.attr][3]:
                    sig = classes[f.value.id][f.attr][:2]
                    dfl = classes[f.value.id][f.attr][4] if len(classes[f.value.id][f.attr]) > 4 else ()
            if sig is not None and dfl:
                # a keyword that passes the callee's own literal default says nothing: f(x, opt=None) is f(x)
                dd = dict(dfl)
                c.keywords = [k for k in c.keywords if not (k.arg in dd and isinstance(k.value, (ast.Constant, ast.Tuple)) and ast.unparse(k.value) == dd[k.arg])]
            if sig is None or sig[1]:
                return c
            params = sig[0]
            c._params = list(params)   # core.kwarg / core.bound read a positional argument of a resolved callee by its parameter name
            kws = {k.arg: k for k in c.keywords}
            moved = []
            i = len(c.args)
            while i < len(params) and params[i] in kws:
                moved.append(kws[params[i]])
                i += 1
            if not moved:
                return c
            c.args = list(c.args) + [k.value for k in moved]
            c.keywords = [k for k in c.keywords if k not in moved]
            return c
    return R().visit(tree)


# N23: one spelling of string interpolation ----------------------------------------------------------------------------------------
def _fstring_of_format(c: ast.Call):
    """'a{}b{!r}'.format(x, y) -> f"a{x}b{y!r}"  (constant template; auto-numbered, indexed or keyword fields without nested fields)"""
    import string
    if not (isinstance(c.func, ast.Attribute) and c.func.attr == "format" and isinstance(c.func.value, ast.Constant) and isinstance(c.func.value.value, str)):
        return None
    if any(isinstance(a, ast.Starred) for a in c.args) or any(k.arg is None for k in c.keywords):
        return None
    try:
        parts = list(string.Formatter().parse(c.func.value.value))
    except ValueError:
        return None
    values, auto = [], 0
    kws = {k.arg: k.value for k in c.keywords}
    for lit, field, spec, conv in parts:
        if lit:
            values.append(ast.Constant(value=lit))
        if field is None:
            continue
        if spec and ("{" in spec):
            return None
        if field == "":
            if auto >= len(c.args):
                return None
            expr = c.args[auto]
            auto += 1
        elif field.isdigit():
            if int(field) >= len(c.args):
                return None
            expr = c.args[int(field)]
        elif field.isidentifier() and field in kws:
            expr = kws[field]
        else:
            return None
        values.append(ast.FormattedValue(value=expr, conversion={None: -1, "s": 115, "r": 114, "a": 97}[conv],
                                         format_spec=ast.JoinedStr(values=[ast.Constant(value=spec)]) if spec else None))
    return ast.copy_location(ast.JoinedStr(values=values), c)


def _fstring_of_percent(b: ast.BinOp):
    """'%s|%r' % (a, b) -> f"{a}|{b!r}"   (only %s / %r / %% and a literal tuple or a single non-tuple operand)"""
    import re as _re
    if not (isinstance(b.op, ast.Mod) and isinstance(b.left, ast.Constant) and isinstance(b.left.value, str)):
        return None
    tmpl = b.left.value
    toks = _re.split(r"(%[sr%])", tmpl)
    if any(t.startswith("%") and t not in ("%s", "%r", "%%") for t in _re.findall(r"%.?", tmpl)):
        return None
    n = sum(1 for t in toks if t in ("%s", "%r"))
    if isinstance(b.right, ast.Tuple):
        args = list(b.right.elts)
    elif n == 1 and not isinstance(b.right, (ast.Dict, ast.Name, ast.Attribute, ast.Call, ast.Subscript)):
        args = [b.right]
    elif n == 1 and isinstance(b.right, (ast.Name, ast.Attribute, ast.Subscript)):
        return None   # could be a tuple at run time
    else:
        return None
    if len(args) != n or any(isinstance(a, ast.Starred) for a in args):
        return None
    values, i = [], 0
    for t in toks:
        if t == "%%":
            values.append(ast.Constant(value="%"))
        elif t in ("%s", "%r"):
            values.append(ast.FormattedValue(value=args[i], conversion=115 if t == "%s" else 114, format_spec=None))
            i += 1
        elif t:
            values.append(ast.Constant(value=t))
    return ast.copy_location(ast.JoinedStr(values=values), b)


class _Interpolation(ast.NodeTransformer):
    def visit_Call(self, c):
        self.generic_visit(c)
        j = _fstring_of_format(c)
        return self._canon(j) if j is not None else c

    def visit_BinOp(self, b):
        self.generic_visit(b)
        j = _fstring_of_percent(b)
        return self._canon(j) if j is not None else b

    def visit_JoinedStr(self, n):
        self.generic_visit(n)
        return self._canon(n)

    @staticmethod
    def _canon(n):
        # adjacent literal pieces are one piece; `{x!s}` is `{x}` for the value's text
        vals = []
        for v in n.values:
            if isinstance(v, ast.FormattedValue) and v.format_spec is None and v.conversion in (-1, 115) and isinstance(v.value, ast.Constant) and isinstance(v.value.value, str):
                v = ast.copy_location(ast.Constant(value=v.value.value), v)   # {'lit'} is the literal
            if isinstance(v, ast.Constant) and v.value == "":
                continue
            if isinstance(v, ast.FormattedValue) and v.conversion == 115 and v.format_spec is None:
                v = ast.copy_location(ast.FormattedValue(value=v.value, conversion=-1, format_spec=None), v)
            if isinstance(v, ast.Constant) and vals and isinstance(vals[-1], ast.Constant):
                vals[-1] = ast.copy_location(ast.Constant(value=vals[-1].value + v.value), vals[-1])
            else:
                vals.append(v)
        n.values = vals
        return n


# N24: a local that merely names a receiver attribute is that attribute --------------------------------------------------------------
def _attr_chain(e):
    """['self', 'a', 'b'] for self.a.b, else None"""
    parts = []
    while isinstance(e, ast.Attribute):
        parts.append(e.attr)
        e = e.value
    if isinstance(e, ast.Name) and e.id == "self" and parts:
        return ["self"] + parts[::-1]
    return None


def _inline_attribute_aliases(tree):
    """N24: inside a method, `x = self.a.b` (x assigned exactly once, a plain attribute chain, no call) followed by uses of `x` reads as `self.a.b` at
    every use - provided nothing in the method, nor in a method of the class it calls through `self.`, re-binds `self.a` (the object may be
    mutated: that is the same object either way).  The inverse of "bind the attribute to a local once", a common micro-optimisation."""
    for cls in [c for c in ast.walk(tree) if isinstance(c, ast.ClassDef)]:
        methods = {m.name: m for m in cls.body if isinstance(m, (ast.FunctionDef, ast.AsyncFunctionDef))}
        stores = {}
        for nm, m in methods.items():
            st = set()
            for n in ast.walk(m):
                if isinstance(n, ast.Attribute) and isinstance(n.ctx, (ast.Store, ast.Del)) and isinstance(n.value, ast.Name) and n.value.id == "self":
                    st.add(n.attr)
            stores[nm] = st
        for nm, m in methods.items():
            if nm in ("__init__", "__post_init__"):
                continue
            called = {n.func.attr for n in ast.walk(m) if isinstance(n, ast.Call) and isinstance(n.func, ast.Attribute) and isinstance(n.func.value, ast.Name)
                      and n.func.value.id == "self" and n.func.attr in methods}
            # aliases of methods count as calls of them
            rebound = set(stores[nm])
            frontier, seen = set(called), set()
            for _ in range(3):
                nxt = set()
                for c in frontier - seen:
                    seen.add(c)
                    rebound |= stores.get(c, set())
                    nxt |= {n.func.attr for n in ast.walk(methods[c]) if isinstance(n, ast.Call) and isinstance(n.func, ast.Attribute)
                            and isinstance(n.func.value, ast.Name) and n.func.value.id == "self" and n.func.attr in methods}
                frontier = nxt
            if frontier - seen:
                continue   # call chain deeper than followed: leave the method alone
            nested = {x.id for f in ast.walk(m) if isinstance(f, (ast.FunctionDef, ast.AsyncFunctionDef, ast.Lambda)) and f is not m for x in ast.walk(f) if isinstance(x, ast.Name)}
            counts = {}
            for n in ast.walk(m):
                if isinstance(n, ast.Name) and isinstance(n.ctx, (ast.Store, ast.Del)):
                    counts[n.id] = counts.get(n.id, 0) + 1
            params = {a.arg for a in m.args.posonlyargs + m.args.args + m.args.kwonlyargs}
            aliases = {}
            for n in ast.walk(m):
                if isinstance(n, ast.Assign) and len(n.targets) == 1 and isinstance(n.targets[0], ast.Name):
                    x = n.targets[0].id
                    ch = _attr_chain(n.value)
                    if ch and counts.get(x) == 1 and x not in params and x not in nested and ch[1] not in rebound:
                        # a method alias is stable; a field alias needs the method calls it makes not to re-bind the field (checked above via `rebound`)
                        aliases[x] = (n, n.value)
            if not aliases:
                continue

            class S(ast.NodeTransformer):
                def visit_Name(self, n):
                    if isinstance(n.ctx, ast.Load) and n.id in aliases and (n.lineno, n.col_offset) > (aliases[n.id][0].lineno, aliases[n.id][0].col_offset):
                        return ast.copy_location(copy.deepcopy(aliases[n.id][1]), n)
                    return n
            # every use must come after the definition (lexically); otherwise keep the alias
            ok = {x for x in aliases}
            for n in ast.walk(m):
                if isinstance(n, ast.Name) and isinstance(n.ctx, ast.Load) and n.id in aliases and not (n.lineno, n.col_offset) > (aliases[n.id][0].lineno, aliases[n.id][0].col_offset):
                    ok.discard(n.id)
            aliases = {x: v for x, v in aliases.items() if x in ok}
            if not aliases:
                continue
            S().visit(m)
            drop = {id(v[0]) for v in aliases.values()}

            class D(ast.NodeTransformer):
                def visit_Assign(self, n):
                    return None if id(n) in drop else n
            D().visit(m)
            for node in ast.walk(m):
                for f in ("body", "orelse", "finalbody"):
                    b = getattr(node, f, None)
                    if isinstance(b, list) and f == "body" and not b and isinstance(node, (ast.FunctionDef, ast.For, ast.While, ast.If, ast.With, ast.Try)):
                        b.append(ast.copy_location(ast.Pass(), node))
    return tree


def _drop_empty_splats(tree):
    """N26: `f(a, **extra)` where `extra` is a local bound once to an empty dict / list / tuple literal and never written to (no item store, no
    method call on it, not passed anywhere else) is `f(a)`; likewise `*extra`.  What is left over after an opt-in option was folded away."""
    for fn in [f for f in ast.walk(tree) if isinstance(f, (ast.FunctionDef, ast.AsyncFunctionDef))]:
        empties = {}
        stores = {}
        for n in ast.walk(fn):
            if isinstance(n, ast.Name) and isinstance(n.ctx, (ast.Store, ast.Del)):
                stores[n.id] = stores.get(n.id, 0) + 1
        for n in ast.walk(fn):
            if isinstance(n, ast.Assign) and len(n.targets) == 1 and isinstance(n.targets[0], ast.Name):
                v = n.value
                if (isinstance(v, (ast.Dict, ast.List, ast.Tuple)) and not (getattr(v, "keys", None) or getattr(v, "elts", None))) or \
                        (isinstance(v, ast.Call) and isinstance(v.func, ast.Name) and v.func.id in ("dict", "list", "tuple") and not v.args and not v.keywords):
                    if stores.get(n.targets[0].id) == 1:
                        empties[n.targets[0].id] = n
        if not empties:
            continue
        uses = {}
        for n in ast.walk(fn):
            for ch in ast.iter_child_nodes(n):
                if isinstance(ch, ast.Name) and ch.id in empties and isinstance(ch.ctx, ast.Load):
                    ok = (isinstance(n, ast.keyword) and n.arg is None) or isinstance(n, ast.Starred)
                    uses.setdefault(ch.id, []).append(ok)
        dead = {x for x, us in uses.items() if us and all(us)}
        if not dead:
            continue
        for c in ast.walk(fn):
            if isinstance(c, ast.Call):
                c.keywords = [k for k in c.keywords if not (k.arg is None and isinstance(k.value, ast.Name) and k.value.id in dead)]
                c.args = [a for a in c.args if not (isinstance(a, ast.Starred) and isinstance(a.value, ast.Name) and a.value.id in dead)]

        class D(ast.NodeTransformer):
            def visit_Assign(self, n):
                return None if any(n is empties[x] for x in dead) else n
        D().visit(fn)
    return tree


# N28: a private record type is the tuple it replaced -------------------------------------------------------------------------------
def _records_as_tuples(tree):
    """N28: `class _Rec(NamedTuple): a: T; b: U` (or `namedtuple('_Rec', 'a b')`) used as the result of a function and read by field name is the
    anonymous tuple it usually replaces:   return _Rec(a=x, b=y) -> return (x, y);   r = f(..) ... r.a ... r.b -> r_a, r_b = f(..) ... r_a ... r_b
    (when `r` is bound once to the result of a record-returning function of the module and only ever read through its fields; otherwise
    `r.a` -> `r[0]`).  `_Rec._make(e)` -> `e`."""
    if not isinstance(tree, ast.Module):
        return tree
    recs = {}
    rec_props = {}
    for st in tree.body:
        if isinstance(st, ast.ClassDef) and any((isinstance(b, ast.Name) and b.id == "NamedTuple") or (isinstance(b, ast.Attribute) and b.attr == "NamedTuple") for b in st.bases):
            fields, defaults = [], {}
            for x in st.body:
                if isinstance(x, ast.AnnAssign) and isinstance(x.target, ast.Name):
                    fields.append(x.target.id)
                    if x.value is not None:
                        defaults[x.target.id] = x.value
            if fields:
                recs[st.name] = (fields, defaults)
                for x in st.body:
                    if isinstance(x, ast.FunctionDef) and any(isinstance(d, ast.Name) and d.id == "property" for d in x.decorator_list):
                        body = [b for b in x.body if not (isinstance(b, ast.Expr) and isinstance(b.value, ast.Constant))]
                        if len(body) == 1 and isinstance(body[0], ast.Return) and body[0].value is not None:
                            rec_props.setdefault(st.name, {})[x.name] = body[0].value
        elif isinstance(st, ast.Assign) and len(st.targets) == 1 and isinstance(st.targets[0], ast.Name) and isinstance(st.value, ast.Call) \
                and ((isinstance(st.value.func, ast.Name) and st.value.func.id == "namedtuple") or (isinstance(st.value.func, ast.Attribute) and st.value.func.attr == "namedtuple")) \
                and len(st.value.args) >= 2:
            f = st.value.args[1]
            names = None
            if isinstance(f, ast.Constant) and isinstance(f.value, str):
                names = f.value.replace(",", " ").split()
            elif isinstance(f, (ast.List, ast.Tuple)) and all(isinstance(e, ast.Constant) and isinstance(e.value, str) for e in f.elts):
                names = [e.value for e in f.elts]
            if names:
                recs[st.targets[0].id] = (names, {})
    if not recs:
        return tree

    class C(ast.NodeTransformer):
        def visit_Call(self, c):
            self.generic_visit(c)
            f = c.func
            if isinstance(f, ast.Name) and f.id in recs and not any(isinstance(a, ast.Starred) for a in c.args) and not any(k.arg is None for k in c.keywords):
                fields, defaults = recs[f.id]
                vals = {fields[i]: a for i, a in enumerate(c.args) if i < len(fields)}
                vals.update({k.arg: k.value for k in c.keywords})
                if all(x in vals or x in defaults for x in fields) and len(c.args) <= len(fields):
                    t = ast.Tuple(elts=[vals.get(x, copy.deepcopy(defaults.get(x))) for x in fields], ctx=ast.Load())
                    t._record = f.id
                    return ast.copy_location(t, c)
            if isinstance(f, ast.Attribute) and f.attr == "_make" and isinstance(f.value, ast.Name) and f.value.id in recs and len(c.args) == 1:
                return c.args[0]
            return c
    tree = C().visit(tree)
    # functions all of whose returns are such tuples
    rec_funcs = {}
    for fn in [f for f in ast.walk(tree) if isinstance(f, (ast.FunctionDef, ast.AsyncFunctionDef))]:
        rets, stack = [], list(fn.body)
        while stack:
            x = stack.pop()
            if isinstance(x, (ast.FunctionDef, ast.AsyncFunctionDef, ast.Lambda, ast.ClassDef)):
                continue
            if isinstance(x, ast.Return) and x.value is not None:
                rets.append(x)
            stack.extend(ast.iter_child_nodes(x))
        kinds = {getattr(r.value, "_record", None) for r in rets}
        if rets and len(kinds) == 1 and None not in kinds:
            rec_funcs[fn.name] = kinds.pop()
    for fn in [f for f in ast.walk(tree) if isinstance(f, (ast.FunctionDef, ast.AsyncFunctionDef))]:
        stores = {}
        for n in ast.walk(fn):
            if isinstance(n, ast.Name) and isinstance(n.ctx, (ast.Store, ast.Del)):
                stores[n.id] = stores.get(n.id, 0) + 1
        cands = {}
        for st in ast.walk(fn):
            if isinstance(st, ast.Assign) and len(st.targets) == 1 and isinstance(st.targets[0], ast.Name) and stores.get(st.targets[0].id) == 1:
                v = st.value
                rec = getattr(v, "_record", None)
                if rec is None and isinstance(v, ast.Call):
                    fname = v.func.id if isinstance(v.func, ast.Name) else (v.func.attr if isinstance(v.func, ast.Attribute) else None)
                    rec = rec_funcs.get(fname)
                if rec:
                    cands[st.targets[0].id] = (st, rec)
        if not cands:
            continue
        par = {}
        for n in ast.walk(fn):
            for ch in ast.iter_child_nodes(n):
                par[ch] = n
        loads = {}
        for n in ast.walk(fn):
            if isinstance(n, ast.Name) and isinstance(n.ctx, ast.Load) and n.id in cands:
                p_ = par.get(n)
                ok_attrs = set(recs[cands[n.id][1]][0]) | set(rec_props.get(cands[n.id][1], {}))
                loads.setdefault(n.id, []).append(p_.attr if isinstance(p_, ast.Attribute) and p_.value is n and p_.attr in ok_attrs else None)
        for v, (st, rec) in cands.items():
            fields = recs[rec][0]
            uses = loads.get(v, [])
            only_fields = bool(uses) and all(u is not None for u in uses)

            class A(ast.NodeTransformer):
                def visit_Attribute(self, n):
                    self.generic_visit(n)
                    if only_fields and isinstance(n.value, ast.Name) and n.value.id == v and n.attr in rec_props.get(rec, {}) and isinstance(n.ctx, ast.Load):
                        # a one-expression property of the record, read on this record: its expression over the record's fields
                        class P(ast.NodeTransformer):
                            def visit_Attribute(self, m):
                                self.generic_visit(m)
                                if isinstance(m.value, ast.Name) and m.value.id == "self" and m.attr in fields:
                                    return ast.copy_location(ast.Name(id=f"{v}_{m.attr}", ctx=ast.Load()), m)
                                return m
                        return ast.copy_location(P().visit(copy.deepcopy(rec_props[rec][n.attr])), n)
                    if isinstance(n.value, ast.Name) and n.value.id == v and n.attr in fields and isinstance(n.ctx, ast.Load):
                        if only_fields:
                            return ast.copy_location(ast.Name(id=f"{v}_{n.attr}", ctx=ast.Load()), n)
                        # the record is also used as a whole (passed on, a property read): the field names stay (a `[0]` would read like "first element")
                        return n
                    return n
            A().visit(fn)
            if only_fields:
                st.targets = [ast.Tuple(elts=[ast.Name(id=f"{v}_{x}", ctx=ast.Store()) for x in fields], ctx=ast.Store())]
    return tree


# N30: a field that is only ever a literal is that literal -----------------------------------------------------------------------------
def _instance_constants(tree):
    """N30: `self.x = <literal>` as an unconditional statement of `__init__`, `x` stored nowhere else in the module (on any receiver) and never deleted:
    every `self.x` read in the class's other methods is the literal.  (Typically what is left of `self._opt = opt` after an opt-in option was folded to
    its default.)  Only None / bool / int / str literals and empty tuples."""
    if not isinstance(tree, ast.Module):
        return tree
    stores_anywhere = {}
    for n in ast.walk(tree):
        if isinstance(n, ast.Attribute) and isinstance(n.ctx, (ast.Store, ast.Del)):
            stores_anywhere[n.attr] = stores_anywhere.get(n.attr, 0) + 1
        elif isinstance(n, ast.Call) and isinstance(n.func, ast.Name) and n.func.id in ("setattr", "delattr") and len(n.args) >= 2:
            if isinstance(n.args[1], ast.Constant) and isinstance(n.args[1].value, str):
                stores_anywhere[n.args[1].value] = stores_anywhere.get(n.args[1].value, 0) + 2
            else:
                return tree   # dynamic attribute names: leave everything alone
    for cls in [c for c in tree.body if isinstance(c, ast.ClassDef)]:
        init = next((m for m in cls.body if isinstance(m, ast.FunctionDef) and m.name == "__init__"), None)
        if init is None or any(isinstance(b, ast.Name) and b.id not in ("object",) for b in cls.bases) and False:
            continue
        if init is None:
            continue
        consts = {}
        for st in init.body:
            tg0 = st.targets[0] if isinstance(st, ast.Assign) and len(st.targets) == 1 else (st.target if isinstance(st, ast.AnnAssign) and st.value is not None else None)
            if isinstance(tg0, ast.Attribute) and isinstance(tg0.value, ast.Name) and tg0.value.id == "self" and stores_anywhere.get(tg0.attr) == 1:
                v = st.value
                if (isinstance(v, ast.Constant) and (v.value is None or isinstance(v.value, (bool, int, str)))) or (isinstance(v, ast.Tuple) and not v.elts):
                    consts[tg0.attr] = v
        # class-level declarations / slots do not count as stores; a subclass elsewhere could assign the field: only private names are folded
        consts = {k: v for k, v in consts.items() if k.startswith("_")}
        if not consts:
            continue

        class S(ast.NodeTransformer):
            def visit_Attribute(self, n):
                self.generic_visit(n)
                if isinstance(n.ctx, ast.Load) and isinstance(n.value, ast.Name) and n.value.id == "self" and n.attr in consts:
                    return ast.copy_location(copy.deepcopy(consts[n.attr]), n)
                return n
        for m in cls.body:
            if isinstance(m, (ast.FunctionDef, ast.AsyncFunctionDef)) and m is not init:
                S().visit(m)
    return tree


# N29: a private slotted record is the dict it replaced ------------------------------------------------------------------------------
def _slotted_records_as_dicts(tree):
    """N29: `class _Rec: __slots__ = ("a", "b")` whose `__init__` only stores constants / its own parameters into those slots, used as a mutable
    accumulator (`r = _Rec(); r.a = ..; if r.a is None ..`), reads as the dict literal it usually replaces: `_Rec()` -> `{'a': None, 'b': None}`,
    `r.a` -> `r['a']` for every plain name `r` (not self / cls) - provided no other class of the module has attributes of those names."""
    if not isinstance(tree, ast.Module):
        return tree
    recs = {}
    for st in tree.body:
        if not (isinstance(st, ast.ClassDef) and st.name.startswith("_") and not st.bases):
            continue
        slots = None
        for x in st.body:
            if isinstance(x, ast.Assign) and len(x.targets) == 1 and isinstance(x.targets[0], ast.Name) and x.targets[0].id == "__slots__" \
                    and isinstance(x.value, (ast.Tuple, ast.List)) and all(isinstance(e, ast.Constant) and isinstance(e.value, str) for e in x.value.elts):
                slots = [e.value for e in x.value.elts]
        init = next((m for m in st.body if isinstance(m, ast.FunctionDef) and m.name == "__init__"), None)
        others = [m for m in st.body if isinstance(m, ast.FunctionDef) and m.name != "__init__"]
        if not slots or init is None or others:
            continue
        params = [a.arg for a in init.args.args[1:]]
        pdef = dict(zip(params[len(params) - len(init.args.defaults):], init.args.defaults))
        vals, ok = {}, True
        for b in init.body:
            if isinstance(b, ast.Expr) and isinstance(b.value, ast.Constant):
                continue
            tg = b.targets[0] if isinstance(b, ast.Assign) and len(b.targets) == 1 else (b.target if isinstance(b, ast.AnnAssign) and b.value is not None else None)
            if isinstance(tg, ast.Attribute) and isinstance(tg.value, ast.Name) and tg.value.id == "self" and tg.attr in slots \
                    and (isinstance(b.value, ast.Constant) or (isinstance(b.value, ast.Name) and b.value.id in params)):
                vals[tg.attr] = b.value
            else:
                ok = False
        if ok and set(vals) == set(slots):
            recs[st.name] = (slots, vals, params, pdef)
    if not recs:
        return tree
    all_fields = {f for r in recs.values() for f in r[0]}
    # the field names must not be attributes of anything else in the module
    for cls in [c for c in ast.walk(tree) if isinstance(c, ast.ClassDef) and c.name not in recs]:
        for n in ast.walk(cls):
            if isinstance(n, ast.Attribute) and isinstance(n.value, ast.Name) and n.value.id in ("self", "cls") and n.attr in all_fields:
                return tree

    class R(ast.NodeTransformer):
        def visit_Call(self, c):
            self.generic_visit(c)
            if isinstance(c.func, ast.Name) and c.func.id in recs and not any(isinstance(a, ast.Starred) for a in c.args) and not any(k.arg is None for k in c.keywords):
                slots, vals, params, pdef = recs[c.func.id]
                bound = {params[i]: a for i, a in enumerate(c.args) if i < len(params)}
                bound.update({k.arg: k.value for k in c.keywords})
                items = []
                for f in slots:
                    v = vals[f]
                    if isinstance(v, ast.Name):
                        v = bound.get(v.id, pdef.get(v.id))
                        if v is None:
                            return c
                    items.append((f, copy.deepcopy(v)))
                return ast.copy_location(ast.Dict(keys=[ast.Constant(value=f) for f, _ in items], values=[v for _, v in items]), c)
            return c

        def visit_Attribute(self, n):
            self.generic_visit(n)
            if isinstance(n.value, ast.Name) and n.value.id not in ("self", "cls") and n.attr in all_fields:
                return ast.copy_location(ast.Subscript(value=n.value, slice=ast.Constant(value=n.attr), ctx=n.ctx), n)
            return n

        def visit_ClassDef(self, n):
            return n if n.name in recs else self.generic_visit(n)
    return R().visit(tree)


def _expand_literal_splats(tree):
    """N33: `f(*t, ..)` with `t` a local bound exactly once, to a tuple / list display of plain names and constants none of which is re-bound
    afterwards, is `f(<the elements>, ..)`."""
    for fn in ast.walk(tree):
        if not isinstance(fn, (ast.FunctionDef, ast.AsyncFunctionDef)):
            continue
        stores, lits = {}, {}
        for n in ast.walk(fn):
            if isinstance(n, ast.Name) and isinstance(n.ctx, (ast.Store, ast.Del)):
                stores.setdefault(n.id, []).append(getattr(n, "lineno", 0))
            elif isinstance(n, ast.arg):
                stores.setdefault(n.arg, []).append(0)
        for n in ast.walk(fn):
            if isinstance(n, ast.Assign) and len(n.targets) == 1 and isinstance(n.targets[0], ast.Name) and isinstance(n.value, (ast.Tuple, ast.List)) \
                    and len(stores.get(n.targets[0].id, [])) == 1 and all(isinstance(e, (ast.Name, ast.Constant)) for e in n.value.elts):
                if all(not isinstance(e, ast.Name) or all(ln <= n.lineno for ln in stores.get(e.id, [])) for e in n.value.elts):
                    lits[n.targets[0].id] = n
        if not lits:
            continue
        # a list display could be mutated through the name: only names that are read nowhere but in `*name` positions
        starred = {id(x.value) for x in ast.walk(fn) if isinstance(x, ast.Starred) and isinstance(x.value, ast.Name)}
        for nm in list(lits):
            if any(isinstance(x, ast.Name) and x.id == nm and isinstance(x.ctx, ast.Load) and id(x) not in starred for x in ast.walk(fn)):
                del lits[nm]
        for c in ast.walk(fn):
            if isinstance(c, ast.Call) and any(isinstance(a, ast.Starred) and isinstance(a.value, ast.Name) and a.value.id in lits
                                               and getattr(a, "lineno", 0) >= lits[a.value.id].lineno for a in c.args):
                new = []
                for a in c.args:
                    if isinstance(a, ast.Starred) and isinstance(a.value, ast.Name) and a.value.id in lits:
                        new.extend(ast.copy_location(copy.deepcopy(e), a) for e in lits[a.value.id].value.elts)
                    else:
                        new.append(a)
                c.args = new
    return tree


def normalise(tree: ast.AST, extern=None) -> ast.AST:
    tree = _canonical_imports(tree)
    tree = _slotted_records_as_dicts(tree)
    tree = _instance_constants(tree)
    tree = _records_as_tuples(tree)
    tree = _inline_attribute_aliases(tree)
    tree = _Interpolation().visit(tree)
    tree = _expand_literal_splats(tree)
    tree = _positional_calls(tree, extern)
    tree = Normalise().visit(tree)
    tree = _unroll_table_loops(tree)
    tree = _param_defaults(tree)
    tree = _search_loops(tree)
    tree = _loops_over_generators(tree)
    tree = _accumulate_loops(tree)
    tree = _defaultdict_groups(tree)
    tree = _unpack_of_literal_map(tree)
    tree = _inline_single_use_temps(tree)
    tree = _drop_empty_splats(tree)
    ast.fix_missing_locations(tree)
    return tree
