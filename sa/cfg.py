"""Statement-level control-flow graph for one function.

Nodes are the function's own statements (compound statements are represented
by their header: the ``if`` test, the ``for`` iterator, ...), plus ENTRY, EXIT
(normal return / fall-through) and RAISE (exceptional exit).  Edges leaving an
``if``/``while`` header carry ``branch=True/False``.  Nested function bodies are
not entered.  ``try`` is modelled conservatively: every statement of the
protected body may jump to every handler.
"""
from __future__ import annotations

import ast
from typing import Dict, Iterable, List, Optional, Set

import networkx as nx

ENTRY, EXIT, RAISE = "ENTRY", "EXIT", "RAISE"


class CFG:
    def __init__(self, fn: ast.AST):
        self.fn = fn
        self.g = nx.DiGraph()
        self.g.add_nodes_from([ENTRY, EXIT, RAISE])
        self._loop_stack: List[tuple] = []  # (continue_target, break_collector)
        self._handler_stack: List[List[ast.AST]] = []
        tails = self._seq(fn.body, [(ENTRY, None)])
        for t, br in tails:
            self._edge(t, EXIT, br)
        self._idom: Optional[dict] = None
        self._ipdom: Optional[dict] = None

    # -- construction --------------------------------------------------
    def _edge(self, a, b, branch=None):
        if self.g.has_edge(a, b):
            # keep a set of labels so both branch senses survive on one edge
            self.g[a][b]["branches"].add(branch)
        else:
            self.g.add_edge(a, b, branches={branch})

    def _link(self, preds, node):
        self.g.add_node(node)
        for p, br in preds:
            self._edge(p, node, br)
        # any statement inside a try body may raise into the handlers
        for handlers in self._handler_stack[-1:]:
            for h in handlers:
                self._edge(node, h, None)

    def _seq(self, body, preds):
        for st in body:
            preds = self._stmt(st, preds)
        return preds

    def _stmt(self, st, preds):
        if isinstance(st, ast.If):
            self._link(preds, st)
            t = self._seq(st.body, [(st, True)])
            f = self._seq(st.orelse, [(st, False)]) if st.orelse else [(st, False)]
            return t + f
        if isinstance(st, (ast.For, ast.AsyncFor, ast.While)):
            self._link(preds, st)
            breaks: List[tuple] = []
            self._loop_stack.append((st, breaks))
            body_tails = self._seq(st.body, [(st, True)])
            self._loop_stack.pop()
            for t, br in body_tails:
                self._edge(t, st, br)
            exits = [(st, False)]
            if st.orelse:
                exits = self._seq(st.orelse, exits)
            return exits + breaks
        if isinstance(st, (ast.With, ast.AsyncWith)):
            self._link(preds, st)
            return self._seq(st.body, [(st, None)])
        if isinstance(st, ast.Try) or st.__class__.__name__ == "TryStar":
            handler_nodes = list(st.handlers)
            self._handler_stack.append(handler_nodes)
            # the try header itself is a node so that dominance queries can see it
            self._link(preds, st)
            body_tails = self._seq(st.body, [(st, None)])
            self._handler_stack.pop()
            else_tails = self._seq(st.orelse, body_tails) if st.orelse else body_tails
            h_tails = []
            for h in st.handlers:
                self.g.add_node(h)
                self._edge(st, h, None)
                h_tails += self._seq(h.body, [(h, None)])
            tails = else_tails + h_tails
            if st.finalbody:
                tails = self._seq(st.finalbody, tails)
            return tails
        if isinstance(st, ast.Return):
            self._link(preds, st)
            self._edge(st, EXIT, None)
            return []
        if isinstance(st, ast.Raise):
            self._link(preds, st)
            if self._handler_stack and self._handler_stack[-1]:
                pass  # edge to handlers already added by _link
            else:
                self._edge(st, RAISE, None)
            return []
        if isinstance(st, ast.Break):
            self._link(preds, st)
            if self._loop_stack:
                self._loop_stack[-1][1].append((st, None))
            return []
        if isinstance(st, ast.Continue):
            self._link(preds, st)
            if self._loop_stack:
                self._edge(st, self._loop_stack[-1][0], None)
            return []
        if st.__class__.__name__ == "Match":
            self._link(preds, st)
            tails = [(st, None)]
            out = []
            for case in st.cases:
                out += self._seq(case.body, [(st, None)])
            return out + tails
        # simple statement (incl. nested def/class, which we do not enter)
        self._link(preds, st)
        return [(st, None)]

    # -- queries -------------------------------------------------------
    def stmts(self) -> List[ast.AST]:
        return [n for n in self.g.nodes if not isinstance(n, str)]

    def reachable(self) -> Set:
        return set(nx.descendants(self.g, ENTRY)) | {ENTRY}

    def idom(self):
        if self._idom is None:
            sub = self.g.subgraph(self.reachable())
            self._idom = nx.immediate_dominators(sub, ENTRY)
        return self._idom

    def dominates(self, a, b) -> bool:
        """Every path ENTRY -> b passes through a."""
        idom = self.idom()
        if b not in idom:
            return True  # unreachable: vacuous
        n = b
        while True:
            if n == a:
                return True
            p = idom.get(n)
            if p is None or p == n:
                return False
            n = p

    def all_paths_pass(self, src, dst, through: Iterable, branch_of: Optional[dict] = None) -> bool:
        """Every path src -> dst passes through one of ``through``.

        ``branch_of`` optionally maps a node in ``through`` to the branch sense
        (True/False) that must be taken out of it for the pass to count."""
        through = set(through)
        g = self.g.copy()
        for n in through:
            if n not in g:
                continue
            if branch_of and n in branch_of:
                want = branch_of[n]
                for _, v, d in list(g.out_edges(n, data=True)):
                    if want in d["branches"]:
                        # taking the wanted branch counts as passing: cut it
                        if len(d["branches"]) == 1:
                            g.remove_edge(n, v)
                        else:
                            d["branches"] = d["branches"] - {want}
            else:
                g.remove_node(n)
        if src not in g or dst not in g:
            return True
        return not nx.has_path(g, src, dst)

    def stmt_of(self, node: ast.AST) -> Optional[ast.AST]:
        """CFG statement node that contains expression ``node`` (header-wise)."""
        best = None
        for st in self.stmts():
            for sub in _header_walk(st):
                if sub is node:
                    best = st
                    break
            if best is not None:
                break
        return best

    def can_reach(self, a, b) -> bool:
        return a in self.g and b in self.g and nx.has_path(self.g, a, b)


def _header_walk(st):
    """Nodes that belong to the statement itself, not to its nested blocks."""
    if isinstance(st, ast.If) or isinstance(st, ast.While):
        yield st
        yield from ast.walk(st.test)
    elif isinstance(st, (ast.For, ast.AsyncFor)):
        yield st
        yield from ast.walk(st.target)
        yield from ast.walk(st.iter)
    elif isinstance(st, (ast.With, ast.AsyncWith)):
        yield st
        for it in st.items:
            yield from ast.walk(it)
    elif isinstance(st, ast.Try) or st.__class__.__name__ == "TryStar":
        yield st
    elif isinstance(st, ast.ExceptHandler):
        yield st
        if st.type is not None:
            yield from ast.walk(st.type)
    elif st.__class__.__name__ == "Match":
        yield st
        yield from ast.walk(st.subject)
    elif isinstance(st, (ast.FunctionDef, ast.AsyncFunctionDef, ast.ClassDef)):
        yield st
    else:
        yield from ast.walk(st)
