"""Structural pattern matching on syntax trees with metavariables.

    pmatch("$g = deepcopy(host)", stmt)            -> {"g": "host_g"} or None
    pfind("$acc.append($$x)", fn)                  -> [(node, {"acc": "out", "x": "m.copy()"}), ...]

``$name``   matches an identifier (a Name node, a function/attribute-free local) and binds its id
``$$name``  matches any expression and binds its normalised source text
A metavariable that occurs twice must match the same thing.  Everything else (parameter names,
attribute names, constants, operators, call shapes) is literal.  Keyword arguments are matched
irrespective of their order.  Local variable names therefore never appear in a rule.
"""
from __future__ import annotations

import ast
import re
from typing import Dict, Iterable, List, Optional, Tuple

from .core import norm, walk_local

_MV = re.compile(r"\$\$?([A-Za-z_][A-Za-z_0-9]*)")
_CACHE: Dict[str, ast.AST] = {}


def _compile(pattern: str) -> ast.AST:
    if pattern in _CACHE:
        return _CACHE[pattern]

    def repl(m):
        return ("__ex_" if m.group(0).startswith("$$") else "__mv_") + m.group(1) + "__"
    src = _MV.sub(repl, pattern)
    from .normal import normalise
    tree = normalise(ast.parse(src))
    node = tree.body[0]
    if isinstance(node, ast.Expr) and len(tree.body) == 1:
        node = node.value
    _CACHE[pattern] = node
    return node


def _mv(name: str) -> Optional[Tuple[str, str]]:
    if name.startswith("__mv_") and name.endswith("__"):
        return "id", name[5:-2]
    if name.startswith("__ex_") and name.endswith("__"):
        return "ex", name[5:-2]
    return None


def _match(p, n, b: Dict[str, str]) -> bool:
    if isinstance(p, ast.Name):
        mv = _mv(p.id)
        if mv:
            kind, key = mv
            if kind == "id":
                if not isinstance(n, ast.Name):
                    return False
                val = n.id
            else:
                if not isinstance(n, ast.AST):
                    return False
                val = norm(n)
            if key in b:
                return b[key] == val
            b[key] = val
            return True
        return isinstance(n, ast.Name) and n.id == p.id
    if isinstance(p, ast.Expr) and isinstance(n, ast.Expr):
        return _match(p.value, n.value, b)
    if isinstance(p, ast.Assign) and len(p.targets) == 1 and isinstance(n, ast.AnnAssign) and n.value is not None:
        # `x: T = v` is matched by the pattern `x = v`
        return _match(p.targets[0], n.target, b) and _match(p.value, n.value, b)
    if type(p) is not type(n):
        return False
    if isinstance(p, ast.Constant):
        return p.value == n.value and type(p.value) is type(n.value) or p.value == n.value
    if isinstance(p, ast.arg):
        mv = _mv(p.arg)
        if mv:
            key = mv[1]
            if key in b:
                return b[key] == n.arg
            b[key] = n.arg
            return True
        return p.arg == n.arg
    if isinstance(p, ast.Compare) and len(p.ops) == 1 and isinstance(p.ops[0], (ast.Eq, ast.NotEq)) \
            and len(n.ops) == 1 and type(n.ops[0]) is type(p.ops[0]):
        # == / != are matched in either orientation
        for a_, c_ in ((n.left, n.comparators[0]), (n.comparators[0], n.left)):
            b2 = dict(b)
            if _match(p.left, a_, b2) and _match(p.comparators[0], c_, b2):
                b.clear()
                b.update(b2)
                return True
        return False
    if isinstance(p, ast.Call):
        if not _match(p.func, n.func, b):
            return False
        if len(p.args) != len(n.args) or len(p.keywords) != len(n.keywords):
            return False
        for a, c in zip(p.args, n.args):
            if not _match(a, c, b):
                return False
        nk = {k.arg: k.value for k in n.keywords}
        for k in p.keywords:
            if k.arg not in nk or not _match(k.value, nk[k.arg], b):
                return False
        return True
    for field in p._fields:
        if field in ("ctx", "type_comment", "type_ignores", "kind", "lineno", "col_offset", "end_lineno", "end_col_offset"):
            continue
        pv, nv = getattr(p, field, None), getattr(n, field, None)
        if isinstance(pv, list):
            if not isinstance(nv, list) or len(pv) != len(nv):
                return False
            for a, c in zip(pv, nv):
                if isinstance(a, ast.AST):
                    if not _match(a, c, b):
                        return False
                elif a != c:
                    return False
        elif isinstance(pv, ast.AST):
            if not isinstance(nv, ast.AST) or not _match(pv, nv, b):
                return False
        else:
            if field == "attr" or field == "id" or field == "name" or field == "arg":
                if pv != nv:
                    return False
            elif field == "annotation" or field == "returns":
                continue
            elif pv != nv:
                return False
    return True


def pmatch(pattern: str, node: ast.AST, env: Optional[Dict[str, str]] = None) -> Optional[Dict[str, str]]:
    """bindings if ``node`` has the shape of ``pattern`` (pre-bound metavariables in ``env`` must agree)"""
    if node is None:
        return None
    p = _compile(pattern)
    if isinstance(node, ast.Expr) and not isinstance(p, ast.Expr):
        node = node.value
    b = dict(env or {})
    return b if _match(p, node, b) else None


def pfind(pattern: str, root: ast.AST, env: Optional[Dict[str, str]] = None, into_nested: bool = True) -> List[Tuple[ast.AST, Dict[str, str]]]:
    out = []
    p_is_expr = not isinstance(_compile(pattern), ast.stmt)
    for n in walk_local(root, into_nested):
        if p_is_expr and isinstance(n, ast.Expr):
            continue  # the wrapped expression itself is visited as well
        m = pmatch(pattern, n, env)
        if m is not None:
            out.append((n, m))
    out.sort(key=lambda t: (getattr(t[0], "lineno", 0), getattr(t[0], "col_offset", 0)))
    return out


def pany(patterns: Iterable[str], node: ast.AST, env: Optional[Dict[str, str]] = None) -> Optional[Dict[str, str]]:
    for p in patterns:
        m = pmatch(p, node, env)
        if m is not None:
            return m
    return None


def psub(template: str, b: Dict[str, str]) -> str:
    """instantiate ``$x`` / ``$$x`` in a text template with bindings (for comparing normalised texts)"""
    return _MV.sub(lambda m: b.get(m.group(1), m.group(0)), template)


def pall(patterns: Iterable[str], root: ast.AST, env: Optional[Dict[str, str]] = None, into_nested: bool = True) -> Optional[Dict[str, str]]:
    """bindings under which EVERY pattern occurs somewhere below ``root`` (shared metavariables agree); None if there are none.
    Backtracking over the occurrences, so the order in which the patterns are listed does not matter."""
    pats = list(patterns)

    def go(i, b):
        if i == len(pats):
            return b
        for _, m in pfind(pats[i], root, b, into_nested):
            r = go(i + 1, m)
            if r is not None:
                return r
        return None
    return go(0, dict(env or {}))
