"""C07 - isomorphism verdicts/embeddings correct; pre-filters never change them."""
from __future__ import annotations

import ast
import itertools

from ..absval import Undecided, eval_expr, eval_resolved
from ..core import (alpha, AnalysisError, call_name, dotted, is_const, kwarg, local_defs, norm, origin,
                    parent_map, walk_local)
from ..facts import conjunct_nodes, enclosing_loops, guards_of, returns_of, enclosing_loops, default_of
from ..rules import matcher as M
from ..rules.memo import memo_sites
from ..pattern import pmatch, pfind

GM = "synkit/Graph/Matcher/graph_matcher.py"
SM = "synkit/Graph/Matcher/subgraph_matcher.py"
MO = "synkit/Graph/Matcher/graph_morphism.py"

META = {
    "explanation": (
        "R2 (networkx contract) at every matcher construction of the isomorphism engine and the subgraph helpers: "
        "embeddings need G1 = host and pattern->host inversion; a True isomorphism verdict may come only from "
        "is_isomorphic() or from a branch that is constant-False under the derived size facts. R1 on the shared WL "
        "histogram cache (key completeness w.r.t. the attribute selection). Filter soundness: every cheap rejection "
        "is evaluated on the cmp domain / classified against a frozen table of necessary conditions of an embedding "
        "(size <=, label availability, label multiset, degree >=); whole-neighbourhood WL containment only under an "
        "equal-size guard; provenance: identifiers drawn from the pattern never index the host. R13: the compiled "
        "node/edge predicates and the candidate pre-filter are normalised and compared with the search predicate."
    ),
    "rules": {"R2": "matcher roles / method family / inversion", "R1": "memo-key completeness and identity retention",
              "FILTER": "filter soundness table + cmp-domain evaluation", "PROV": "node-id provenance (pattern ids never index the host)",
              "R13": "predicate normal form"},
    "not_decided": "verdict correctness as such (VF2), symmetry and relabelling invariance as values",
    "trusted_base": ["CPython ast", "sa/* analyser", "networkx GraphMatcher contract", "WeakKeyDictionary drops an entry with its key"],
    "assumptions": ["graphs are not mutated in place between queries (documented by the engine)"],
}


def run(rep):
    rep.run(get_mappings)
    rep.run(isomorphic)
    rep.run(helpers)
    rep.run(wl_cache)
    rep.run(pre_check)
    rep.run(use_filter)
    rep.run(compiled_predicates)
    rep.run(quick_pre_filter)
    rep.run(unified_entry)


# ------------------------------------------------------------------ O7.1 (unified boolean entry point)
def unified_entry(rep):
    """SubgraphMatch.is_subgraph forwards its question to subgraph_isomorphism: (pattern, host) reach (child, parent) and every option it
    forwards reaches the like-named parameter - in particular the containment mode."""
    fi = rep.f(SM, "SubgraphMatch.is_subgraph")
    callee = rep.f(SM, "SubgraphMatch.subgraph_isomorphism")
    calls = [c for c in walk_local(fi.node) if isinstance(c, ast.Call) and call_name(c) == "subgraph_isomorphism"]
    rep.need("R2", len(calls), 1, "is_subgraph -> subgraph_isomorphism")
    cparams = [p_ for p_ in callee.params if p_ not in ("self", "cls")]
    for c in calls:
        if any(isinstance(a, ast.Starred) for a in c.args) or any(k.arg is None for k in c.keywords):
            rep.ob("O7.1", "R2", fi, None, c, "the forwarding call is not a plain call (star arguments)", node=c)
            continue
        bound = {cparams[i]: a for i, a in enumerate(c.args) if i < len(cparams)}
        bound.update({k.arg: k.value for k in c.keywords})
        first_two = [norm(bound.get(p_)) if bound.get(p_) is not None else None for p_ in cparams[:2]]
        rep.ob("O7.1", "R2", fi, first_two == fi.params[:2], c, f"(pattern, host) are asked as ({cparams[0]}, {cparams[1]})", {"bound": first_two}, node=c)
        for p_ in fi.params[2:]:
            if p_ not in cparams:
                continue
            got = bound.get(p_)
            others = [q for q, v in bound.items() if q != p_ and isinstance(v, ast.Name) and v.id == p_]
            ok = (isinstance(got, ast.Name) and got.id == p_) and not others
            if got is None and not others:
                ok = False if p_ == "check_type" else None   # an option that is simply not forwarded: only the containment mode is part of the property
                if ok is None:
                    continue
            rep.ob("O7.1", "R2", fi, ok, c, f"option `{p_}` reaches the parameter `{p_}` of subgraph_isomorphism" +
                   (f" (it is bound to `{others[0]}`)" if others else ""), node=c)


# ------------------------------------------------------------------ O7.1
def get_mappings(rep):
    fi = rep.f(GM, "GraphMatcherEngine._get_mappings_nx")
    defs = local_defs(fi.node, into_nested=True)
    ss = M.sites(fi)
    rep.need("R2", len(ss), 1, "matcher construction in _get_mappings_nx")
    s = ss[0]
    r1, r2 = M.role(fi, s.g1, defs), M.role(fi, s.g2, defs)
    ok = True if (r1, r2) == ("HOST", "PATTERN") else (False if r1 == "PATTERN" else None)
    rep.ob("O7.1", "R2", fi, ok, s.call, "embeddings of a pattern in a host need the host as G1 (networkx embeds G2 into G1)",
           {"G1": norm(s.g1), "role_G1": r1, "G2": norm(s.g2), "role_G2": r2}, node=s.call)
    rep.ob("O7.1", "R2", fi, s.node_match is not None and norm(s.node_match) == "self._nm" and s.edge_match is not None
           and norm(s.edge_match) == "self._em", s.call, "the compiled node and edge predicates are used", node=s.call)
    subs = [(m, c) for m, c in s.methods if m in M.SUB_METHODS]
    rep.ob("O7.1", "R2", fi, bool(subs), [m for m, _ in s.methods], "strictly smaller patterns are searched with a subgraph method",
           node=s.call)
    for m, c in s.methods:
        if m in M.ISO_METHODS:
            rep.ob("O7.1", "R2", fi, M.equal_size_guarded(fi, c, ast.Name(id="pattern"), ast.Name(id="host")) or
                   M.equal_size_guarded(fi, c, ast.Name(id="host"), ast.Name(id="pattern")), c,
                   "the full-isomorphism shortcut is taken only for equal-sized graphs", node=c)
    # all returned dicts are pattern -> host: G1->G2 dicts (host->pattern) must be inverted
    dcs = [d for d in walk_local(fi.node, into_nested=True) if isinstance(d, ast.DictComp)]
    srcs = []
    for d in dcs:
        it = norm(d.generators[0].iter)
        srcs.append((it, M.inverted_dict(d)))
    map_use = [n for n in walk_local(fi.node, into_nested=True) if isinstance(n, ast.Attribute) and n.attr == "mapping"]
    pm = parent_map(fi.node)
    for mu in map_use:
        # gm.mapping must only be consumed through an inverting comprehension
        par = pm.get(mu)
        inv = None
        if isinstance(par, ast.Attribute) and par.attr == "items":
            d = pm.get(pm.get(par))
            while d is not None and not isinstance(d, (ast.DictComp, ast.stmt)):
                d = pm.get(d)
            inv = M.inverted_dict(d) if isinstance(d, ast.DictComp) else None
        want_inv = (r1 == "HOST")
        rep.ob("O7.1", "R2", fi, (inv is True) if want_inv else (inv is not True), mu,
               "the isomorphism mapping (G1->G2) is reported pattern->host", {"inverted": inv, "G1": r1}, node=mu)
    for m, c in subs:
        # find the dict comprehension fed by this iterator
        consumer = None
        for d in dcs:
            for g in ast.walk(pm.get(d)) if pm.get(d) is not None else []:
                pass
        gens = [g for g in walk_local(fi.node, into_nested=True) if isinstance(g, (ast.GeneratorExp, ast.ListComp))
                and any(gg.iter is c for gg in g.generators)]
        loops = [l for l in walk_local(fi.node, into_nested=True) if isinstance(l, ast.For) and l.iter is c]
        inv = None
        if gens:
            inv = M.inverted_dict(gens[0].elt) if isinstance(gens[0].elt, ast.DictComp) else (False if isinstance(gens[0].elt, ast.Name) else None)
        elif loops:
            dd = [d for d in walk_local(loops[0]) if isinstance(d, ast.DictComp)]
            inv = M.inverted_dict(dd[0]) if dd else False
        else:
            # iterator returned / wrapped as is (list(gm.subgraph_isomorphisms_iter()))
            inv = False
        want_inv = (r1 == "HOST")
        rep.ob("O7.1", "R2", fi, (inv is True) if want_inv else (inv is False), c,
               "embedding dicts (G1->G2) are reported pattern->host", {"inverted": inv, "G1": r1}, node=c)
    # pre-check orientation
    pcs = [c for c in walk_local(fi.node) if isinstance(c, ast.Call) and call_name(c) == "_pre_check"]
    for c in pcs:
        rep.ob("O7.3", "R2", fi, [norm(a) for a in c.args] == ["host", "pattern"], c, "_pre_check(host, pattern) gets the roles in order", node=c)


def isomorphic(rep):
    fi = rep.f(GM, "GraphMatcherEngine._isomorphic_nx")
    defs = local_defs(fi.node)
    ss = M.sites(fi)
    rep.need("R2", len(ss), 1, "matcher construction in _isomorphic_nx")
    s = ss[0]
    a, b = norm(s.g1), norm(s.g2)
    # size-swap idiom: if A.number_of_nodes() > B.number_of_nodes(): A, B = B, A   =>  |A| <= |B|
    smaller_first = False
    for st in fi.node.body:
        if isinstance(st, ast.If) and isinstance(st.test, ast.Compare) and len(st.body) == 1 and isinstance(st.body[0], ast.Assign):
            t = st.test
            l, r = norm(t.left), norm(t.comparators[0])
            asg = st.body[0]
            if isinstance(asg.targets[0], ast.Tuple) and isinstance(asg.value, ast.Tuple):
                tg = [norm(e) for e in asg.targets[0].elts]
                vs = [norm(e) for e in asg.value.elts]
                if tg == [a, b] and vs == [b, a] and pmatch(f"{a}.number_of_nodes() > {b}.number_of_nodes()", t) is not None:
                    smaller_first = True
    rets = returns_of(fi.node)
    verdict = [r for r in rets if any(isinstance(n, ast.Call) and call_name(n) in (M.SUB_METHODS | M.ISO_METHODS) for n in ast.walk(r))]
    rep.need("R2", len(verdict), 1, "verdict return in _isomorphic_nx")
    for r in verdict:
        for c in [n for n in ast.walk(r) if isinstance(n, ast.Call) and call_name(n) in (M.SUB_METHODS | M.ISO_METHODS)]:
            m = call_name(c)
            if m in M.ISO_METHODS:
                rep.ob("O7.1", "R2", fi, True, c, "a True verdict comes from is_isomorphic()", node=c)
                continue
            # a subgraph method inside an *isomorphism* verdict: must be constant False there
            eq = M.equal_size_guarded(fi, c, s.g1, s.g2)
            # it sits in the else-branch of `A.n == B.n`  => sizes differ; with |G1| <= |G2| => G1 strictly smaller => constant False
            pm = parent_map(fi.node)
            gs = guards_of(pm, c, fi.node)
            unequal = any(isinstance(t, ast.Compare) and ((isinstance(t.ops[0], ast.Eq) and not sense) or (isinstance(t.ops[0], ast.NotEq) and sense)) and
                          {norm(t.left), norm(t.comparators[0])} == {f"{a}.number_of_nodes()", f"{b}.number_of_nodes()"}
                          for t, sense in gs)
            const_false = smaller_first and unequal
            rep.ob("O7.1", "R2", fi, True if const_false else (False if not eq else None), c,
                   "for graphs of different size the verdict is constant False: the subgraph test is asked with the strictly smaller graph as G1",
                   {"smaller_first_idiom": smaller_first, "under_unequal_sizes": unequal}, node=c)
    pcs = [c for c in walk_local(fi.node) if isinstance(c, ast.Call) and call_name(c) == "_pre_check"]
    for c in pcs:
        ok = smaller_first and [norm(x) for x in c.args] == [b, a]
        rep.ob("O7.3", "R2", fi, ok, c, "_pre_check receives (larger, smaller) as (host, pattern)", node=c)


def helpers(rep):
    for rel, q in ((SM, "SubgraphMatch.subgraph_isomorphism"), (MO, "subgraph_isomorphism")):
        fi = rep.f(rel, q)
        defs = local_defs(fi.node)
        ss = M.sites(fi)
        rep.need("R2", len(ss), 1, f"matcher construction in {q}")
        s = ss[0]
        r1, r2 = M.role(fi, s.g1, defs), M.role(fi, s.g2, defs)
        ok = True if (r1, r2) == ("HOST", "PATTERN") else (False if r1 == "PATTERN" else None)
        rep.ob("O7.1", "R2", fi, ok, s.call, "the containment test is asked with the parent as G1", {"G1": r1, "G2": r2}, node=s.call)
        pm = parent_map(fi.node)
        for m, c in s.methods:
            gs = [(norm(t).replace(" ", ""), sense) for t, sense in guards_of(pm, c, fi.node)]
            induced = ("check_type=='induced'", True) in gs
            mono = ("check_type=='induced'", False) in gs or ("check_type!='induced'", True) in gs
            ok = (m == "subgraph_is_isomorphic" and induced) or (m == "subgraph_is_monomorphic" and mono)
            rep.ob("O7.1", "R2", fi, ok, f"{m} under {gs}", "induced containment uses subgraph_is_isomorphic, monomorphic containment subgraph_is_monomorphic", node=c)
        rep.ob("O7.1", "R2", fi, {m for m, _ in s.methods} == {"subgraph_is_isomorphic", "subgraph_is_monomorphic"},
               sorted(m for m, _ in s.methods), "both containment modes are served", node=s.call)
    # find_graph_isomorphism: Matcher(G1, G2), mapping returned as is (documented G1 -> G2)
    fi = rep.f(MO, "find_graph_isomorphism")
    calls = [n for n, b in pfind("$M(G1, G2, node_match=node_match, edge_match=edge_match)", fi.node)]
    rep.need("R2", len(calls), 1, "<Matcher>(G1, G2, ...) in find_graph_isomorphism")
    c = calls[0]
    mvar = c.func.id
    rep.ob("O7.1", "R2", fi, [norm(x) for x in c.args[:2]] == fi.params[:2], c, "the matcher is built (G1, G2) so that .mapping is G1 -> G2 as documented", node=c)
    defs = local_defs(fi.node)
    def leaves(e):
        return leaves(e.body) + leaves(e.orelse) if isinstance(e, ast.IfExp) else [e]
    kinds = {norm(l).split(".")[-1] for d in defs.get(mvar, []) if d.value is not None for l in leaves(d.value)}
    rep.ob("O7.1", "R2", fi, kinds <= M.MATCHER_CLASSES and bool(kinds), sorted(kinds), "the matcher class is a networkx (Di/Multi)GraphMatcher")
    rets = [r for r in returns_of(fi.node) if r.value is not None and "mapping" in norm(r.value)]
    pm = parent_map(fi.node)
    for r in rets:
        gs = [t for t, s_ in guards_of(pm, r, fi.node) if s_]
        rep.ob("O7.1", "R2", fi, any(isinstance(g, ast.Call) and call_name(g) == "is_isomorphic" for g in gs), r, "a mapping is returned only after is_isomorphic() succeeded", node=r)
    # fast invariants are necessary conditions of isomorphism
    import re as _re
    P1, P2 = fi.params[:2]

    def _inv(e):
        """the invariant expression with both graph parameters replaced by one symbol"""
        return _re.sub(rf"\b({_re.escape(P1)}|{_re.escape(P2)})\b", "G", norm(origin(defs, e)))
    for st in [n for n in walk_local(fi.node) if isinstance(n, ast.If)]:
        quick = any(isinstance(x, ast.Return) and is_const(x.value, None) or isinstance(x, ast.Return) and is_const(x.value, False) for x in st.body)
        if quick and isinstance(st.test, ast.Compare) and len(st.test.ops) == 1 and not any(isinstance(c_, ast.Call) and call_name(c_) in M.ISO_METHODS for c_ in ast.walk(st.test)):
            l_, r_ = st.test.left, st.test.comparators[0]
            uses = {n_.id for n_ in ast.walk(origin(defs, l_)) if isinstance(n_, ast.Name)} | {n_.id for n_ in ast.walk(origin(defs, r_)) if isinstance(n_, ast.Name)}
            ok = isinstance(st.test.ops[0], (ast.NotEq, ast.IsNot)) and _inv(l_) == _inv(r_) and {P1, P2} <= uses
            rep.ob("O7.3", "FILTER", fi, ok, alpha(st.test, fi.node), "quick rejection compares the same invariant of both graphs for inequality", node=st)
    gi = rep.f(MO, "graph_isomorphism")
    cs = [c for c in walk_local(gi.node) if isinstance(c, ast.Call) and call_full_is(c, "nx.is_isomorphic")]
    rep.need("R2", len(cs), 1, "nx.is_isomorphic in graph_isomorphism")
    c = cs[0]
    ok = [norm(x) for x in c.args[:2]] == gi.params[:2] and norm(kwarg(c, "node_match") or ast.Constant(None)) == "node_match" \
        and norm(kwarg(c, "edge_match") or ast.Constant(None)) == "edge_match"
    rep.ob("O7.1", "R2", gi, ok, c, "graph_isomorphism is full isomorphism with the given predicates", node=c)


def call_full_is(c, name):
    return (dotted(c.func) or "") == name


# ------------------------------------------------------------------ O7.2
def wl_cache(rep):
    fi = rep.f(GM, "GraphMatcherEngine._wl_hash_cached")
    ss = memo_sites(rep.repo, fi, {"_wl_cache"})
    rep.need("R1", len(ss), 1, "memo store into _wl_cache")
    for s in ss:
        rep.ob("O7.2", "R1", fi, s.compute is not None and call_name(s.compute) == "_wl1_hash", s.store,
               "the cached value is the WL-1 histogram", node=s.store)
        if not s.problems:
            rep.ob("O7.2", "R1", fi, True, f"key=({', '.join(norm(k) for k in s.key_parts)})",
                   "every input of the cached histogram is part of the key (no answer depends on earlier queries)",
                   {"inputs": [t for t, _ in s.inputs], "covered": s.covered, "cache_level": s.cache_level}, node=s.store)
        for kind, node, msg in s.problems:
            rep.ob("O7.2", "R1", fi, False, f"key=({', '.join(norm(k) for k in s.key_parts)})", msg,
                   {"inputs": [t for t, _ in s.inputs], "cache_level": s.cache_level}, node=s.store)
    # the hit path reads with the same key
    reads = [n for n in walk_local(fi.node) if isinstance(n, ast.Return) and isinstance(n.value, ast.Subscript)]
    for r in reads:
        stores = {norm(s.store.targets[0]) for s in ss}
        rep.ob("O7.2", "R1", fi, norm(r.value) in stores, r, "hit and store use the same key expression", node=r)
    # users of the cache read the stored histogram, they never modify it (an in-place `-=` / update / item store on the returned object
    # changes what the NEXT query on that graph object sees: the answer would depend on earlier queries)
    MUT = {"update", "subtract", "clear", "pop", "popitem", "setdefault", "__setitem__", "__delitem__", "__isub__", "__iadd__"}
    n_users = 0
    for q_, ufi in rep.repo.module(GM).funcs.items():
        if ufi.node is fi.node:
            continue
        ud = local_defs(ufi.node)
        holders = {nm for nm, ds in ud.items() for d_ in ds if isinstance(d_.value, ast.Call) and call_name(d_.value) == "_wl_hash_cached"}
        if not holders:
            continue
        n_users += 1
        rep.touch(ufi)
        bad = []
        for n in walk_local(ufi.node):
            if isinstance(n, ast.AugAssign) and isinstance(n.target, ast.Name) and n.target.id in holders:
                bad.append((n, "augmented assignment works in place on a Counter"))
            elif isinstance(n, ast.Call) and isinstance(n.func, ast.Attribute) and isinstance(n.func.value, ast.Name) and n.func.value.id in holders and n.func.attr in MUT:
                bad.append((n, f".{n.func.attr}() modifies the cached object"))
            elif isinstance(n, (ast.Assign, ast.AugAssign, ast.Delete)):
                tgs = n.targets if isinstance(n, (ast.Assign, ast.Delete)) else [n.target]
                if any(isinstance(t_, ast.Subscript) and isinstance(t_.value, ast.Name) and t_.value.id in holders for t_ in tgs):
                    bad.append((n, "item store into the cached object"))
        rep.ob("O7.2", "R1", ufi, not bad, alpha(bad[0][0], ufi.node) if bad else f"{sorted(holders)} read-only", "the cached histogram is only read by its users" +
               (f" ({bad[0][1]}: a graph object that was once the pattern of a filtered query is later rejected as host of an isomorphic graph)" if bad else ""),
               node=bad[0][0] if bad else ufi.node)
    rep.need("R1", n_users, 1, "users of _wl_hash_cached")
    # histogram itself reads only the selected attributes
    wl = rep.f(GM, "_wl1_hash")
    gets = [c for c in walk_local(wl.node, into_nested=True) if isinstance(c, ast.Call) and call_name(c) == "get"]
    ok = bool(gets) and all(isinstance(c.args[0], ast.Name) for c in gets)
    rep.ob("O7.2", "R1", wl, ok, gets[0] if gets else "get", "the histogram depends on the graph and the attribute tuple only")
    # ... and on the raw values: the node matcher compares attribute values with ==, so two equal values must give equal colours. A text
    # rendering (str / repr / format / f-string) separates 0 from 0.0 and 1 from True; any other wrapper is not understood.
    pmw = parent_map(wl.node)
    for c in gets:
        par = pmw.get(c)
        wrapped = None
        while par is not None and not isinstance(par, ast.stmt):
            if isinstance(par, ast.Call) and c is not par.func and call_name(par) not in ("tuple", "sorted", "Counter", "frozenset", "list"):
                wrapped = par
                break
            if isinstance(par, (ast.JoinedStr, ast.FormattedValue)) or (isinstance(par, ast.BinOp) and isinstance(par.op, ast.Mod)):
                wrapped = par
                break
            par = pmw.get(par)
        if wrapped is None:
            okw = True
        elif isinstance(wrapped, (ast.JoinedStr, ast.FormattedValue, ast.BinOp)) or call_name(wrapped) in ("str", "repr", "format", "ascii"):
            okw = False
        else:
            okw = None
        rep.ob("O7.3", "FILTER", wl, okw, wrapped if wrapped is not None else c,
               "colours are built from the raw attribute values (values the matcher compares equal get equal colours; a text rendering separates 0 / 0.0 / False)", node=c)


# ------------------------------------------------------------------ O7.3
def _size_env(hn, pn, he, pe, hname="host", pname="pattern"):
    env = {}
    for g, n, e in ((hname, hn, he), (pname, pn, pe)):
        env[f"{g}.number_of_nodes()"] = n
        env[f"{g}.number_of_edges()"] = e
        env[f"len({g})"] = n
        env[f"len({g}.nodes)"] = n
        env[f"len({g}.edges)"] = e
        env[f"len({g}.nodes())"] = n
        env[f"len({g}.edges())"] = e
    return env


def pre_check(rep):
    fi = rep.f(GM, "GraphMatcherEngine._pre_check")
    body = [st for st in fi.node.body if not (isinstance(st, ast.Expr) and isinstance(st.value, ast.Constant))]
    # locate the WL containment return
    wl_ret = None
    for st in walk_local(fi.node):
        if isinstance(st, ast.Return) and st.value is not None and pmatch("all(($h.get($k, 0) >= $c for $k, $c in $p.items()))", st.value) is not None:
            wl_ret = st
    if wl_ret is None:
        rep.note("C07: no WL containment test left in _pre_check (nothing to guard)")
    sizes = [(3, 3, 2, 2), (3, 2, 2, 1), (4, 3, 3, 3), (3, 3, 3, 2), (5, 2, 4, 1)]
    for hn, pn, he, pe in sizes:
        env = _size_env(hn, pn, he, pe)
        env["self.wl1_filter"] = True
        reached, rejected, und = _simulate(body, env, wl_ret)
        equal = (hn == pn and he == pe)
        if und:
            rep.ob("O7.3", "FILTER", fi, None, f"sizes host=({hn},{he}) pattern=({pn},{pe})", f"_pre_check not evaluable: {und}", node=fi.node)
            continue
        rep.ob("O7.3", "FILTER", fi, not rejected, f"size test at host=({hn},{he}) pattern=({pn},{pe})",
               "a host at least as large as the pattern is never rejected by the size test", node=fi.node)
        if wl_ret is not None and not equal:
            rep.ob("O7.3", "FILTER", fi, not reached, f"WL containment at host=({hn},{he}) pattern=({pn},{pe})",
                   "whole-neighbourhood WL containment is a necessary condition for isomorphism only: it must not be applied to a strictly smaller pattern",
                   node=wl_ret)
    # with the filter off nothing but sizes is tested
    env = _size_env(3, 3, 2, 2)
    env["self.wl1_filter"] = False
    reached, rejected, und = _simulate(body, env, wl_ret)
    rep.ob("O7.3", "FILTER", fi, None if und else (not reached and not rejected), "wl1_filter=False", "with the filter off the pre-check passes every size-compatible pair", node=fi.node)
    if wl_ret is not None:
        v = wl_ret.value
        m_ = pmatch("all(($h.get($k, 0) >= $c for $k, $c in $p.items()))", v)
        d_ = local_defs(fi.node)
        ok = m_ is not None and norm(origin(d_, ast.Name(id=m_["h"], ctx=ast.Load()))) == "self._wl_hash_cached(host)" \
            and norm(origin(d_, ast.Name(id=m_["p"], ctx=ast.Load()))) == "self._wl_hash_cached(pattern)"
        rep.ob("O7.3", "FILTER", fi, True if ok else None, v, "WL filter = multiset containment of the pattern's labels in the host's", node=wl_ret)


def _simulate(body, env, target):
    """walk a straight-line sequence of `if <test>: return <const>` statements.
    returns (target_reached, rejected(False returned before target), undecided_reason)"""
    for st in body:
        if st is target:
            return True, False, None
        if isinstance(st, ast.If):
            try:
                v = bool(eval_expr(st.test, env))
            except Undecided as exc:
                return False, False, str(exc)
            blk = st.body if v else st.orelse
            for s2 in blk:
                if s2 is target:
                    return True, False, None
                if isinstance(s2, ast.Return):
                    val = s2.value
                    if isinstance(val, ast.Constant):
                        return False, (val.value is False), None
                    return False, False, f"non-constant return {norm(val)[:40]}"
            continue
        if isinstance(st, ast.Return):
            if isinstance(st.value, ast.Constant):
                return False, st.value.value is False, None
            return False, False, None
        if isinstance(st, (ast.Assign, ast.AnnAssign, ast.Expr)):
            continue
        return False, False, f"statement not modelled: {norm(st)[:40]}"
    return False, False, None


def use_filter(rep):
    for rel, q in ((SM, "SubgraphMatch.subgraph_isomorphism"), (MO, "subgraph_isomorphism")):
        fi = rep.f(rel, q)
        d = default_of(fi, "use_filter")
        rep.ob("O7.3", "FILTER", fi, d is not None and is_const(d, False), d if d is not None else "use_filter", "the pre-filter is off by default")
        blocks = [st for st in fi.node.body if isinstance(st, ast.If) and norm(st.test) == "use_filter"]
        rep.need("FILTER", len(blocks), 1, f"`if use_filter:` block in {q}")
        blk = blocks[0]
        pm = parent_map(fi.node)
        # PROV: identifiers drawn from the child graph never index the parent graph
        child_ids = set()
        for lp in [n for n in walk_local(blk) if isinstance(n, ast.For)]:
            it = norm(lp.iter)
            if it.startswith("child_graph."):
                tg = lp.target
                if isinstance(tg, ast.Tuple):
                    if ".edges" in it:
                        child_ids |= {e.id for e in tg.elts[:2] if isinstance(e, ast.Name) and e.id != "_"}
                    elif ".nodes" in it:
                        child_ids |= {e.id for e in tg.elts[:1] if isinstance(e, ast.Name) and e.id != "_"}
                    else:
                        child_ids |= {e.id for e in tg.elts if isinstance(e, ast.Name)}
                elif isinstance(tg, ast.Name):
                    child_ids.add(tg.id)
            # `for child_edge in child_graph.edges(data=True): a, b, d = child_edge`
        for n in walk_local(blk):
            if isinstance(n, ast.Assign) and isinstance(n.targets[0], ast.Tuple) and isinstance(n.value, ast.Name) and n.value.id in child_ids:
                child_ids |= {e.id for e in n.targets[0].elts[:2] if isinstance(e, ast.Name)}
        bad = []
        for n in walk_local(blk):
            if isinstance(n, ast.Call) and isinstance(n.func, ast.Attribute) and norm(n.func.value).startswith("parent_graph") \
                    and n.func.attr in ("has_edge", "has_node", "get_edge_data", "neighbors", "degree"):
                if any(isinstance(a, ast.Name) and a.id in child_ids for a in n.args):
                    bad.append(n)
            if isinstance(n, ast.Subscript) and norm(n.value).startswith("parent_graph") and \
                    any(isinstance(x, ast.Name) and x.id in child_ids for x in ast.walk(n.slice)):
                bad.append(n)
            if isinstance(n, ast.Compare) and any(isinstance(o, (ast.In, ast.NotIn)) for o in n.ops) and \
                    norm(n.comparators[0]).startswith("parent_graph") and isinstance(n.left, ast.Name) and n.left.id in child_ids:
                bad.append(n)
        if not bad:
            rep.ob("O7.3", "PROV", fi, True, "use_filter block", "no identifier drawn from the child graph is used to index the parent graph", node=blk)
        for n in bad[:3]:
            rep.ob("O7.3", "PROV", fi, False, n, "node ids of the child graph are unrelated to the parent's: indexing the parent with them makes the filter change verdicts", node=n)
        # labels are read with the matcher's defaults on BOTH sides (generic_node_match(names, defaults, ..) compares get(name, default))
        label_vars = {}   # loop variable over node_label_names -> paired default variable (or None)
        for n in ast.walk(blk):
            gens = []
            if isinstance(n, ast.For):
                gens.append((n.target, n.iter))
            if isinstance(n, (ast.GeneratorExp, ast.ListComp, ast.SetComp)):
                gens += [(g.target, g.iter) for g in n.generators]
            for tg, it in gens:
                if pmatch("zip(node_label_names, node_label_default)", it) is not None and isinstance(tg, ast.Tuple) and len(tg.elts) == 2:
                    label_vars[norm(tg.elts[0])] = norm(tg.elts[1])
                elif norm(it) == "node_label_names" and isinstance(tg, ast.Name):
                    label_vars[tg.id] = None
        gets = [c for c in ast.walk(blk) if isinstance(c, ast.Call) and isinstance(c.func, ast.Attribute) and c.func.attr == "get" and c.args
                and isinstance(c.args[0], ast.Name) and c.args[0].id in label_vars]
        bad_gets = [c for c in gets if not (len(c.args) == 2 and label_vars[c.args[0].id] is not None and norm(c.args[1]) == label_vars[c.args[0].id])]
        if gets:
            rep.ob("O7.3", "FILTER", fi, not bad_gets, bad_gets[0] if bad_gets else f"{len(gets)} label reads with (name, default)",
                   "the pre-filter reads node labels with the same defaults the matcher applies, on the host side and on the pattern side: a label read without its "
                   "default makes an un-annotated host atom look different from a pattern atom that spells the default out, and the filter rejects a contained pattern",
                   node=bad_gets[0] if bad_gets else blk)
        # every rejection inside the block is a recognised necessary condition
        for r in [n for n in walk_local(blk) if isinstance(n, ast.Return)]:
            gs = guards_of(pm, r, blk)
            inner = gs[0] if gs else None
            kind, ok = "?", None
            if not (isinstance(r.value, ast.Constant) and r.value.value is False):
                rep.ob("O7.3", "FILTER", fi, None, r, "the filter block returns something other than False", node=r)
                continue
            if inner is not None:
                t, sense = inner
                txt = norm(t)
                fdefs = local_defs(fi.node)
                size_like = False
                try:
                    # (child nodes, parent nodes, child edges, parent edges) of pairs where the child IS contained
                    # (monomorphically: equal node counts do not force equal edge counts)
                    vals = []
                    for cn, pn, ce, pe in ((2, 3, 1, 2), (3, 3, 2, 2), (1, 1, 0, 0), (3, 4, 3, 3), (3, 3, 2, 3), (4, 4, 3, 5)):
                        env = _size_env(pn, cn, pe, ce, "parent_graph", "child_graph")
                        vals.append(bool(eval_resolved(t, env, fdefs)) == sense)
                    size_like = True
                except Undecided:
                    size_like = False
                if size_like:
                    kind = "SIZE"
                    ok = not any(vals)
                elif isinstance(t, ast.Name) and not sense \
                        and any(isinstance(n_, ast.Assign) and norm(n_.targets[0]) == t.id and is_const(n_.value, True) for n_ in walk_local(blk)) \
                        and any(isinstance(n_, ast.Assign) and norm(n_.targets[0]) == t.id and is_const(n_.value, False) for n_ in walk_local(blk)):
                    kind, ok = "LABEL-AVAILABLE", True
                elif isinstance(t, ast.Call) and call_name(t) == "any" and not sense and t.args and isinstance(t.args[0], ast.GeneratorExp) \
                        and any("parent_graph.nodes" in norm(g_.iter) for g_ in t.args[0].generators):
                    # "no parent node carries this child's labels": the availability test written with any()
                    kind, ok = "LABEL-AVAILABLE", True
                elif isinstance(t, ast.Compare) and ((isinstance(t.ops[0], ast.NotIn) and sense) or (isinstance(t.ops[0], ast.In) and not sense)):
                    src = origin(local_defs(fi.node), t.comparators[0])
                    kind = "LABEL-MULTISET"
                    ok = True if (isinstance(src, (ast.ListComp, ast.SetComp)) and ("parent_graph.edges" in norm(src) or "parent_graph.nodes" in norm(src))) else None
                elif bad:
                    kind, ok = "BY-CHILD-ID", False
            rep.ob("O7.3", "FILTER", fi, ok, f"return False [{kind}] under `{norm(inner[0]) if inner else ''}`",
                   "each cheap rejection is a necessary condition of containment (size <=, label available, label multiset)", node=r)


# ------------------------------------------------------------------ R13
def compiled_predicates(rep):
    fi = rep.f(GM, "GraphMatcherEngine._compile_node_matcher")
    nms = [n for n in ast.walk(fi.node) if isinstance(n, ast.FunctionDef) and n is not fi.node]
    rep.need("R13", len(nms), 2, "nm closures in _compile_node_matcher")
    defs = local_defs(fi.node)
    for clo in nms:
        # a failure while the selected attributes are compared must not end the comparison early with an acceptance: an `except` around the
        # attribute loop that answers with anything but False skips the attributes that were not compared yet
        for tr in [t_ for t_ in ast.walk(clo) if isinstance(t_, ast.Try)]:
            loop_rejects = any(isinstance(l_, ast.For) and any(isinstance(r_, ast.Return) and is_const(r_.value, False) for r_ in ast.walk(l_)) for st_ in tr.body for l_ in ast.walk(st_))
            soft = [r_ for h_ in tr.handlers for st_ in h_.body for r_ in ast.walk(st_) if isinstance(r_, ast.Return) and not is_const(r_.value, False)]
            if loop_rejects and soft:
                rep.ob("O7.4", "R13", fi, False, soft[0], "compiled node predicate == selected attributes equal AND G1.hcount >= G2.hcount: an exception inside the "
                       "attribute comparison is answered by the handler without comparing the remaining attributes (a missing attribute makes the pair match)", node=soft[0])
        try:
            pf = M.normalise_predicate(clo)
        except Undecided as exc:
            rep.ob("O7.4", "R13", fi, None, clo.name, str(exc), node=clo)
            continue
        dnames = {a.arg: d for a, d in zip(reversed(clo.args.args), reversed(clo.args.defaults))}
        eq_ok = all(e in dnames or norm(origin(defs, ast.Name(id=e, ctx=ast.Load()))) == "self.node_attrs" for e in pf.eq_over)
        ok = pf.exact and eq_ok and pf.ge == [("hcount", 0, 1)] and not pf.other
        rep.ob("O7.4", "R13", fi, ok, f"nm({', '.join(pf.params)}) [eq over {sorted(pf.eq_over) or 'nothing'}]",
               "compiled node predicate == selected attributes equal AND G1.hcount >= G2.hcount",
               {"ge": pf.ge, "other": pf.other, "exact": pf.exact, "detail": pf.detail}, node=clo)
        if pf.eq_over:
            srcs_ = [norm(origin(defs, dnames[e])) if e in dnames else norm(origin(defs, ast.Name(id=e, ctx=ast.Load()))) for e in pf.eq_over]
            rep.ob("O7.4", "R13", fi, srcs_ == ["self.node_attrs"], f"equality over {sorted(pf.eq_over)} <- {srcs_}",
                   "the predicate compares exactly the engine's node_attrs", node=clo)
    fe = rep.f(GM, "GraphMatcherEngine._compile_edge_matcher")
    ems = [n for n in ast.walk(fe.node) if isinstance(n, ast.FunctionDef) and n is not fe.node]
    rep.need("R13", len(ems), 1, "em closure in _compile_edge_matcher")
    for clo in ems:
        try:
            pf = M.normalise_predicate(clo)
            ed_ = local_defs(fe.node)
            dn_ = {a.arg: d for a, d in zip(reversed(clo.args.args), reversed(clo.args.defaults))}
            srcs_ = [norm(origin(ed_, dn_[e])) if e in dn_ else norm(origin(ed_, ast.Name(id=e, ctx=ast.Load()))) for e in pf.eq_over]
            ok = pf.exact and bool(pf.eq_over) and not pf.ge and not pf.other
            rep.ob("O7.4", "R13", fe, ok, f"em({', '.join(pf.params)})", "compiled edge predicate == selected edge attributes equal",
                   {"eq_over": sorted(pf.eq_over), "exact": pf.exact}, node=clo)
            rep.ob("O7.4", "R13", fe, srcs_ == ["self.edge_attrs"], f"equality over {sorted(pf.eq_over)} <- {srcs_}", "the edge predicate compares exactly the engine's edge_attrs", node=clo)
        except Undecided as exc:
            rep.ob("O7.4", "R13", fe, None, clo.name, str(exc), node=clo)


def quick_pre_filter(rep):
    fi = rep.f(SM, "SubgraphSearchEngine._quick_pre_filter")
    defs = local_defs(fi.node, into_nested=True)
    pm0 = parent_map(fi.node)
    sums = [c for c in walk_local(fi.node) if isinstance(c, ast.Call) and call_name(c) == "sum" and c.args
            and isinstance(c.args[0], ast.GeneratorExp)]
    cnt_site = None   # (target, iter, conjuncts, report node, counter name or None)
    if sums:
        g = sums[0].args[0].generators[0]
        cj_ = []
        for i in g.ifs:
            cj_ += conjunct_nodes(i)
        cnt_site = (g.target, g.iter, cj_, sums[0], None)
    else:
        # explicit loop:  c = 0;  for hid, hdata in host.nodes(data=True): if COND: c += 1
        for inc in [n for n in walk_local(fi.node) if isinstance(n, ast.AugAssign) and isinstance(n.op, ast.Add) and is_const(n.value, 1) and isinstance(n.target, ast.Name)]:
            ls = enclosing_loops(pm0, inc, fi.node)
            if ls and pmatch("host.nodes(data=True)", ls[0].iter) is not None:
                cj_ = []
                okg = True
                for t, s_ in guards_of(pm0, inc, ls[0]):
                    if s_:
                        cj_ += conjunct_nodes(t)
                    else:
                        okg = False
                if okg:
                    cnt_site = (ls[0].target, ls[0].iter, cj_, inc, inc.target.id)
    rep.need("FILTER", 1 if cnt_site else 0, 1, "candidate count in _quick_pre_filter")
    tgt_, iter_, conj, cnt_node, cnt_loop_name = cnt_site
    sums = [cnt_node]
    it = norm(iter_).replace(" ", "")
    rep.ob("O7.4", "FILTER", fi, it == "host.nodes(data=True)", iter_, "candidates are counted over all host nodes", node=cnt_node)
    host_data = norm(tgt_.elts[1]) if isinstance(tgt_, ast.Tuple) and len(tgt_.elts) == 2 else "?"
    host_id = norm(tgt_.elts[0]) if isinstance(tgt_, ast.Tuple) else "?"
    # pattern side: loop variable over pattern.nodes(data=True)
    loops = [l for l in walk_local(fi.node) if isinstance(l, ast.For) and norm(l.iter).replace(" ", "") == "pattern.nodes(data=True)"]
    pat_data = norm(loops[0].target.elts[1]) if loops and isinstance(loops[0].target, ast.Tuple) else "?"
    for cj in conj:
        txt = norm(cj)
        ok, what = None, "candidate test is a necessary condition for a pattern node to map onto the host node"
        if isinstance(cj, ast.Call) and call_name(cj) == "all":
            lam = ast.Lambda(args=ast.arguments(posonlyargs=[], args=[ast.arg(arg=host_data), ast.arg(arg=pat_data)], kwonlyargs=[],
                                                kw_defaults=[], defaults=[]), body=cj)
            try:
                pf = M.normalise_predicate(lam)
                ok = pf.exact and pf.eq_over == {"node_attrs"} and not pf.ge and not pf.other
            except Undecided:
                ok = None
            what = "candidate test: selected attributes equal (same as the search predicate)"
        elif isinstance(cj, ast.Compare) and len(cj.ops) == 1:
            l, r = cj.left, cj.comparators[0]
            lk, rk = M._get_key(l), M._get_key(r)
            if lk and rk and lk[1] == rk[1] == "hcount":
                if isinstance(cj.ops[0], ast.GtE):
                    ok = (lk[0], rk[0]) == (host_data, pat_data)
                elif isinstance(cj.ops[0], ast.LtE):
                    ok = (lk[0], rk[0]) == (pat_data, host_data)
                else:
                    ok = False
                what = "candidate test: host hcount >= pattern hcount (same as the search predicate)"
            elif "degree" in txt:
                lsrc, rsrc = norm(origin(defs, l)), norm(origin(defs, r))
                host_first = lsrc.startswith("host.degree") and ("pattern.degree" in rsrc or "pat_degrees" in rsrc)
                pat_first = rsrc.startswith("host.degree") and ("pattern.degree" in lsrc or "pat_degrees" in lsrc)
                if isinstance(cj.ops[0], ast.GtE):
                    ok = True if host_first else (False if pat_first else None)
                elif isinstance(cj.ops[0], ast.LtE):
                    ok = True if pat_first else (False if host_first else None)
                else:
                    ok = False
                what = "candidate test: host degree >= pattern degree (a monomorphism cannot lower the degree)"
        rep.ob("O7.4", "FILTER", fi, ok, cj, what, node=sums[0])
    # rejections
    pm = parent_map(fi.node)
    for r in [n for n in walk_local(fi.node) if isinstance(n, ast.Return) and isinstance(n.value, ast.Constant) and n.value.value is True]:
        gts = [t for t, s_ in guards_of(pm, r, fi.node) if s_]
        gs = [norm(t).replace(" ", "") for t in gts]
        cnt_name = cnt_loop_name
        for n_ in walk_local(fi.node):
            if isinstance(n_, ast.Assign) and n_.value is sums[0] and isinstance(n_.targets[0], ast.Name):
                cnt_name = n_.targets[0].id
        ok = any(pmatch("$c == 0", t, {"c": cnt_name or "count"}) is not None for t in gts) or \
            any(pmatch("$e > threshold * $$k", t) is not None for t in gts)
        rep.ob("O7.4", "FILTER", fi, ok, f"return True under {gs}", "the pre-filter rejects only when some pattern node has no candidate or the estimate exceeds the threshold", node=r)


MUTANTS = [
    dict(name="revert F-C07a (pattern first, no inversion)", file=GM, expect="O7.1",
         edits=[(GM, "gm = _NXGraphMatcher(host, pattern, node_match=self._nm, edge_match=self._em)", "gm = _NXGraphMatcher(pattern, host, node_match=self._nm, edge_match=self._em)"),
                (GM, "            return [{p: h for h, p in gm.mapping.items()}]", "            return [gm.mapping]"),
                (GM, "iso_iter = ({p: h for h, p in iso.items()} for iso in gm.subgraph_isomorphisms_iter())", "iso_iter = gm.subgraph_isomorphisms_iter()")]),
    dict(name="host first but dicts not inverted", file=GM, expect="O7.1",
         old="iso_iter = ({p: h for h, p in iso.items()} for iso in gm.subgraph_isomorphisms_iter())", new="iso_iter = gm.subgraph_isomorphisms_iter()"),
    dict(name="revert F-C07b (cache keyed by graph only)", file=GM, expect="O7.2",
         old="        per_graph = self._wl_cache.setdefault(g, {})\n        try:\n            return per_graph[self.node_attrs]\n        except KeyError:\n            h = _wl1_hash(g, self.node_attrs)\n            per_graph[self.node_attrs] = h\n            return h",
         new="        try:\n            return self._wl_cache[g]\n        except KeyError:\n            h = _wl1_hash(g, self.node_attrs)\n            self._wl_cache[g] = h\n            return h"),
    dict(name="cache keyed by attrs but hash over one attribute", file=GM, expect="O7.2",
         old="            h = _wl1_hash(g, self.node_attrs)\n            per_graph[self.node_attrs] = h", new="            h = _wl1_hash(g, self.node_attrs + self.edge_attrs)\n            per_graph[self.node_attrs] = h"),
    dict(name="revert F-C07d (WL containment for embeddings)", file=GM, expect="O7.3",
         old="        if not self.wl1_filter or (\n            host.number_of_nodes() != pattern.number_of_nodes()\n            or host.number_of_edges() != pattern.number_of_edges()\n        ):\n            return True",
         new="        if not self.wl1_filter:\n            return True"),
    dict(name="revert F-C07c in SubgraphMatch", file=SM, expect="O7.3",
         old="                for _, _, child_data in child_graph.edges(data=True):\n                    child_order = child_data.get(edge_attribute)\n                    if child_order not in parent_orders:\n                        return False\n                    parent_orders.remove(child_order)",
         new="                for u, v, child_data in child_graph.edges(data=True):\n                    if not parent_graph.has_edge(u, v):\n                        return False\n                    if child_data.get(edge_attribute) != parent_graph[u][v].get(edge_attribute):\n                        return False"),
    dict(name="revert F-C07c in graph_morphism", file=MO, expect="O7.3",
         old="            for _, _, child_data in child_graph.edges(data=True):\n                child_order = child_data.get(edge_attribute)\n                if child_order not in parent_orders:\n                    return False\n                parent_orders.remove(child_order)",
         new="            for a, b, child_data in child_graph.edges(data=True):\n                if not parent_graph.has_edge(a, b):\n                    return False"),
    dict(name="child first in SubgraphMatch", file=SM, expect="O7.1",
         old="        matcher = GraphMatcher(\n            parent_graph, child_graph, node_match=node_match, edge_match=edge_match\n        )",
         new="        matcher = GraphMatcher(\n            child_graph, parent_graph, node_match=node_match, edge_match=edge_match\n        )"),
    dict(name="modes swapped in graph_morphism", file=MO, expect="O7.1",
         old='    if check_type == "induced":\n        return matcher.subgraph_is_isomorphic()\n    else:\n        return matcher.subgraph_is_monomorphic()',
         new='    if check_type == "induced":\n        return matcher.subgraph_is_monomorphic()\n    else:\n        return matcher.subgraph_is_isomorphic()'),
    dict(name="isomorphic() answers True for proper subgraphs", file=GM, expect="O7.1",
         old="        gm = _NXGraphMatcher(g1, g2, node_match=self._nm, edge_match=self._em)\n        return (", new="        gm = _NXGraphMatcher(g2, g1, node_match=self._nm, edge_match=self._em)\n        return ("),
    dict(name="size filter uses >= on edges", file=SM, expect="O7.3",
         old="                or child_graph.number_of_edges() > parent_graph.number_of_edges()", new="                or child_graph.number_of_edges() >= parent_graph.number_of_edges()"),
    dict(name="pre_check rejects equal node counts", file=GM, expect="O7.3",
         old="            host.number_of_nodes() < pattern.number_of_nodes()\n            or host.number_of_edges() < pattern.number_of_edges()\n        ):\n            return False",
         new="            host.number_of_nodes() <= pattern.number_of_nodes()\n            or host.number_of_edges() < pattern.number_of_edges()\n        ):\n            return False"),
    dict(name="quick filter strict degree", file=SM, expect="O7.4", old="                and host.degree(_) >= pat_deg", new="                and host.degree(_) > pat_deg"),
    dict(name="quick filter compares edge attrs on nodes", file=SM, expect="O7.4",
         old='                and host_data.get("hcount", 0) >= pat_data.get("hcount", 0)\n                and host.degree(_) >= pat_deg',
         new='                and host_data.get("hcount", 0) == pat_data.get("hcount", 0)\n                and host.degree(_) >= pat_deg'),
    dict(name="compiled nm flips hcount", file=GM, expect="O7.4",
         old='            # … plus host‑≥‑pattern for "hcount" if present.\n            return nh.get("hcount", 0) >= np.get("hcount", 0)',
         new='            return np.get("hcount", 0) >= nh.get("hcount", 0)'),
    dict(name="compiled em ignores attributes", file=GM, expect="O7.4",
         old="            for k in _attrs:\n                if eh.get(k) != ep.get(k):\n                    return False\n            return True", new="            return True"),
    dict(name="mapping returned without verdict", file=MO, expect="O7.1",
         old="    if matcher.is_isomorphic():\n        log.debug(\"Graphs are isomorphic; mapping found\")\n        return matcher.mapping",
         new="    if matcher.subgraph_is_isomorphic():\n        log.debug(\"Graphs are isomorphic; mapping found\")\n        return matcher.mapping"),
]

TWINS = [
    dict(name="keyword matcher construction", file=GM,
         old="gm = _NXGraphMatcher(host, pattern, node_match=self._nm, edge_match=self._em)", new="gm = _NXGraphMatcher(G1=host, G2=pattern, node_match=self._nm, edge_match=self._em)"),
    dict(name="inverting with explicit loop names", file=GM,
         old="            return [{p: h for h, p in gm.mapping.items()}]", new="            return [{pn: hn for hn, pn in gm.mapping.items()}]"),
    dict(name="size test via len()", file=SM,
         old="                child_graph.number_of_nodes() > parent_graph.number_of_nodes()\n                or child_graph.number_of_edges() > parent_graph.number_of_edges()",
         new="                len(child_graph) > len(parent_graph)\n                or len(child_graph.edges) > len(parent_graph.edges)"),
]
