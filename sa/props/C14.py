"""C14 - batching, parallelism and caching are operational only: results never change."""
from __future__ import annotations

import ast

from ..absval import Lin, Undecided, linform
from ..core import (AnalysisError, call_name, dotted, is_const, kwarg, local_defs, norm, origin, parent_map,
                    walk_local)
from ..facts import guards_of, returns_of, enclosing_loops, default_of
from ..rules.memo import id_calls, memo_sites

BR = "synkit/Synthesis/Reactor/batch_reactor.py"
BC = "synkit/Graph/Matcher/batch_cluster.py"
CRN = "synkit/CRN/DAG/syncrn.py"
AV = "synkit/Chem/Reaction/aam_validator.py"
BL = "synkit/Chem/Reaction/balance_check.py"

UNORDERED = {"as_completed", "imap_unordered", "wait", "add_done_callback"}

META = {
    "explanation": (
        "R1 on the rule-application cache: the key is (id(substrate), id(rule), invert); every id() key component must "
        "have its object retained by the entry (substrate graphs are created and dropped per batch entry, so an "
        "unretained id can be reused and a later entry inherits an earlier result); every other input of the cached "
        "call is fixed per applier instance. R8 at the five anchored parallel sites (and, as NOTEs, package-wide): only "
        "order-preserving primitives (joblib.Parallel over a generator without return_as, Executor.map); the serial "
        "and the parallel branch apply the same callee to the same argument tuple over the same iterable; workers write "
        "no shared state other than that cache. R7: _dedupe is an order-preserving filter. Batching: batch_dicts is a "
        "contiguous in-order cover, batches are processed in order with the template list threaded through."
    ),
    "rules": {"R1": "memo-key completeness + identity retention", "R8": "order-preserving parallel map, serial/parallel agreement, worker effects",
              "R7": "filter shape (sub-list in original order)", "BATCH": "contiguous in-order cover, threaded state"},
    "not_decided": "equality of batched and one-shot class numbering in BatchCluster (different algorithms; partition equality is C13's); process-pool scheduling itself",
    "trusted_base": ["CPython ast", "sa/* analyser", "joblib.Parallel returns results in submission order (default return_as='list')",
                     "concurrent.futures.Executor.map yields in input order", "CPython id() is unique only among live objects"],
    "assumptions": ["worker processes receive pickled copies (loky), so per-process caches cannot leak between entries of different processes"],
}


def run(rep):
    rep.run(cache)
    sites = parallel_sites(rep)
    rep.run(agreement, sites)
    rep.run(effects)
    rep.run(dedupe)
    rep.run(batching)
    rep.run(sweep)


# ------------------------------------------------------------------ O14.1
def cache(rep):
    fi = rep.f(BR, "_RuleApplier.__call__")
    ss = memo_sites(rep.repo, fi, {"_cache"})
    rep.need("R1", len(ss), 1, "memo store into _RuleApplier._cache")
    for s in ss:
        key = f"key=({', '.join(norm(k) for k in s.key_parts)})"
        rep.ob("O14.1", "R1", fi, s.compute is not None and call_name(s.compute) == "_execute", s.store, "the cached value is the rule application result", node=s.store)
        if not s.problems:
            rep.ob("O14.1", "R1", fi, True, key, "every input of the cached call is in the key or fixed per applier; every id() in the key has its object retained by the entry",
                   {"inputs": [t for t, _ in s.inputs], "covered": s.covered, "cache_level": s.cache_level}, node=s.store)
        for kind, node, msg in s.problems:
            rep.ob("O14.1", "R1", fi, False, f"{key} [{kind}] {norm(node)[:40]}", msg, {"inputs": [t for t, _ in s.inputs], "stored": norm(s.value)}, node=node)
    # the hit path must not return a value for a different object: either retention (checked above) or identity check
    defs = local_defs(fi.node)
    pm = parent_map(fi.node)
    hits = [r for r in returns_of(fi.node) if r.value is not None and ("hit" in norm(r.value) or "_cache[" in norm(r.value))]
    for r in hits:
        gs = [norm(t) for t, s_ in guards_of(pm, r, fi.node) if s_]
        rep.ob("O14.1", "R1", fi, bool(gs), f"{norm(r)} under {gs}", "a cached result is returned only on a guarded hit", node=r)
    # cache off => plain execution
    first = [st for st in fi.node.body if isinstance(st, ast.If) and norm(st.test) == "self._cache is None"]
    ok = bool(first) and isinstance(first[0].body[0], ast.Return) and norm(first[0].body[0].value) == "self._execute(substrate, rule, inv)"
    rep.ob("O14.1", "R1", fi, ok, first[0].test if first else "cache off", "with the cache off the rule is simply applied")
    # eviction only removes entries
    ev = [c for c in walk_local(fi.node) if isinstance(c, ast.Call) and norm(c.func) == "self._cache.pop"]
    rep.ob("O14.1", "R1", fi, all(norm(c.args[0]) == "next(iter(self._cache))" for c in ev), [norm(c)[:50] for c in ev], "eviction drops the oldest entry (never rewrites one)")
    ex = rep.f(BR, "_RuleApplier._execute")
    rets = returns_of(ex.node)
    c = rets[-1].value if rets else None
    ok = isinstance(c, ast.Call) and call_name(c) == "_apply_rule_raw" and [norm(a) for a in c.args[:3]] == ["substrate", "rule", "inv"]
    rep.ob("O14.1", "R1", ex, ok, c if c is not None else "return", "cached and uncached paths run the same computation on (substrate, rule, invert)")


# ------------------------------------------------------------------ O14.2
def _parallel_constructs(fi):
    """[(kind, call, callee_text, arg_texts, iter_text)]"""
    out = []
    for c in [n for n in walk_local(fi.node, into_nested=False) if isinstance(n, ast.Call)]:
        # joblib: Parallel(...)(delayed(f)(args) for x in xs)
        if isinstance(c.func, ast.Call) and call_name(c.func) == "Parallel" and c.args and isinstance(c.args[0], (ast.GeneratorExp, ast.ListComp)):
            g = c.args[0]
            elt = g.elt
            callee, args = None, []
            if isinstance(elt, ast.Call) and isinstance(elt.func, ast.Call) and call_name(elt.func) == "delayed" and elt.func.args:
                callee = norm(elt.func.args[0])
                args = [norm(a) for a in elt.args] + [f"{k.arg}={norm(k.value)}" for k in elt.keywords]
            ras = kwarg(c.func, "return_as")
            out.append(("joblib", c, callee, args, norm(g.generators[0].iter), norm(g.generators[0].target), ras))
        # executor.map(f, xs)
        if isinstance(c.func, ast.Attribute) and c.func.attr == "map" and len(c.args) >= 2 and norm(c.func.value) in ("ex", "executor", "pool", "self._executor"):
            out.append(("executor.map", c, norm(c.args[0]), ["<item>"], norm(c.args[1]), "<item>", None))
        if isinstance(c.func, (ast.Attribute, ast.Name)) and call_name(c) in UNORDERED:
            out.append(("unordered", c, call_name(c), [], "", "", None))
        if isinstance(c.func, ast.Attribute) and c.func.attr == "submit" and norm(c.func.value) in ("ex", "executor", "pool"):
            out.append(("submit", c, norm(c.args[0]) if c.args else None, [], "", "", None))
    return out


ANCHORED = [(BR, "BatchReactor.fit"), (BR, "BatchReactor._apply_bulk"), (CRN, "SynCRN._run_tasks"),
            (AV, "AAMValidator.validate_smiles"), (BL, "BalanceReactionCheck.dicts_balance_check")]


def parallel_sites(rep):
    sites = {}
    n = 0
    for rel, q in ANCHORED:
        fi = rep.f(rel, q)
        pcs = _parallel_constructs(fi)
        sites[(rel, q)] = pcs
        for kind, c, callee, args, it, tgt, ras in pcs:
            n += 1
            if kind in ("unordered", "submit"):
                rep.ob("O14.2", "R8", fi, False, c, f"`{callee}` delivers results in completion order: the output order (and any order-dependent consumer) depends on scheduling", node=c)
                continue
            ok = ras is None or (isinstance(ras, ast.Constant) and ras.value in ("list", "generator"))
            rep.ob("O14.2", "R8", fi, ok and callee is not None, c.func if kind == "joblib" else c,
                   f"{kind}: results come back in submission order (callee {callee})", {"iterates": it, "return_as": norm(ras) if ras is not None else None}, node=c)
        if not pcs:
            rep.ob("O14.2", "R8", fi, None, q, "no parallel construct found at an anchored parallel site", node=fi.node)
    rep.need("R8", n, 5, "parallel constructs at the anchored sites")
    return sites


def agreement(rep, sites):
    # BatchReactor.fit
    fi = rep.f(BR, "BatchReactor.fit")
    pcs = [p for p in sites[(BR, "BatchReactor.fit")] if p[0] == "joblib"]
    serial = [n for n in walk_local(fi.node) if isinstance(n, ast.ListComp) and isinstance(n.elt, ast.Call) and not isinstance(n.elt.func, ast.Call)
              and call_name(n.elt) == "worker"]
    if pcs and serial:
        k, c, callee, args, it, tgt, _ = pcs[0]
        s = serial[0]
        s_args = [norm(a) for a in s.elt.args]
        ok = callee == norm(s.elt.func) and [a.replace(tgt, "$") for a in args] == [a.replace(norm(s.generators[0].target), "$") for a in s_args] \
            and it == norm(s.generators[0].iter)
        rep.ob("O14.3", "R8", fi, ok, f"serial {norm(s)[:50]} / parallel {callee}({', '.join(args)}) for {tgt} in {it}",
               "serial and parallel branches apply the same worker to the same entries in the same order")
    else:
        rep.ob("O14.3", "R8", fi, None, "fit", "serial/parallel pair not recognised", node=fi.node)
    # _apply_bulk
    fi = rep.f(BR, "BatchReactor._apply_bulk")
    pcs = [p for p in sites[(BR, "BatchReactor._apply_bulk")] if p[0] == "joblib"]
    serial = [n for n in walk_local(fi.node) if isinstance(n, ast.ListComp) and isinstance(n.elt, ast.Call) and norm(n.elt.func) == "self._apply_rule"]
    if pcs and serial:
        k, c, callee, args, it, tgt, _ = pcs[0]
        s = serial[0]
        ok = callee == norm(s.elt.func) and args == [norm(a) for a in s.elt.args] and it == norm(s.generators[0].iter) and tgt == norm(s.generators[0].target)
        rep.ob("O14.3", "R8", fi, ok, f"serial {norm(s)[:60]} / parallel {callee}({', '.join(args)}) for {tgt} in {it}",
               "per-rule application: same callee, same (substrate, rule, invert), same rule order in both branches")
    else:
        rep.ob("O14.3", "R8", fi, None, "_apply_bulk", "serial/parallel pair not recognised", node=fi.node)
    defs = local_defs(fi.node)
    flat = origin(defs, ast.Name(id="flat", ctx=ast.Load()))
    ok = isinstance(flat, ast.ListComp) and norm(flat).replace(" ", "") == "[xforsubinnestedforxinsub]"
    rep.ob("O14.3", "R8", fi, ok, flat, "per-rule results are concatenated in rule order")
    rets = returns_of(fi.node)
    ok = bool(rets) and norm(rets[-1].value) == "_dedupe(flat) if self._dedupe else flat"
    rep.ob("O14.3", "R8", fi, ok, rets[-1] if rets else "return", "the result is the concatenation, optionally de-duplicated in order")
    # SynCRN._run_tasks
    fi = rep.f(CRN, "SynCRN._run_tasks")
    pcs = [p for p in sites[(CRN, "SynCRN._run_tasks")] if p[0] == "executor.map"]
    ser = [c for c in walk_local(fi.node) if isinstance(c, ast.Call) and norm(c.func) == "results.append" and isinstance(c.args[0], ast.Call)]
    if pcs and ser:
        k, c, callee, args, it, tgt, _ = pcs[0]
        sc = ser[0].args[0]
        pm = parent_map(fi.node)
        lp = enclosing_loops(pm, ser[0], fi.node)
        ok = callee == norm(sc.func) and lp and norm(lp[0].iter) == it and [norm(a) for a in sc.args] == [norm(lp[0].target)]
        rep.ob("O14.3", "R8", fi, ok, f"serial {norm(sc)} for {norm(lp[0].target) if lp else '?'} in {norm(lp[0].iter) if lp else '?'} / parallel ex.map({callee}, {it})",
               "network expansion: same worker over the same task list in both branches")
        # the parallel branch stores what the worker returned, unchanged
        par = [c2 for c2 in walk_local(fi.node) if isinstance(c2, ast.Call) and norm(c2.func) == "results.append" and isinstance(c2.args[0], ast.Tuple)]
        ploop = [l for l in walk_local(fi.node) if isinstance(l, ast.For) and l.iter is c]
        ok2 = bool(par) and bool(ploop) and norm(par[0].args[0]) == norm(ploop[0].target) if par and ploop else False
        if par and ploop:
            ok2 = [norm(e) for e in par[0].args[0].elts] == [norm(e) for e in ploop[0].target.elts]
        rep.ob("O14.3", "R8", fi, ok2, par[0] if par else "results.append", "the parallel branch records each worker result unchanged, in order")
    elif not any(p[0] in ("unordered", "submit") for p in sites[(CRN, "SynCRN._run_tasks")]):
        rep.ob("O14.3", "R8", fi, None, "_run_tasks", "serial/parallel pair not recognised", node=fi.node)
    w = rep.f(CRN, "_apply_rule_worker") if rep.repo.maybe_func(CRN, "_apply_rule_worker") else None
    if w is not None:
        gl = [n for n in walk_local(w.node) if isinstance(n, (ast.Global, ast.Nonlocal))]
        rep.ob("O14.3", "R8", w, not gl, gl[0] if gl else "no global state", "the expansion worker is a pure function of its task tuple")
    # validators: single joblib site each, results consumed positionally
    fi = rep.f(AV, "AAMValidator.validate_smiles")
    for k, c, callee, args, it, tgt, _ in sites[(AV, "AAMValidator.validate_smiles")]:
        ok = callee == "AAMValidator.check_pair" and args[:3] == [tgt, "mapped_col", "ground_truth_col"] and it == "mappings"
        rep.ob("O14.3", "R8", fi, ok, f"{callee}({', '.join(args)}) for {tgt} in {it}", "validation checks every row once with that row's own columns", node=c)
    fi = rep.f(BL, "BalanceReactionCheck.dicts_balance_check")
    for k, c, callee, args, it, tgt, _ in sites[(BL, "BalanceReactionCheck.dicts_balance_check")]:
        ok = callee == "self.dict_balance_check" and args == [tgt, "rsmi_column"] and it == "reactions"
        rep.ob("O14.3", "R8", fi, ok, f"{callee}({', '.join(args)}) for {tgt} in {it}", "balance checking processes every reaction once with its own record", node=c)
    defs = local_defs(fi.node)
    b = origin(defs, ast.Name(id="balanced", ctx=ast.Load()))
    u = origin(defs, ast.Name(id="unbalanced", ctx=ast.Load()))
    ok = norm(b).replace(" ", "") == "[rforrinresultsifr['balanced']]" and norm(u).replace(" ", "") == "[rforrinresultsifnotr['balanced']]"
    rep.ob("O14.3", "R7", fi, ok, "balanced / unbalanced", "the two result lists are order-preserving filters that together cover all results")


# ------------------------------------------------------------------ worker effects
def effects(rep):
    fi = rep.f(BR, "BatchReactor.fit")
    worker = rep.f(BR, "BatchReactor.fit.<locals>.worker")
    writes = []
    for fn in (worker, rep.f(BR, "BatchReactor._apply_bulk"), rep.f(BR, "BatchReactor._to_graph")):
        for n in walk_local(fn.node):
            tg = []
            if isinstance(n, ast.Assign):
                tg = n.targets
            elif isinstance(n, (ast.AugAssign, ast.AnnAssign)):
                tg = [n.target]
            for t in tg:
                for tt in (t.elts if isinstance(t, ast.Tuple) else [t]):
                    if isinstance(tt, (ast.Attribute, ast.Subscript)) and norm(tt).startswith("self."):
                        writes.append((fn, n))
            if isinstance(n, (ast.Global, ast.Nonlocal)):
                writes.append((fn, n))
            if isinstance(n, ast.Call) and isinstance(n.func, ast.Attribute) and norm(n.func.value).startswith("self._data") \
                    and n.func.attr in ("append", "extend", "pop", "sort", "clear", "insert", "remove"):
                writes.append((fn, n))
    if not writes:
        rep.ob("O14.3", "R8", worker, True, "worker / _apply_bulk / _to_graph", "the per-entry worker writes no shared state (its only side effect is the result cache checked under O14.1)", node=worker.node)
    for fn, n in writes:
        rep.ob("O14.3", "R8", fn, False, n, "a per-entry worker must not write shared state (results would depend on batch order / process assignment)", node=n)
    # the worker's result depends on the entry only through its graph and the shared rule list
    wd = local_defs(worker.node)
    g = origin(wd, ast.Name(id="g", ctx=ast.Load()))
    ok = norm(g) == "self._to_graph(entry)"
    rep.ob("O14.3", "R8", worker, ok, g, "each entry is converted on its own")
    ab = [c for c in walk_local(worker.node) if isinstance(c, ast.Call) and norm(c.func) == "self._apply_bulk"]
    ok = bool(ab) and [norm(a) for a in ab[0].args] == ["g", "filtered", "invert"]
    rep.ob("O14.3", "R8", worker, ok, ab[0] if ab else "_apply_bulk", "and the rules are applied to exactly that entry's graph")


# ------------------------------------------------------------------ R7
def dedupe(rep):
    fi = rep.f(BR, "_dedupe")
    pm = parent_map(fi.node)
    loops = [l for l in walk_local(fi.node) if isinstance(l, ast.For)]
    ok_loop = len(loops) == 1 and norm(loops[0].iter) == fi.params[0]
    rep.ob("O14.3", "R7", fi, ok_loop, loops[0].iter if loops else "for", "de-duplication scans the input once, in order")
    if not loops:
        return
    lp = loops[0]
    x = norm(lp.target)
    apps = [c for c in walk_local(fi.node) if isinstance(c, ast.Call) and call_name(c) in ("append", "insert", "extend", "sort", "reverse") and norm(c.func.value) == "out"]
    ok = len(apps) == 1 and call_name(apps[0]) == "append" and norm(apps[0].args[0]) == x
    rep.ob("O14.3", "R7", fi, ok, [norm(a) for a in apps], "the result is built only by appending the scanned element itself (sub-list in original order)")
    if apps:
        gs = [(norm(t).replace(" ", ""), s) for t, s in guards_of(pm, apps[0], lp)]
        rep.ob("O14.3", "R7", fi, gs == [(f"{x}notinseen", True)], f"append under {gs}", "an element is kept iff it was not seen before")
        adds = [c for c in walk_local(lp) if isinstance(c, ast.Call) and norm(c.func) == "seen.add" and norm(c.args[0]) == x]
        rep.ob("O14.3", "R7", fi, len(adds) == 1 and guards_of(pm, adds[0], lp) == guards_of(pm, apps[0], lp), adds[0] if adds else "seen.add", "and is then marked as seen")
    rets = returns_of(fi.node)
    rep.ob("O14.3", "R7", fi, bool(rets) and norm(rets[-1].value) == "out", rets[-1] if rets else "return", "the filtered list is returned (no set() round trip, no sort)")


# ------------------------------------------------------------------ batching
def batching(rep):
    bd = rep.f(BC, "BatchCluster.batch_dicts")
    loops = [l for l in walk_local(bd.node) if isinstance(l, ast.For)]
    rep.need("BATCH", len(loops), 1, "batch loop in batch_dicts")
    lp = loops[0]
    ok = None
    P = bd.params
    try:
        r = lp.iter
        a = [norm(x).replace(" ", "") for x in r.args]
        ok = call_name(r) == "range" and a == ["0", f"len({P[0]})", P[1]]
    except Exception:
        ok = None
    rep.ob("O14.4", "BATCH", bd, ok, lp.iter, "batches start at 0, step by batch_size and run to the end of the list")
    i = norm(lp.target)
    apps = [c for c in walk_local(lp) if isinstance(c, ast.Call) and norm(c.func) == "batches.append"]
    ok = False
    if apps and isinstance(apps[0].args[0], ast.Subscript) and isinstance(apps[0].args[0].slice, ast.Slice):
        sl = apps[0].args[0].slice
        try:
            lo = linform(sl.lower, lambda n: n.id if isinstance(n, ast.Name) else None)
            hi = linform(sl.upper, lambda n: n.id if isinstance(n, ast.Name) else None)
            ok = lo == Lin({i: 1}) and hi == Lin({i: 1, P[1]: 1}) and norm(apps[0].args[0].value) == P[0] and sl.step is None
        except Undecided:
            ok = None
    rep.ob("O14.4", "BATCH", bd, ok, apps[0] if apps else "batches.append", "each batch is the contiguous slice [i, i + batch_size): every entry lands in exactly one batch, order kept")
    ft = rep.f(BC, "BatchCluster.fit")
    pm = parent_map(ft.node)
    bl = [l for l in walk_local(ft.node) if isinstance(l, ast.For) and norm(l.iter) == "batches"]
    rep.need("BATCH", len(bl), 1, "batch loop in BatchCluster.fit")
    lp = bl[0]
    cl = [c for c in walk_local(lp) if isinstance(c, ast.Call) and norm(c.func) == "self.cluster"]
    ok = bool(cl) and [norm(a) for a in cl[0].args[:2]] == [norm(lp.target), "output_templates"]
    rep.ob("O14.4", "BATCH", ft, ok, cl[0] if cl else "self.cluster", "each batch is classified against the templates accumulated so far")
    ext = [c for c in walk_local(lp) if isinstance(c, ast.Call) and norm(c.func) == "output_data.extend"]
    thr = [n for n in lp.body if isinstance(n, ast.Assign) and norm(n.targets[0]) == "output_templates"]
    d = local_defs(ft.node)
    up = [x for x in d.get("new_templates", []) if x.index is not None]
    ok = bool(ext) and norm(ext[0].args[0]) == "processed_data" and bool(thr) and norm(thr[0].value) == "new_templates" and bool(up) and up[0].index == (1,)
    rep.ob("O14.4", "BATCH", ft, ok, "output_data.extend(processed_data); output_templates = new_templates", "results are concatenated in batch order and the templates are threaded to the next batch")
    exits = [n for n in walk_local(lp) if isinstance(n, (ast.Break, ast.Continue, ast.Return))]
    rep.ob("O14.4", "BATCH", ft, not exits, [type(e).__name__ for e in exits], "no batch is skipped")
    cu = rep.f(BC, "BatchCluster.cluster")
    l2 = [l for l in walk_local(cu.node) if isinstance(l, ast.For)]
    ok = len(l2) == 1 and norm(l2[0].iter) == "data" and any(isinstance(n, ast.Assign) and "templates" in norm(n.targets[0]) and "self.lib_check(entry, templates" in norm(n.value) for n in l2[0].body)
    rep.ob("O14.4", "BATCH", cu, ok, l2[0].iter if l2 else "for", "within a batch entries are classified one by one against the growing template list (same as one long batch)")


# ------------------------------------------------------------------ package-wide sweep (notes only)
def sweep(rep):
    n_sites, unordered = 0, []
    for fi in rep.repo.all_funcs():
        if ".<locals>." in fi.qual:
            continue
        for kind, c, callee, args, it, tgt, ras in _parallel_constructs(fi):
            n_sites += 1
            if kind in ("unordered", "submit") or (ras is not None and not (isinstance(ras, ast.Constant) and ras.value in ("list", "generator"))):
                if (fi.rel, fi.qual) not in ANCHORED:
                    unordered.append(f"{fi.key}:{c.lineno} {kind} {callee}")
    rep.extra["parallel_sites_package_wide"] = n_sites
    rep.extra["non_order_preserving_sites_elsewhere"] = unordered
    for u in unordered:
        rep.note(f"C14 sweep: completion-order primitive outside the anchored sites: {u}")
    ids = []
    for fi in rep.repo.all_funcs():
        if ".<locals>." in fi.qual:
            continue
        for c in id_calls(fi.node):
            ids.append(f"{fi.key}:{c.lineno} {norm(c)[:40]}")
    rep.extra["id_uses_package_wide"] = ids


MUTANTS = [
    dict(name="revert F-C14 (ids of dropped objects as key)", revert_patch="notes/fixes/C14.patch", expect="O14.1"),
    dict(name="entry keeps only the rule alive", file=BR, expect="O14.1",
         edits=[(BR, "        self._cache[key] = (substrate, rule, res)", "        self._cache[key] = (None, rule, res)"),
                (BR, "        if hit is not None and hit[0] is substrate and hit[1] is rule:", "        if hit is not None and hit[1] is rule:")]),
    dict(name="invert dropped from the key", file=BR, expect="O14.1", old="        key = (id(substrate), id(rule), inv)", new="        key = (id(substrate), id(rule))"),
    dict(name="strategy becomes mutable per call", file=BR, expect="O14.1",
         old="        if self._cache is None:\n            return self._execute(substrate, rule, inv)\n", new="        if self._cache is None:\n            return self._execute(substrate, rule, inv)\n        self._strategy = 'all' if inv else self._strategy\n"),
    dict(name="joblib unordered generator", file=BR, expect="O14.2",
         old='            nested = Parallel(n_jobs=jobs, backend="loky", prefer="processes")(', new='            nested = Parallel(n_jobs=jobs, backend="loky", prefer="processes", return_as="generator_unordered")('),
    dict(name="executor.map replaced by as_completed", file=CRN, expect="O14.2",
         old="                for idx, mix_keys, products_list in ex.map(_apply_rule_worker, tasks):\n                    results.append((idx, mix_keys, products_list))",
         new="                from concurrent.futures import as_completed\n                futs = [ex.submit(_apply_rule_worker, t) for t in tasks]\n                for f in as_completed(futs):\n                    results.append(f.result())"),
    dict(name="parallel branch applies rules without invert", file=BR, expect="O14.3",
         old="                delayed(self._apply_rule)(g, r, invert) for r in rules", new="                delayed(self._apply_rule)(g, r, False) for r in rules"),
    dict(name="parallel branch iterates rules reversed", file=BR, expect="O14.3",
         old="                delayed(self._apply_rule)(g, r, invert) for r in rules", new="                delayed(self._apply_rule)(g, r, invert) for r in reversed(rules)"),
    dict(name="_dedupe through a set", file=BR, expect="O14.3",
         old="    seen: set[Any] = set()\n    out: List[Any] = []\n    for x in items:\n        if x not in seen:\n            seen.add(x)\n            out.append(x)\n    return out",
         new="    out: List[Any] = list(set(items))\n    return out"),
    dict(name="worker records entries on the reactor", file=BR, expect="O14.3",
         old="            out = self._apply_bulk(g, filtered, invert)\n", new="            out = self._apply_bulk(g, filtered, invert)\n            self._last_graph = g\n"),
    dict(name="batches overlap by one", file=BC, expect="O14.4", old="            batches.append(input_list[i: i + batch_size])", new="            batches.append(input_list[i: i + batch_size + 1])"),
    dict(name="templates not threaded between batches", file=BC, expect="O14.4",
         old="                output_data.extend(processed_data)\n                output_templates = new_templates", new="                output_data.extend(processed_data)"),
    dict(name="serial fit skips duplicates of the first entry", file=BR, expect="O14.3",
         old="            return [worker(e) for e in self._data]", new="            return [worker(e) for e in dict.fromkeys(self._data)]"),
    dict(name="validator checks the wrong column in parallel", file=AV, expect="O14.3",
         old="                    mapping,\n                    mapped_col,\n                    ground_truth_col,\n                    check_method,\n                    ignore_aromaticity,\n                    ignore_tautomers,\n                )\n                for mapping in mappings",
         new="                    mapping,\n                    mapped_cols[0],\n                    ground_truth_col,\n                    check_method,\n                    ignore_aromaticity,\n                    ignore_tautomers,\n                )\n                for mapping in mappings"),
]

TWINS = [
    dict(name="hit path without the identity re-check (retention alone is sound)", file=BR,
         old="        if hit is not None and hit[0] is substrate and hit[1] is rule:", new="        if hit is not None:"),
    dict(name="key built in two steps", file=BR,
         old="        key = (id(substrate), id(rule), inv)", new="        ids = (id(substrate), id(rule))\n        key = ids + (inv,)"),
]
