"""C14 - batching, parallelism and caching are operational only: results never change."""
from __future__ import annotations

import ast

from ..pattern import pmatch, pfind, pall

from ..absval import Lin, Undecided, linform
from ..core import (alpha, AnalysisError, call_name, dotted, is_const, kwarg, local_defs, norm, origin, parent_map,
                    walk_local)
from ..facts import iterations, if_leaves, guards_of, returns_of, enclosing_loops, default_of
from ..rules.memo import id_calls, memo_sites

BR = "synkit/Synthesis/Reactor/batch_reactor.py"
BC = "synkit/Graph/Matcher/batch_cluster.py"
CRN = "synkit/CRN/DAG/syncrn.py"
AV = "synkit/Chem/Reaction/aam_validator.py"
BL = "synkit/Chem/Reaction/balance_check.py"

UNORDERED = {"as_completed", "imap_unordered", "wait", "add_done_callback"}

META = {
    "explanation": (
        "R1 on the rule-application cache: the key is (id(substrate), id(rule), invert); every id() key component must "
        "have its object retained by the entry (substrate graphs are created and dropped per batch entry, so an "
        "unretained id can be reused and a later entry inherits an earlier result); every other input of the cached "
        "call is fixed per applier instance. R8 at the five anchored parallel sites (and, as NOTEs, package-wide): only "
        "order-preserving primitives (joblib.Parallel over a generator without return_as, Executor.map); the serial "
        "and the parallel branch apply the same callee to the same argument tuple over the same iterable; workers write "
        "no shared state other than that cache. R7: _dedupe is an order-preserving filter. Batching: batch_dicts is a "
        "contiguous in-order cover, batches are processed in order with the template list threaded through."
    ),
    "rules": {"R1": "memo-key completeness + identity retention", "R8": "order-preserving parallel map, serial/parallel agreement, worker effects",
              "R7": "filter shape (sub-list in original order)", "BATCH": "contiguous in-order cover, threaded state"},
    "not_decided": "equality of batched and one-shot class numbering in BatchCluster (different algorithms; partition equality is C13's); process-pool scheduling itself",
    "trusted_base": ["CPython ast", "sa/* analyser", "joblib.Parallel returns results in submission order (default return_as='list')",
                     "concurrent.futures.Executor.map yields in input order", "CPython id() is unique only among live objects"],
    "assumptions": ["worker processes receive pickled copies (loky), so per-process caches cannot leak between entries of different processes"],
}


def pickling(rep):
    """objects shipped to worker processes are rebuilt from their pickled state: a custom `__reduce__` must hand every configuration value to
    the parameter of the same name (two same-typed flags swapped on the way make a worker run with another configuration than the serial path)"""
    n = 0
    for rel in (BR, BC, CRN, AV, BL):
        mi = rep.repo.module(rel)
        for q, fi in mi.funcs.items():
            if not q.endswith(".__reduce__") and not q.endswith(".__reduce_ex__"):
                continue
            n += 1
            rep.touch(fi)
            for r in returns_of(fi.node):
                v = r.value
                if not (isinstance(v, ast.Tuple) and len(v.elts) >= 2 and isinstance(v.elts[1], ast.Tuple)):
                    rep.ob("O14.1", "R8", fi, None, r, "__reduce__ result not of the form (callable, (args..))", node=r)
                    continue
                cal = v.elts[0]
                target = mi.funcs.get(norm(cal)) if isinstance(cal, ast.Name) else None
                if target is None and isinstance(cal, ast.Name) and cal.id in mi.classes:
                    target = mi.funcs.get(f"{cal.id}.__init__")
                if target is None:
                    rep.ob("O14.1", "R8", fi, None, r, "reconstruction callable not found in the module", node=r)
                    continue
                params = [p_ for p_ in target.params if p_ not in ("self", "cls")]
                swapped = []
                for i, a in enumerate(v.elts[1].elts):
                    nm = a.attr.lstrip("_") if isinstance(a, ast.Attribute) and norm(a.value) == "self" else (a.id if isinstance(a, ast.Name) else None)
                    if nm is None or i >= len(params):
                        continue
                    if nm != params[i] and nm in params:
                        swapped.append(f"argument {i} is `{norm(a)}` but parameter {i} of {target.qual} is `{params[i]}`")
                rep.ob("O14.1", "R8", fi, not swapped, alpha(v, fi.node)[:90], "the pickled configuration reaches the like-named parameters of the reconstruction function" +
                       (": " + "; ".join(swapped[:2]) if swapped else ""), node=r)
    rep.extra["custom_reduce_methods"] = n


def run(rep):
    rep.run(pickling)
    rep.run(cache)
    sites = parallel_sites(rep)
    rep.run(agreement, sites)
    rep.run(effects)
    rep.run(dedupe)
    rep.run(batching)
    rep.run(cluster_state)
    rep.run(sweep)


# ------------------------------------------------------------------ O14.1
def cache(rep):
    fi = rep.f(BR, "_RuleApplier.__call__")
    ss = memo_sites(rep.repo, fi, {"_cache"})
    rep.need("R1", len(ss), 1, "memo store into _RuleApplier._cache")
    for s in ss:
        key = f"key=({', '.join(norm(k) for k in s.key_parts)})"
        rep.ob("O14.1", "R1", fi, s.compute is not None and call_name(s.compute) == "_execute", s.store, "the cached value is the rule application result", node=s.store)
        if not s.problems:
            rep.ob("O14.1", "R1", fi, True, key, "every input of the cached call is in the key or fixed per applier; every id() in the key has its object retained by the entry",
                   {"inputs": [t for t, _ in s.inputs], "covered": s.covered, "cache_level": s.cache_level}, node=s.store)
        for kind, node, msg in s.problems:
            rep.ob("O14.1", "R1", fi, False, f"{key} [{kind}] {norm(node)[:40]}", msg, {"inputs": [t for t, _ in s.inputs], "stored": norm(s.value)}, node=node)
    # the hit path must not return a value for a different object: either retention (checked above) or identity check
    defs = local_defs(fi.node)
    pm = parent_map(fi.node)
    def _from_cache(e):
        o = origin(defs, e)
        return any(isinstance(x, ast.Attribute) and x.attr == "_cache" for x in ast.walk(o)) or any(
            isinstance(x, ast.Attribute) and x.attr == "_cache" for y in ast.walk(e) if isinstance(y, ast.Name)
            for d_ in defs.get(y.id, []) if d_.value is not None for x in ast.walk(d_.value))
    hits = [r for r in returns_of(fi.node) if r.value is not None and _from_cache(r.value)]
    for r in hits:
        gs = [norm(t) for t, s_ in guards_of(pm, r, fi.node) if s_]
        rep.ob("O14.1", "R1", fi, bool(gs), f"{norm(r)} under {gs}", "a cached result is returned only on a guarded hit", node=r)
    # cache off => plain execution
    first = [st for st in fi.node.body if isinstance(st, ast.If) and norm(st.test) == "self._cache is None"]
    ok = bool(first) and isinstance(first[0].body[0], ast.Return) and norm(first[0].body[0].value) == f"self._execute({', '.join(fi.params[1:4])})"
    rep.ob("O14.1", "R1", fi, ok, first[0].test if first else "cache off", "with the cache off the rule is simply applied")
    # eviction only removes entries
    ev = [c for c in walk_local(fi.node) if isinstance(c, ast.Call) and norm(c.func) == "self._cache.pop"]
    rep.ob("O14.1", "R1", fi, all(norm(c.args[0]) == "next(iter(self._cache))" for c in ev), [norm(c)[:50] for c in ev], "eviction drops the oldest entry (never rewrites one)")
    ex = rep.f(BR, "_RuleApplier._execute")
    rets = returns_of(ex.node)
    c = rets[-1].value if rets else None
    ok = isinstance(c, ast.Call) and call_name(c) == "_apply_rule_raw" and [norm(a) for a in c.args[:3]] == ex.params[1:4]
    rep.ob("O14.1", "R1", ex, ok, c if c is not None else "return", "cached and uncached paths run the same computation on (substrate, rule, invert)")


# ------------------------------------------------------------------ O14.2
def _parallel_constructs(fi):
    """[(kind, call, callee_text, arg_texts, iter_text)]"""
    out = []
    for c in [n for n in walk_local(fi.node, into_nested=False) if isinstance(n, ast.Call)]:
        # joblib: Parallel(...)(delayed(f)(args) for x in xs)
        if isinstance(c.func, ast.Call) and call_name(c.func) == "Parallel" and c.args and isinstance(c.args[0], (ast.GeneratorExp, ast.ListComp)):
            g = c.args[0]
            elt = g.elt
            callee, args = None, []
            if isinstance(elt, ast.Call) and isinstance(elt.func, ast.Call) and call_name(elt.func) == "delayed" and elt.func.args:
                callee = norm(elt.func.args[0])
                args = [norm(a) for a in elt.args] + [f"{k.arg}={norm(k.value)}" for k in elt.keywords]
            ras = kwarg(c.func, "return_as")
            out.append(("joblib", c, callee, args, norm(g.generators[0].iter), norm(g.generators[0].target), ras))
        # executor.map(f, xs)
        execs = _executor_names(fi)
        if isinstance(c.func, ast.Attribute) and c.func.attr == "map" and len(c.args) >= 2 and norm(c.func.value) in execs:
            out.append(("executor.map", c, norm(c.args[0]), ["<item>"], norm(c.args[1]), "<item>", None))
        if isinstance(c.func, (ast.Attribute, ast.Name)) and call_name(c) in UNORDERED:
            out.append(("unordered", c, call_name(c), [], "", "", None))
        if isinstance(c.func, ast.Attribute) and c.func.attr == "submit" and norm(c.func.value) in execs:
            out.append(("submit", c, norm(c.args[0]) if c.args else None, [], "", "", None))
    return out


def _executor_names(fi):
    """names bound to a concurrent.futures executor in this function: `with XExecutor(..) as n`, `n = XExecutor(..)`, self._executor"""
    out = {"self._executor"}
    for n in walk_local(fi.node):
        if isinstance(n, ast.With):
            for it in n.items:
                if isinstance(it.context_expr, ast.Call) and call_name(it.context_expr).endswith("Executor") and it.optional_vars is not None:
                    out.add(norm(it.optional_vars))
        if isinstance(n, ast.Assign) and isinstance(n.value, ast.Call) and call_name(n.value).endswith("Executor"):
            out.add(norm(n.targets[0]))
    return out


ANCHORED = [(BR, "BatchReactor.fit"), (BR, "BatchReactor._apply_bulk"), (CRN, "SynCRN._run_tasks"),
            (AV, "AAMValidator.validate_smiles"), (BL, "BalanceReactionCheck.dicts_balance_check")]


def parallel_sites(rep):
    sites = {}
    n = 0
    for rel, q in ANCHORED:
        fi = rep.f(rel, q)
        pcs = _parallel_constructs(fi)
        sites[(rel, q)] = pcs
        for kind, c, callee, args, it, tgt, ras in pcs:
            n += 1
            if kind in ("unordered", "submit"):
                rep.ob("O14.2", "R8", fi, False, c, f"`{callee}` delivers results in completion order: the output order (and any order-dependent consumer) depends on scheduling", node=c)
                continue
            ok = ras is None or (isinstance(ras, ast.Constant) and ras.value in ("list", "generator"))
            rep.ob("O14.2", "R8", fi, ok and callee is not None, c.func if kind == "joblib" else c,
                   f"{kind}: results come back in submission order (callee {callee})", {"iterates": it, "return_as": norm(ras) if ras is not None else None}, node=c)
        if not pcs:
            rep.ob("O14.2", "R8", fi, None, q, "no parallel construct found at an anchored parallel site", node=fi.node)
    rep.need("R8", n, 5, "parallel constructs at the anchored sites")
    return sites


def agreement(rep, sites):
    # BatchReactor.fit
    fi = rep.f(BR, "BatchReactor.fit")
    pcs = [p for p in sites[(BR, "BatchReactor.fit")] if p[0] == "joblib"]
    serial = [n for n in walk_local(fi.node) if isinstance(n, ast.ListComp) and isinstance(n.elt, ast.Call) and not isinstance(n.elt.func, ast.Call)
              and call_name(n.elt) == "worker"]
    if pcs and serial:
        k, c, callee, args, it, tgt, _ = pcs[0]
        s = serial[0]
        s_args = [norm(a) for a in s.elt.args]
        ok = callee == norm(s.elt.func) and [a.replace(tgt, "$") for a in args] == [a.replace(norm(s.generators[0].target), "$") for a in s_args] \
            and it == norm(s.generators[0].iter)
        rep.ob("O14.3", "R8", fi, ok, f"serial {norm(s)[:50]} / parallel {callee}({', '.join(args)}) for {tgt} in {it}",
               "serial and parallel branches apply the same worker to the same entries in the same order")
    else:
        rep.ob("O14.3", "R8", fi, None, "fit", "serial/parallel pair not recognised", node=fi.node)
    # _apply_bulk
    fi = rep.f(BR, "BatchReactor._apply_bulk")
    pcs = [p for p in sites[(BR, "BatchReactor._apply_bulk")] if p[0] == "joblib"]
    serial = [n for n in walk_local(fi.node) if isinstance(n, ast.ListComp) and isinstance(n.elt, ast.Call) and norm(n.elt.func) == "self._apply_rule"]
    if pcs and serial:
        k, c, callee, args, it, tgt, _ = pcs[0]
        s = serial[0]
        ok = callee == norm(s.elt.func) and args == [norm(a) for a in s.elt.args] and it == norm(s.generators[0].iter) and tgt == norm(s.generators[0].target)
        rep.ob("O14.3", "R8", fi, ok, f"serial {norm(s)[:60]} / parallel {callee}({', '.join(args)}) for {tgt} in {it}",
               "per-rule application: same callee, same (substrate, rule, invert), same rule order in both branches")
    else:
        rep.ob("O14.3", "R8", fi, None, "_apply_bulk", "serial/parallel pair not recognised", node=fi.node)
    defs = local_defs(fi.node)
    rets = returns_of(fi.node)
    rm = pmatch("_dedupe($flat) if self._dedupe else $flat", rets[-1].value) if rets else None
    flat = origin(defs, ast.Name(id=rm["flat"], ctx=ast.Load())) if rm else None
    fm = pmatch("[$x for $sub in $nested for $x in $sub]", flat) if flat is not None else None
    # the concatenated list is the one both branches assign
    nested_srcs = [leaf for d_ in defs.get(fm["nested"], []) if d_.value is not None for leaf in if_leaves(d_.value)] if fm else []
    ok = fm is not None and bool(serial) and any(x is serial[0] for x in nested_srcs) and bool(pcs) and any(x is pcs[0][1] for x in nested_srcs)
    rep.ob("O14.3", "R8", fi, ok, flat if flat is not None else "flat", "per-rule results are concatenated in rule order")
    ok = rm is not None
    rep.ob("O14.3", "R8", fi, ok, rets[-1] if rets else "return", "the result is the concatenation, optionally de-duplicated in order")
    # SynCRN._run_tasks
    fi = rep.f(CRN, "SynCRN._run_tasks")
    pcs = [p for p in sites[(CRN, "SynCRN._run_tasks")] if p[0] == "executor.map"]
    pm = parent_map(fi.node)
    fdefs = local_defs(fi.node)
    rr = [r for r in returns_of(fi.node) if isinstance(r.value, ast.Name)]
    RES = rr[-1].value.id if rr else None
    # serial application: worker(t) for every t of an iteration, collected in order (appended in a loop, or a list comprehension)
    ser = []  # (call, iteration)
    for c_ in walk_local(fi.node):
        if isinstance(c_, ast.Call) and isinstance(c_.func, ast.Name) and len(c_.args) == 1 and not c_.keywords:
            its_ = iterations(pm, c_, fi.node)
            if not its_ or norm(c_.args[0]) != norm(its_[0].target):
                continue
            par_ = pm.get(c_)
            collected = (isinstance(par_, ast.ListComp) and par_.elt is c_ and len(par_.generators) == 1 and not its_[0].conds) or \
                (isinstance(par_, ast.Call) and RES and norm(par_.func) == f"{RES}.append" and isinstance(its_[0].holder, ast.For)
                 and not guards_of(pm, par_, its_[0].holder))
            if collected:
                ser.append((c_, its_[0]))
    if pcs and ser:
        k, c, callee, args, it, tgt, _ = pcs[0]
        sc, sit = ser[0]
        ok = callee == norm(sc.func) and norm(sit.iter) == it
        rep.ob("O14.3", "R8", fi, ok, f"serial {norm(sc)} for {norm(sit.target)} in {norm(sit.iter)} / parallel ex.map({callee}, {it})",
               "network expansion: same worker over the same task list in both branches")
        # the parallel branch stores what the worker returned, unchanged: list(ex.map(..)) / for r in ex.map(..): results.append(r)
        ok2 = False
        construct = "results.append"
        up = pm.get(c)
        if isinstance(up, ast.Call) and norm(up.func) == "list" and len(up.args) == 1:
            holder = pm.get(up)
            ok2 = isinstance(holder, ast.Return) or (isinstance(holder, ast.Assign) and RES is not None and norm(holder.targets[0]) == RES)
            construct = up
        elif isinstance(up, ast.Call) and RES and norm(up.func) == f"{RES}.extend":
            ok2, construct = True, up
        else:
            ploop = [l for l in walk_local(fi.node) if isinstance(l, ast.For) and l.iter is c]
            par = [c2 for l in ploop for c2 in walk_local(l) if isinstance(c2, ast.Call) and RES and norm(c2.func) == f"{RES}.append" and len(c2.args) == 1]
            if ploop and len(par) == 1 and not guards_of(pm, par[0], ploop[0]):
                a0, tg_ = par[0].args[0], ploop[0].target
                ok2 = norm(a0) == norm(tg_) or (isinstance(a0, ast.Tuple) and isinstance(tg_, ast.Tuple) and [norm(e) for e in a0.elts] == [norm(e) for e in tg_.elts])
                construct = par[0]
        rep.ob("O14.3", "R8", fi, ok2, construct, "the parallel branch records each worker result unchanged, in order")
    elif not any(p[0] in ("unordered", "submit") for p in sites[(CRN, "SynCRN._run_tasks")]):
        rep.ob("O14.3", "R8", fi, None, "_run_tasks", "serial/parallel pair not recognised", node=fi.node)
    w = rep.f(CRN, "_apply_rule_worker") if rep.repo.maybe_func(CRN, "_apply_rule_worker") else None
    if w is not None:
        gl = [n for n in walk_local(w.node) if isinstance(n, (ast.Global, ast.Nonlocal))]
        from ..rules.provenance import module_memos
        memos = module_memos(w.module)
        wl_ = {n.id for n in walk_local(w.node) if isinstance(n, ast.Name) and isinstance(n.ctx, ast.Store)}
        reads = [n for n in walk_local(w.node) if isinstance(n, ast.Name) and isinstance(n.ctx, ast.Load) and n.id in memos and n.id not in wl_ and n.id not in w.params]
        rep.ob("O14.3", "R8", w, not gl and not reads, gl[0] if gl else (reads[0] if reads else "no global state"),
               "the expansion worker is a pure function of its task tuple" + (f" (it reads the process-level container `{reads[0].id}`, which only worker processes "
                                                                                "fill: serial and parallel runs apply different templates)" if reads else ""))
    # validators: single joblib site each, results consumed positionally
    fi = rep.f(AV, "AAMValidator.validate_smiles")
    for k, c, callee, args, it, tgt, _ in sites[(AV, "AAMValidator.validate_smiles")]:
        d_av = local_defs(fi.node)
        pm_av = parent_map(fi.node)
        col_loops = enclosing_loops(pm_av, c, fi.node)
        col = norm(col_loops[0].target) if col_loops else None
        it_src = {norm(d_.value) for d_ in d_av.get(it, []) if d_.kind == "assign"}
        ok = callee == "AAMValidator.check_pair" and args[:3] == [tgt, col, "ground_truth_col"] and it_src == {"data", "data.to_dict('records')"}
        rep.ob("O14.3", "R8", fi, ok, f"{callee}({', '.join(args)}) for {tgt} in {it}", "validation checks every row once with that row's own columns", node=c)
    fi = rep.f(BL, "BalanceReactionCheck.dicts_balance_check")
    for k, c, callee, args, it, tgt, _ in sites[(BL, "BalanceReactionCheck.dicts_balance_check")]:
        ok = callee == "self.dict_balance_check" and args == [tgt, "rsmi_column"] and \
            norm(origin(local_defs(fi.node), ast.Name(id=it, ctx=ast.Load()))) == "self.parse_input(input_data, rsmi_column)"
        rep.ob("O14.3", "R8", fi, ok, f"{callee}({', '.join(args)}) for {tgt} in {it}", "balance checking processes every reaction once with its own record", node=c)
    defs = local_defs(fi.node)
    rets = returns_of(fi.node)
    ok = False
    rm = pmatch("($b, $u)", rets[-1].value) if rets else None
    pj = [p for p in sites[(BL, "BalanceReactionCheck.dicts_balance_check")] if p[0] == "joblib"]
    if rm and pj:
        b = origin(defs, ast.Name(id=rm["b"], ctx=ast.Load()))
        u = origin(defs, ast.Name(id=rm["u"], ctx=ast.Load()))
        mb, mu = pmatch("[$r for $r in $res if $r['balanced']]", b), pmatch("[$r for $r in $res if not $r['balanced']]", u)
        ok = mb is not None and mu is not None and mb["res"] == mu["res"] and any(d_.value is pj[0][1] for d_ in defs.get(mb["res"], []))
    rep.ob("O14.3", "R7", fi, ok, "balanced / unbalanced", "the two result lists are order-preserving filters that together cover all results")


# ------------------------------------------------------------------ worker effects
def effects(rep):
    fi = rep.f(BR, "BatchReactor.fit")
    worker = rep.f(BR, "BatchReactor.fit.<locals>.worker")
    writes = []
    for fn in (worker, rep.f(BR, "BatchReactor._apply_bulk"), rep.f(BR, "BatchReactor._to_graph")):
        for n in walk_local(fn.node):
            tg = []
            if isinstance(n, ast.Assign):
                tg = n.targets
            elif isinstance(n, (ast.AugAssign, ast.AnnAssign)):
                tg = [n.target]
            for t in tg:
                for tt in (t.elts if isinstance(t, ast.Tuple) else [t]):
                    if isinstance(tt, (ast.Attribute, ast.Subscript)) and norm(tt).startswith("self."):
                        writes.append((fn, n))
            if isinstance(n, (ast.Global, ast.Nonlocal)):
                writes.append((fn, n))
            if isinstance(n, ast.Call) and isinstance(n.func, ast.Attribute) and norm(n.func.value).startswith("self._data") \
                    and n.func.attr in ("append", "extend", "pop", "sort", "clear", "insert", "remove"):
                writes.append((fn, n))
    if not writes:
        rep.ob("O14.3", "R8", worker, True, "worker / _apply_bulk / _to_graph", "the per-entry worker writes no shared state (its only side effect is the result cache checked under O14.1)", node=worker.node)
    for fn, n in writes:
        rep.ob("O14.3", "R8", fn, False, n, "a per-entry worker must not write shared state (results would depend on batch order / process assignment)", node=n)
    # the worker's result depends on the entry only through its graph and the shared rule list
    wd = local_defs(worker.node)
    ab = [c for c in walk_local(worker.node) if isinstance(c, ast.Call) and norm(c.func) == "self._apply_bulk"]
    g = origin(wd, ab[0].args[0]) if ab and ab[0].args else None
    ok = g is not None and norm(g) == f"self._to_graph({worker.params[0]})"
    rep.ob("O14.3", "R8", worker, ok, g if g is not None else "g", "each entry is converted on its own")
    ok = bool(ab) and len(ab[0].args) == 3 and isinstance(ab[0].args[0], ast.Name) and norm(ab[0].args[2]) == "invert"
    if ok:
        # the rule list is the shared one or its pre-filtered subset for this very graph
        fsrc = origin(wd, ab[0].args[1])
        rgs = [b_["rg"] for _, b_ in pfind("$rg = self._ensure_graph_rules($$r)", fi.node, into_nested=False)]
        rg = rgs[0] if rgs else "?"
        ok = norm(fsrc) == rg or (isinstance(fsrc, ast.IfExp) and norm(fsrc.orelse) == rg and f"RuleFilter({norm(ab[0].args[0])}, {rg}" in norm(fsrc.body))
    rep.ob("O14.3", "R8", worker, ok, ab[0] if ab else "_apply_bulk", "and the rules are applied to exactly that entry's graph")


# ------------------------------------------------------------------ R7
def dedupe(rep):
    fi = rep.f(BR, "_dedupe")
    # a small pure function list -> list: tabulate it on sample sequences (first occurrence kept, original order)
    from ..absval import eval_function
    samples = ((), ("a",), ("a", "a"), ("a", "b", "a", "c", "b"), ("c", "b", "a"), ("b", "b", "a", "a", "b"), (2, 1, 2, 3, 1))
    try:
        bad = []
        for sq in samples:
            got = eval_function(fi.node, {fi.params[0]: sq})
            want = tuple(dict.fromkeys(sq))
            if got is None or tuple(got) != want:
                bad.append(f"{sq!r} -> {got!r}")
        rep.ob("O14.3", "R7", fi, not bad, "_dedupe on sample sequences", "de-duplication keeps the first occurrence of every element, in the original order "
               "(an element is kept iff it was not seen before; nothing is re-ordered)", {"samples": len(samples), "disagreements": bad[:5]})
        return
    except Undecided:
        pass
    pm = parent_map(fi.node)
    loops = [l for l in walk_local(fi.node) if isinstance(l, ast.For)]
    ok_loop = len(loops) == 1 and norm(loops[0].iter) == fi.params[0]
    rep.ob("O14.3", "R7", fi, ok_loop, loops[0].iter if loops else "for", "de-duplication scans the input once, in order")
    if not loops:
        return
    lp = loops[0]
    x = norm(lp.target)
    rets = returns_of(fi.node)
    OUT = norm(rets[-1].value) if rets and isinstance(rets[-1].value, ast.Name) else None
    apps = [c for c in walk_local(fi.node) if isinstance(c, ast.Call) and call_name(c) in ("append", "insert", "extend", "sort", "reverse") and norm(c.func.value) == OUT]
    ok = len(apps) == 1 and call_name(apps[0]) == "append" and norm(apps[0].args[0]) == x
    rep.ob("O14.3", "R7", fi, ok, [norm(a) for a in apps], "the result is built only by appending the scanned element itself (sub-list in original order)")
    if apps:
        gs0 = guards_of(pm, apps[0], lp)
        sm = pmatch(f"{x} not in $seen", gs0[0][0]) if len(gs0) == 1 and gs0[0][1] else None
        gs = [(norm(t).replace(" ", ""), s) for t, s in gs0]
        rep.ob("O14.3", "R7", fi, sm is not None, f"append under {gs}", "an element is kept iff it was not seen before")
        adds = [c for c in walk_local(lp) if sm and isinstance(c, ast.Call) and norm(c.func) == f"{sm['seen']}.add" and norm(c.args[0]) == x]
        rep.ob("O14.3", "R7", fi, len(adds) == 1 and [(norm(t), s_) for t, s_ in guards_of(pm, adds[0], lp)] == [(norm(t), s_) for t, s_ in guards_of(pm, apps[0], lp)], adds[0] if adds else "seen.add", "and is then marked as seen")
    rep.ob("O14.3", "R7", fi, OUT is not None and len(rets) == 1, rets[-1] if rets else "return", "the filtered list is returned (no set() round trip, no sort)")


# ------------------------------------------------------------------ batching
def batching(rep):
    bd = rep.f(BC, "BatchCluster.batch_dicts")
    # (normal form N11: an accumulate loop `out = []; for i in R: out.append(E)` reads `out = [E for i in R]`)
    P = bd.params
    bdefs = local_defs(bd.node)
    brets = returns_of(bd.node)
    comp = origin(bdefs, brets[-1].value) if brets else None
    comps = [comp] if isinstance(comp, ast.ListComp) and len(comp.generators) == 1 else []
    rep.need("BATCH", len(comps), 1, "batch loop in batch_dicts")
    g = comp.generators[0]
    ok = None
    try:
        r = g.iter
        a = [norm(x).replace(" ", "") for x in r.args]
        ok = call_name(r) == "range" and a == ["0", f"len({P[0]})", P[1]] and not g.ifs
    except Exception:
        ok = None
    rep.ob("O14.4", "BATCH", bd, ok, g.iter, "batches start at 0, step by batch_size and run to the end of the list")
    i = norm(g.target)
    ok = False
    if isinstance(comp.elt, ast.Subscript) and isinstance(comp.elt.slice, ast.Slice):
        sl = comp.elt.slice
        try:
            lo = linform(sl.lower, lambda n: n.id if isinstance(n, ast.Name) else None)
            hi = linform(sl.upper, lambda n: n.id if isinstance(n, ast.Name) else None)
            ok = lo == Lin({i: 1}) and hi == Lin({i: 1, P[1]: 1}) and norm(comp.elt.value) == P[0] and sl.step is None
        except Undecided:
            ok = None
    rep.ob("O14.4", "BATCH", bd, ok, comp.elt, "each batch is the contiguous slice [i, i + batch_size): every entry lands in exactly one batch, order kept")
    ft = rep.f(BC, "BatchCluster.fit")
    pm = parent_map(ft.node)
    d = local_defs(ft.node)
    bl = [l for l in walk_local(ft.node) if isinstance(l, ast.For) and isinstance(l.iter, ast.Name) and
          any(d_.kind == "assign" and any(isinstance(x, ast.Call) and call_name(x) == "batch_dicts" for x in if_leaves(d_.value)) for d_ in d.get(l.iter.id, []))]
    rep.need("BATCH", len(bl), 1, "batch loop in BatchCluster.fit")
    lp = bl[0]
    frets = returns_of(ft.node)
    fm = pmatch("($od, $ot)", frets[-1].value) if frets else None
    cl = [c for c in walk_local(lp) if isinstance(c, ast.Call) and norm(c.func) == "self.cluster"]
    threaded = concatenated = False
    call_ok = False
    if fm and len(cl) == 1:
        OD, OT = fm["od"], fm["ot"]
        um = [(st, b_) for st, b_ in pfind("$pd, $nt = $$call", lp) if st.value is cl[0]]
        call_ok = bool(um) and [norm(a_) for a_ in cl[0].args] == [norm(lp.target), OT, "rule_key", "attribute_key"] and not cl[0].keywords
        if um:
            st, b_ = um[0]
            PD, NT = b_["pd"], b_["nt"]
            later = lp.body[[i_ for i_, x in enumerate(lp.body) if x is st][0] + 1:] if any(x is st for x in lp.body) else []  # by position (substituted helpers share one line)
            # the template list handed to the next batch is the one this batch returned
            rebinding = [x for x in walk_local(lp) if isinstance(x, (ast.Assign, ast.AugAssign)) and any(
                isinstance(t_, ast.Name) and t_.id == OT for t_ in (x.targets if isinstance(x, ast.Assign) else [x.target]))]
            threaded = (NT == OT and not rebinding) or (NT != OT and len(rebinding) == 1 and any(x is rebinding[0] for x in later)
                                                       and pmatch(f"{OT} = {NT}", rebinding[0]) is not None)
            grow = [x for x in later if pmatch(f"{OD}.extend({PD})", x) is not None or pmatch(f"{OD} += {PD}", x) is not None
                    or pmatch(f"{OD} = {OD} + {PD}", x) is not None]
            others = [x for x in walk_local(lp) if isinstance(x, (ast.Assign, ast.AugAssign)) and x not in grow and any(
                isinstance(t_, ast.Name) and t_.id == OD for t_ in (x.targets if isinstance(x, ast.Assign) else [x.target]))]
            concatenated = len(grow) == 1 and not others
    rep.ob("O14.4", "BATCH", ft, call_ok, cl[0] if cl else "self.cluster", "each batch is classified against the templates accumulated so far")
    ok = threaded and concatenated
    rep.ob("O14.4", "BATCH", ft, ok, "output_data.extend(processed_data); output_templates = new_templates", "results are concatenated in batch order and the templates are threaded to the next batch")
    exits = [n for n in walk_local(lp) if isinstance(n, (ast.Break, ast.Continue, ast.Return))]
    rep.ob("O14.4", "BATCH", ft, not exits, [type(e).__name__ for e in exits], "no batch is skipped")
    cu = rep.f(BC, "BatchCluster.cluster")
    l2 = [l for l in walk_local(cu.node) if isinstance(l, ast.For)]
    D2, T2 = cu.params[1], cu.params[2]
    ok = len(l2) == 1 and norm(l2[0].iter) == D2 and pall([f"$u, {T2} = self.lib_check({norm(l2[0].target)}, {T2}, rule_key, attribute_key)"], l2[0]) is not None \
        and bool(returns_of(cu.node)) and norm(returns_of(cu.node)[-1].value) == f"({D2}, {T2})"
    rep.ob("O14.4", "BATCH", cu, ok, l2[0].iter if l2 else "for", "within a batch entries are classified one by one against the growing template list (same as one long batch)")


def cluster_state(rep):
    """classification of an entry may depend only on the entry and the template list handed in: the clustering methods keep no
    per-instance running state (a counter or a 'last seen' value that survives a call makes the result of the next call depend on the
    earlier batches / earlier libraries)"""
    GCL = "synkit/Graph/Matcher/graph_cluster.py"
    n = 0
    for rel, quals in ((BC, ("BatchCluster.lib_check", "BatchCluster.cluster", "BatchCluster.fit", "BatchCluster.batch_dicts")),
                       (GCL, ("GraphCluster.fit", "GraphCluster.iterative_cluster"))):
        for q in quals:
            fi = rep.repo.maybe_func(rel, q)
            if fi is None:
                continue
            rep.touch(fi)
            n += 1
            scalar, keyed = [], []
            for st in walk_local(fi.node):
                tgs = st.targets if isinstance(st, ast.Assign) else ([st.target] if isinstance(st, (ast.AugAssign, ast.AnnAssign)) else [])
                for t in tgs:
                    for tt in (t.elts if isinstance(t, ast.Tuple) else [t]):
                        if isinstance(tt, ast.Attribute) and norm(tt.value) == "self":
                            scalar.append((tt.attr, st))
                        if isinstance(tt, ast.Subscript) and norm(tt.value).startswith("self."):
                            keyed.append((norm(tt.value), st))
                if isinstance(st, ast.Expr) and isinstance(st.value, ast.Call) and isinstance(st.value.func, ast.Attribute) and norm(st.value.func.value).startswith("self.") \
                        and st.value.func.attr in ("append", "add", "update", "setdefault", "extend", "pop", "clear", "insert"):
                    keyed.append((norm(st.value.func.value), st))
            for attr, st in scalar:
                rep.ob("O14.4", "BATCH", fi, False, alpha(st, fi.node),
                       f"`self.{attr}` is running state written while classifying: what the next call returns then depends on the batches / libraries seen before "
                       "(batched and one-shot clustering, or two libraries handled by one instance, no longer agree)", node=st)
            for what, st in keyed:
                rep.ob("O14.4", "BATCH", fi, None, alpha(st, fi.node), f"`{what}` is per-instance keyed state written while classifying: its key has not been audited", node=st)
            if not scalar and not keyed:
                rep.ob("O14.4", "BATCH", fi, True, f"{q}: no write to self", "classification keeps no per-instance state between calls", node=fi.node)
    rep.need("BATCH", n, 5, "clustering methods scanned for instance state")


# ------------------------------------------------------------------ package-wide sweep (notes only)
def sweep(rep):
    n_sites, unordered = 0, []
    for fi in rep.repo.all_funcs():
        if ".<locals>." in fi.qual:
            continue
        for kind, c, callee, args, it, tgt, ras in _parallel_constructs(fi):
            n_sites += 1
            if kind in ("unordered", "submit") or (ras is not None and not (isinstance(ras, ast.Constant) and ras.value in ("list", "generator"))):
                if (fi.rel, fi.qual) not in ANCHORED:
                    unordered.append(f"{fi.key}:{c.lineno} {kind} {callee}")
    rep.extra["parallel_sites_package_wide"] = n_sites
    rep.extra["non_order_preserving_sites_elsewhere"] = unordered
    for u in unordered:
        rep.note(f"C14 sweep: completion-order primitive outside the anchored sites: {u}")
    ids = []
    for fi in rep.repo.all_funcs():
        if ".<locals>." in fi.qual:
            continue
        for c in id_calls(fi.node):
            ids.append(f"{fi.key}:{c.lineno} {norm(c)[:40]}")
    rep.extra["id_uses_package_wide"] = ids


MUTANTS = [
    dict(name="revert F-C14 (ids of dropped objects as key)", revert_patch="notes/fixes/C14.patch", expect="O14.1"),
    dict(name="entry keeps only the rule alive", file=BR, expect="O14.1",
         edits=[(BR, "        self._cache[key] = (substrate, rule, res)", "        self._cache[key] = (None, rule, res)"),
                (BR, "        if hit is not None and hit[0] is substrate and hit[1] is rule:", "        if hit is not None and hit[1] is rule:")]),
    dict(name="invert dropped from the key", file=BR, expect="O14.1", old="        key = (id(substrate), id(rule), inv)", new="        key = (id(substrate), id(rule))"),
    dict(name="strategy becomes mutable per call", file=BR, expect="O14.1",
         old="        if self._cache is None:\n            return self._execute(substrate, rule, inv)\n", new="        if self._cache is None:\n            return self._execute(substrate, rule, inv)\n        self._strategy = 'all' if inv else self._strategy\n"),
    dict(name="joblib unordered generator", file=BR, expect="O14.2",
         old='            nested = Parallel(n_jobs=jobs, backend="loky", prefer="processes")(', new='            nested = Parallel(n_jobs=jobs, backend="loky", prefer="processes", return_as="generator_unordered")('),
    dict(name="executor.map replaced by as_completed", file=CRN, expect="O14.2",
         old="                for idx, mix_keys, products_list in ex.map(_apply_rule_worker, tasks):\n                    results.append((idx, mix_keys, products_list))",
         new="                from concurrent.futures import as_completed\n                futs = [ex.submit(_apply_rule_worker, t) for t in tasks]\n                for f in as_completed(futs):\n                    results.append(f.result())"),
    dict(name="parallel branch applies rules without invert", file=BR, expect="O14.3",
         old="                delayed(self._apply_rule)(g, r, invert) for r in rules", new="                delayed(self._apply_rule)(g, r, False) for r in rules"),
    dict(name="parallel branch iterates rules reversed", file=BR, expect="O14.3",
         old="                delayed(self._apply_rule)(g, r, invert) for r in rules", new="                delayed(self._apply_rule)(g, r, invert) for r in reversed(rules)"),
    dict(name="_dedupe through a set", file=BR, expect="O14.3",
         old="    seen: set[Any] = set()\n    out: List[Any] = []\n    for x in items:\n        if x not in seen:\n            seen.add(x)\n            out.append(x)\n    return out",
         new="    out: List[Any] = list(set(items))\n    return out"),
    dict(name="worker records entries on the reactor", file=BR, expect="O14.3",
         old="            out = self._apply_bulk(g, filtered, invert)\n", new="            out = self._apply_bulk(g, filtered, invert)\n            self._last_graph = g\n"),
    dict(name="batches overlap by one", file=BC, expect="O14.4", old="            batches.append(input_list[i: i + batch_size])", new="            batches.append(input_list[i: i + batch_size + 1])"),
    dict(name="templates not threaded between batches", file=BC, expect="O14.4",
         old="                output_data.extend(processed_data)\n                output_templates = new_templates", new="                output_data.extend(processed_data)"),
    dict(name="serial fit skips duplicates of the first entry", file=BR, expect="O14.3",
         old="            return [worker(e) for e in self._data]", new="            return [worker(e) for e in dict.fromkeys(self._data)]"),
    dict(name="validator checks the wrong column in parallel", file=AV, expect="O14.3",
         old="                    mapping,\n                    mapped_col,\n                    ground_truth_col,\n                    check_method,\n                    ignore_aromaticity,\n                    ignore_tautomers,\n                )\n                for mapping in mappings",
         new="                    mapping,\n                    mapped_cols[0],\n                    ground_truth_col,\n                    check_method,\n                    ignore_aromaticity,\n                    ignore_tautomers,\n                )\n                for mapping in mappings"),
]

TWINS = [
    dict(name="hit path without the identity re-check (retention alone is sound)", file=BR,
         old="        if hit is not None and hit[0] is substrate and hit[1] is rule:", new="        if hit is not None:"),
    dict(name="key built in two steps", file=BR,
         old="        key = (id(substrate), id(rule), inv)", new="        ids = (id(substrate), id(rule))\n        key = ids + (inv,)"),
]
