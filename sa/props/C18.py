"""C18 - network canonical form is a complete invariant; automorphism data are exact."""
from __future__ import annotations

import ast

from ..absval import Undecided
from ..core import (alpha, AnalysisError, call_name, const, dotted, is_const, kwarg, local_defs, norm, origin,
                    parent_map, walk_local)
from ..facts import default_of, guards_of, returns_of, enclosing_loops
from ..rules import canon as C
from ..rules import matcher as M
from ..pattern import pmatch, pfind
from ..rules.label import analyse as label_analyse
from ..rules.memo import id_calls, local_memo_sites
from ..rules.unionfind import check_merge
from ..rules.label import _total_key

CN = "synkit/CRN/Topo/canon.py"
AU = "synkit/CRN/Topo/automorphism.py"
BK = "synkit/CRN/Hypergraph/backend.py"
K = "CRNCanonicalizer."

META = {
    "explanation": (
        "R1 on the refinement cache of CRNCanonicalizer._refine (per-call cache: every input that changes while the "
        "cache lives must be represented in the key by a sound surrogate; id() of a temporary is never sound). R12 "
        "invariant labels: in _sig/_label node identifiers are used only as lookup keys/membership operands, never by "
        "value and never ordered; per-neighbour lists are sorted before they are frozen. R16: the individualisation-"
        "refinement search branches over every member of the first non-singleton cell, has no pruning, keeps all "
        "minimal-label leaves. R14: the canonical graph is an injective relabelling (nx.relabel_nodes copy) whose "
        "numbering takes every node's position in the discrete partition. R13/R2 sibling agreement: CRNAutomorphism "
        "matches G against itself with full isomorphisms_iter and compares node AND arc labels on the same keys the "
        "canonicaliser puts into its labels; counts/orbits are built from every enumerated mapping."
    ),
    "rules": {"R1": "memo-key rule (local cache, surrogate key, id lifetime)", "R12": "invariant-label rule (prov domain)",
              "R16": "exhaustive IR search shape", "R14": "relabelling injectivity", "R13": "sibling predicate/key agreement",
              "R2": "SELF matcher with full isomorphism enumeration", "SHAPE": "counts/orbits wiring"},
    "not_decided": "completeness of the invariant as a value; that the views of non-isomorphic networks differ on the compared keys",
    "trusted_base": ["CPython ast", "sa/* analyser", "networkx DiGraphMatcher / relabel_nodes", "CPython id() lifetime rule"],
    "assumptions": ["automorphism enumeration bounds (max_count / timeout) are documented configuration, reported via stopped_early"],
}


def run(rep):
    rep.run(refine_cache)
    rep.run(labels)
    rep.run(search)
    rep.run(canon_graph)
    rep.run(siblings)
    rep.run(counts)


def refine_cache(rep):
    fi = rep.f(CN, K + "_refine")
    part_p = fi.params[2]
    ss = local_memo_sites(rep.repo, fi)
    rep.need("R1", len(ss), 1, "memo store in _refine")
    for s in ss:
        key = f"key=({', '.join(norm(k) for k in s.key_parts)})"
        rep.ob("O18.1", "R1", fi, s.compute is not None and call_name(s.compute) == "_sig", s.store, "the cached value is the refinement signature", node=s.store)
        if not s.problems:
            rep.ob("O18.1", "R1", fi, True, key, "every input of the cached signature is covered by the key for as long as the cache lives",
                   {"inputs": [t for t, _ in s.inputs], "covered": s.covered}, node=s.store)
        for kind, node, msg in s.problems:
            rep.ob("O18.1", "R1", fi, False, f"{key} [{kind}] {norm(node)[:60]}", msg, {"inputs": [t for t, _ in s.inputs]}, node=node)
    ids = [c for q in ("_refine", "_sig", "_search", "_label", "_canon", "_init_part") for c in id_calls(rep.f(CN, K + q).node)]
    for c in ids:
        tmp = not isinstance(c.args[0], (ast.Name, ast.Attribute))
        rep.ob("O18.1", "R1", f"{CN}:CRNCanonicalizer", not tmp, c, "id() of a temporary object is never used as a cache epoch/key (ids are reused after the object dies)", node=c)
    if not ids:
        rep.ob("O18.1", "R1", f"{CN}:CRNCanonicalizer", True, "no id() in the canonicaliser", "no decision of the canonicaliser depends on object identities")
    # refinement is order-invariant: cells split by sorted signature
    pm = parent_map(fi.node)
    ok, construct, gnames = C.split_sorted(fi)
    rep.ob("O18.2", "R12", fi, ok, construct,
           "a split cell is replaced by its sub-cells in the order of their FULL signatures (a partial key leaves ties in node-insertion order)")
    for lp in [l for l in walk_local(fi.node) if isinstance(l, ast.For) and norm(l.iter) == part_p]:
        skips = [n for n in walk_local(lp) if isinstance(n, (ast.Break,))]
        rep.ob("O18.2", "R12", fi, not skips, lp.iter, "every cell is refined in every round", node=lp)
    wl = [l for l in walk_local(fi.node) if isinstance(l, ast.While)]
    okw = None
    if len(wl) == 1:
        w = wl[0]
        # the "a cell split in this round" flag: lowered at the start of every round, raised exactly where a cell splits
        consts = {}
        for n in walk_local(w):
            if isinstance(n, ast.Assign) and isinstance(n.targets[0], ast.Name) and isinstance(n.value, ast.Constant) and isinstance(n.value.value, bool):
                consts.setdefault(n.targets[0].id, []).append(n)
        flags = [nm for nm, sets in consts.items() if any(x.value.value for x in sets) and any(not x.value.value for x in sets)
                 and not [x for x in walk_local(w) if isinstance(x, (ast.Assign, ast.AugAssign)) and x not in sets and norm(x.targets[0] if isinstance(x, ast.Assign) else x.target) == nm]]
        if len(flags) == 1:
            flag = flags[0]
            sets = consts[flag]
            trues = [n for n in sets if n.value.value]
            falses = [n for n in sets if not n.value.value]
            cell_loops = [l for l in w.body if isinstance(l, ast.For)]

            def split_guard(t, s_):
                for pat in ("len($g) > 1", "len($g) != 1", "len($g) >= 2"):
                    m_ = pmatch(pat, t)
                    if m_ is not None and s_ and m_["g"] in gnames:
                        return True
                return False
            raised = bool(trues) and all(any(split_guard(t, s_) for t, s_ in guards_of(pm, n, w)) for n in trues)
            lowered = len(falses) == 1 and any(falses[0] is st for st in w.body) and bool(cell_loops) and falses[0].lineno < cell_loops[0].lineno
            # the loop is left only when the flag is down: by the loop test, or by a break / return under `not flag` after the cells were refined
            exits = [n for n in walk_local(w) if isinstance(n, (ast.Break, ast.Return))]
            exits_ok = all(any(norm(t) == flag and not s_ for t, s_ in guards_of(pm, n, w)) and cell_loops and n.lineno > cell_loops[-1].lineno for n in exits)
            test_ok = (isinstance(w.test, ast.Name) and w.test.id == flag) or (isinstance(w.test, ast.Constant) and w.test.value is True and bool(exits))
            okw = raised and lowered and exits_ok and test_ok and not w.orelse
    rep.ob("O18.2", "R12", fi, okw, wl[0].test if wl else "while", "refinement runs until no cell splits")


def labels(rep):
    sig = rep.f(CN, K + "_sig")
    leaks, unordered, facts = label_analyse(sig, {sig.params[2]}, {sig.params[3]})
    if not leaks and not unordered:
        rep.ob("O18.2", "R12", sig, True, "_sig(G, v, part)", "the refinement signature uses node ids only as lookup keys and sorts every per-neighbour list", facts, node=sig.node)
    for node, msg in leaks + unordered:
        rep.ob("O18.2", "R12", sig, False, node, msg, facts, node=node)
    lab = rep.f(CN, K + "_label")
    leaks, unordered, facts = label_analyse(lab, set(), {lab.params[2]})
    if not leaks and not unordered:
        rep.ob("O18.2", "R12", lab, True, "_label(G, perm)", "the canonical label depends on attributes at positions, not on node ids", facts, node=lab.node)
    for node, msg in leaks + unordered:
        rep.ob("O18.2", "R12", lab, False, node, msg, facts, node=node)
    # label covers node keys and arc keys in both directions (i != j over ordered pairs)
    for tag, ok, construct, what, node in C.label_builder_shape(lab, "node_attr_keys", "edge_attr_keys", directed=True):
        rep.ob("O18.2", "R12", lab, ok, construct, what, node=node)
    ip = rep.f(CN, K + "_init_part")
    ok, construct = C.initial_partition_sorted(ip, "node_attr_keys")
    rep.ob("O18.2", "R12", ip, ok, construct, "initial cells are ordered by their attribute key (not by insertion order)")
    sig_keys = [n for n in walk_local(sig.node, into_nested=True) if isinstance(n, ast.Attribute) and n.attr in ("node_attr_keys", "edge_attr_keys")]
    found_ = {n.attr for n in sig_keys}
    # a key set read through a method of the same object (self._edge_key(..)) is not visible here: not evidence that it is ignored
    via_helper = any(isinstance(c, ast.Call) and isinstance(c.func, ast.Attribute) and norm(c.func.value) == "self" and c.func.attr not in ("_freeze",)
                     for c in walk_local(sig.node, into_nested=True))
    rep.ob("O18.2", "R12", sig, True if found_ == {"node_attr_keys", "edge_attr_keys"} else (None if via_helper else False), sorted(found_),
           "the refinement looks at the same node and arc keys as the label")


def search(rep):
    fi = rep.f(CN, K + "_search")
    for name, ok, construct, what, node in C.ir_search_shape(fi):
        rep.ob("O18.2", "R16", fi, ok, construct, what, node=node)
    defs = local_defs(fi.node)
    labs = [c for c in walk_local(fi.node) if isinstance(c, ast.Call) and pmatch(f"self._label({fi.params[1]}, $$p)", c) is not None]
    rep.need("R16", len(labs), 1, "lab = self._label(G, perm) at the leaf")
    pexpr = origin(defs, labs[0].args[1])
    cls, why = C.classify_order(defs, pexpr)
    rep.ob("O18.3", "R14", fi, cls in ("BIJECTIVE", "DUPLICATE"), pexpr,
           "a leaf's order ends with the flattened discrete partition, so every node has a well-defined last position", {"class": cls, "why": why})


def canon_graph(rep):
    fi = rep.f(CN, K + "_canon")
    se = rep.f(CN, K + "_search")
    defs = local_defs(fi.node)
    ms = C.mapping_sites(fi)
    rep.need("R14", len(ms), 1, "mapping comprehension in _canon")
    dc, src = ms[0]
    off = C.offset_of(dc)
    rep.ob("O18.3", "R14", fi, off is not None, dc, "node numbers are position + constant (distinct positions give distinct numbers)", {"offset": off})
    sr = [c for c in walk_local(fi.node) if isinstance(c, ast.Call) and call_name(c) == "_search"]
    rep.need("R16", len(sr), 1, "_search call in _canon")
    sc = sr[0]
    # positional arguments follow _search(self, G, part, prefix, best, perms)
    a_G, a_part, a_prefix, a_best = (sc.args + [None] * 4)[:4]
    o = origin(defs, src)
    ok = a_best is not None and (pmatch(f"{norm(a_best)}.get('perm')", o) is not None or pmatch(f"{norm(a_best)}['perm']", o) is not None)
    rep.ob("O18.3", "R14", fi, ok, o, "the numbering is taken from the minimal-label leaf")
    map_names = [nm for nm, ds in defs.items() for d_ in ds if d_.kind == "assign" and d_.value is dc]
    rl = [c for c in walk_local(fi.node) if isinstance(c, ast.Call) and call_name(c) == "relabel_nodes"]
    ok = bool(rl) and bool(map_names) and a_G is not None and len(rl[0].args) >= 2 and norm(rl[0].args[0]) == norm(a_G) and norm(rl[0].args[1]) == map_names[0] \
        and is_const(kwarg(rl[0], "copy") or ast.Constant(True), True)
    rep.ob("O18.3", "R14", fi, ok, rl[0] if rl else "relabel_nodes", "the canonical graph is the view relabelled (a copy with all node and arc attributes)")
    g = origin(defs, a_G) if a_G is not None else None
    rep.ob("O18.3", "R14", fi, g is not None and norm(g) == "self.G", g if g is not None else "G", "the graph canonicalised is the network's own view")
    ok = a_part is not None and pmatch(f"self._init_part({norm(a_G)})", origin(defs, a_part)) is not None and isinstance(a_prefix, ast.List) and not a_prefix.elts
    rep.ob("O18.2", "R16", fi, ok, sc, "the search starts from the attribute partition with an empty prefix")


def siblings(rep):
    init_c = rep.f(CN, K + "__init__")
    init_a = rep.f(AU, "CRNAutomorphism.__init__")
    nk_c, nk_a = default_of(init_c, "node_attr_keys"), default_of(init_a, "node_attr_keys")
    ek_c = default_of(init_c, "edge_attr_keys")
    try:
        nkc, nka, ekc = const(nk_c), const(nk_a), const(ek_c)
    except (ValueError, TypeError):
        raise AnalysisError("attribute key defaults are not literal")
    rep.ob("O18.4", "R13", init_a, nkc == nka, f"canonicaliser {nkc} / automorphism {nka}", "both analyses compare nodes on the same default keys")
    gm = rep.f(AU, "CRNAutomorphism._graph_matcher")
    ss = M.sites(gm)
    rep.need("R2", len(ss), 1, "DiGraphMatcher in _graph_matcher")
    s = ss[0]
    rep.ob("O18.4", "R2", gm, norm(s.g1) == norm(s.g2), s.call, "automorphisms: the view is matched against itself", node=s.call)
    g = origin(local_defs(gm.node), s.g1)
    rep.ob("O18.4", "R2", gm, norm(g) == "self.G", g, "the matched graph is the network's own view")
    # node_match is the attribute __init__ sets to _node_match(self.node_attr_keys)
    nm_ok = False
    if s.node_match is not None and isinstance(s.node_match, ast.Attribute) and norm(s.node_match.value) == "self":
        sets_ = [n for n in walk_local(init_a.node) if isinstance(n, ast.Assign) and norm(n.targets[0]) == norm(s.node_match)]
        nm_ok = len(sets_) == 1 and pmatch("_node_match(self.node_attr_keys)", sets_[0].value) is not None
    elif s.node_match is not None:
        nm_ok = pmatch("_node_match(self.node_attr_keys)", s.node_match) is not None
    rep.ob("O18.4", "R13", gm, nm_ok, s.call, "nodes are compared with the configured node keys", node=s.call)
    em = s.edge_match
    keys = None
    if isinstance(em, ast.Call) and call_name(em) == "_node_match" and em.args:
        try:
            keys = const(em.args[0])
        except ValueError:
            # a module-level constant
            from ..absval import module_constants
            keys = module_constants(gm.module.tree).get(norm(em.args[0])) if isinstance(em.args[0], ast.Name) else None
    elif isinstance(em, ast.Attribute):
        # self._edge_matcher = _node_match(self.edge_attr_keys) style
        for n in walk_local(init_a.node):
            if isinstance(n, ast.Assign) and norm(n.targets[0]) == norm(em) and isinstance(n.value, ast.Call) and n.value.args:
                src = n.value.args[0]
                d = default_of(init_a, norm(src).split(".")[-1]) if isinstance(src, ast.Attribute) else None
                try:
                    from ..core import module_const as _mc
                    if d is None and isinstance(src, ast.Call) and call_name(src) in ("tuple", "list") and src.args:
                        src = src.args[0]
                    keys = _mc(init_a.module, d) if d is not None else _mc(init_a.module, src)
                except ValueError:
                    keys = None
    rep.ob("O18.4", "R13", gm, em is not None and keys is not None and tuple(keys) == tuple(ekc),
           f"edge_match={norm(em) if em is not None else None}",
           "an automorphism must preserve the arc labels the canonicaliser puts into its labels (role, stoichiometry): both analyses agree on what 'structure' is",
           {"canonicaliser_edge_keys": list(ekc), "automorphism_edge_keys": list(keys) if keys else None}, node=s.call)
    nm = rep.f(AU, "_node_match")
    clo = [n for n in ast.walk(nm.node) if isinstance(n, ast.FunctionDef) and n is not nm.node]
    rep.need("R13", len(clo), 1, "match closure in _node_match")
    try:
        pf = M.normalise_predicate(clo[0])
        # the key list the closure runs over is the factory's parameter (possibly frozen into a tuple under another name)
        ndefs = local_defs(nm.node)

        def key_source(name):
            if name == nm.params[0]:
                return name
            ds = [d_ for d_ in ndefs.get(name, []) if d_.kind == "assign"]
            if len(ds) == 1:
                m_ = pmatch("tuple($p)", ds[0].value) or pmatch("list($p)", ds[0].value) or pmatch("$p", ds[0].value)
                if m_ is not None:
                    return m_["p"]
            return name
        over = {key_source(x) for x in pf.eq_over}
        rep.ob("O18.4", "R13", nm, pf.exact and over == {nm.params[0]} and not pf.ge and not pf.other, f"match({', '.join(pf.params)})",
               "the matcher closure is equality on every configured key", {"eq_over": sorted(pf.eq_over), "exact": pf.exact})
    except Undecided as exc:
        rep.ob("O18.4", "R13", nm, None, "match", str(exc))
    # both views come from the shared backend
    for rel, cls in ((CN, "CRNCanonicalizer"), (AU, "CRNAutomorphism")):
        c = rep.repo.cls(rel, cls)
        bases = [norm(b) for b in c.bases]
        rep.ob("O18.4", "R13", f"{rel}:{cls}", bases == ["_CRNGraphBackend"], bases, "both analyses work on the view built by the shared backend")
    bk = rep.f(BK, "_CRNGraphBackend._build_graph")
    calls = {call_name(c): c for c in walk_local(bk.node) if isinstance(c, ast.Call) and call_name(c).startswith("hypergraph_to_")}
    pm = parent_map(bk.node)
    ok = set(calls) == {"hypergraph_to_bipartite", "hypergraph_to_species_graph"} and \
        ("self.include_rule", True) in [(norm(t), s_) for t, s_ in guards_of(pm, calls["hypergraph_to_bipartite"], bk.node)] and \
        ("self.include_rule", False) in [(norm(t), s_) for t, s_ in guards_of(pm, calls["hypergraph_to_species_graph"], bk.node)]
    rep.ob("O18.4", "R13", bk, ok, sorted(calls), "include_rule selects the bipartite view, otherwise the species view")
    # the view an analysis works on is built by the writers for THIS configuration: no other source (e.g. a view shared through a cache on the hypergraph)
    cls_b = rep.repo.cls(BK, "_CRNGraphBackend")
    stores = []
    for m_ in [x for x in cls_b.body if isinstance(x, ast.FunctionDef)]:
        for n_ in ast.walk(m_):
            if isinstance(n_, ast.Assign) and any(norm(t_) == "self._G" for t_ in n_.targets):
                stores.append((m_.name, n_))
    bad_st = [(mn, n_) for mn, n_ in stores if not (is_const(n_.value, None) or (isinstance(n_.value, ast.Call) and call_name(n_.value) in ("hypergraph_to_bipartite", "hypergraph_to_species_graph")
                                                                                  and n_.value.args and norm(n_.value.args[0]) == "self.hg"))]
    rep.ob("O18.4", "R13", bk, bool(stores) and not bad_st, alpha(bad_st[0][1], bk.node) if bad_st else f"{len(stores)} store(s) to self._G",
           "the analysed view is always the one the writers build from this network with this configuration (a view taken from anywhere else - a cache keyed by "
           "less than the full configuration - belongs to another configuration)", node=bad_st[0][1] if bad_st else bk.node)
    if "hypergraph_to_bipartite" in calls:
        c = calls["hypergraph_to_bipartite"]
        ok = norm(kwarg(c, "include_stoich") or ast.Constant(None)) == "self.include_stoich" and norm(c.args[0]) == "self.hg"
        rep.ob("O18.4", "R13", bk, ok, c, "the stoichiometry switch reaches the view writer", node=c)


def _ret_elts(fi):
    rets = returns_of(fi.node)
    if not rets or not isinstance(rets[-1].value, ast.Tuple):
        raise AnalysisError(f"{fi.qualname} no longer returns a tuple")
    return rets[-1], rets[-1].value.elts


def _slot_of(defs, name, callee):
    """index of the callee's result tuple that the local `name` is unpacked from (None if it is not)"""
    for d in defs.get(name, []):
        if d.index is not None and len(d.index) == 1 and isinstance(d.value, ast.Call) and call_name(d.value) == callee:
            return d.index[0]
    return None


def counts(rep):
    cs = rep.f(CN, K + "summary")
    cn = rep.f(CN, K + "_canon")
    d = [n for n in walk_local(cs.node) if isinstance(n, ast.Dict)]
    rep.need("SHAPE", len(d), 1, "summary dict")
    kvn = {k.value: v for k, v in zip(d[0].keys, d[0].values) if isinstance(k, ast.Constant)}
    up = local_defs(cs.node)
    cd = local_defs(cn.node)
    ret, elts = _ret_elts(cn)
    sc = [c for c in walk_local(cn.node) if isinstance(c, ast.Call) and call_name(c) == "_search"]
    rep.need("SHAPE", len(sc), 1, "_search call in _canon")
    leaves = norm(sc[0].args[4]) if len(sc[0].args) > 4 else None  # the list every minimal-label leaf is appended to

    def role(e):
        """what a returned element of _canon is, by construction"""
        if isinstance(e, ast.Name) and e.id == leaves:
            return "leaves"
        o = origin(cd, e)
        if isinstance(o, ast.Call) and call_name(o) == "relabel_nodes":
            return "graph"
        if isinstance(o, ast.Call) and call_name(o) == "_orbits_from_perms" and o.args and norm(o.args[0]) == leaves:
            return "orbits"
        if isinstance(o, ast.Call) and call_name(o) == "_search":
            return "early"
        return norm(o)[:30]
    roles = [role(e) for e in elts]

    def slot_role(v):
        if isinstance(v, ast.Name):
            k = _slot_of(up, v.id, "_canon")
            return roles[k] if k is not None and k < len(roles) else None
        return None
    ac = kvn.get("automorphism_count")
    ok = ac is not None and isinstance(ac, ast.Call) and call_name(ac) == "len" and slot_role(ac.args[0]) == "leaves" \
        and slot_role(kvn.get("orbits")) == "orbits" and slot_role(kvn.get("canon_graph")) == "graph"
    rep.ob("O18.5", "SHAPE", cs, ok, {k: norm(v) for k, v in kvn.items()},
           "automorphism_count = number of minimal-label leaves; orbits and canonical graph are the computed ones", {"_canon returns": roles})
    rep.ob("O18.5", "SHAPE", cs, "leaves" in roles and "orbits" in roles and "graph" in roles, ret,
           "_canon returns the canonical graph, all minimal-label leaves and the orbits derived from them", {"_canon returns": roles})
    mg = rep.f(CN, K + "_orbits_from_perms.<locals>.merge")
    for ok, msg, facts in check_merge(mg.node):
        rep.ob("O18.5", "SHAPE", mg, ok, msg, "merging two orbit slots keeps orbit_map exact: the union stays at the surviving slot and every member of the emptied slot is re-pointed to it",
               facts, node=mg.node)
    op = rep.f(CN, K + "_orbits_from_perms")
    pp = op.params[0]
    calls = [c for c in walk_local(op.node) if isinstance(c, ast.Call) and isinstance(c.func, ast.Name) and c.func.id == "merge"]
    okm = False
    if len(calls) == 1:
        m = pmatch("merge($i, $om[$v])", calls[0])
        lps_ = enclosing_loops(parent_map(op.node), calls[0], op.node)
        if m and len(lps_) == 2:
            m2 = pmatch("enumerate($p)", lps_[0].iter)
            okm = m2 is not None and pmatch("($i, $v)", lps_[0].target, {"i": m["i"], "v": m["v"]}) is not None \
                and norm(lps_[1].target) == m2["p"] and pmatch(f"{pp}[1:]", lps_[1].iter) is not None
            # the first leaf seeds one singleton orbit per position
            seed = pfind("$om[$v] = $i", op.node, {"om": m["om"]}, into_nested=False)
            okseed = False
            for st, b in seed:
                l2 = enclosing_loops(parent_map(op.node), st, op.node)
                if len(l2) == 1 and pmatch("($i, $v)", l2[0].target, {"i": b["i"], "v": b["v"]}) is not None:
                    e = pmatch("enumerate($f)", l2[0].iter)
                    okseed = e is not None and pmatch(f"{pp}[0]", origin(local_defs(op.node), ast.Name(id=e["f"], ctx=ast.Load()))) is not None \
                        and bool(pfind("$o.append({$v})", l2[0], {"v": b["v"]}))
            okm = okm and okseed
    rep.ob("O18.5", "SHAPE", op, okm, calls[0] if calls else "merge(idx, orbit_map[v])", "every position of every further minimal leaf is merged with the orbit of the node found there")
    # automorphism enumeration: full isomorphisms, every mapping counted and used
    sm = rep.f(AU, "CRNAutomorphism.summary")
    pm = parent_map(sm.node)
    sdefs = local_defs(sm.node)
    loops = [l for l in walk_local(sm.node) if isinstance(l, ast.For) and isinstance(l.iter, ast.Call) and call_name(l.iter) in (M.ISO_METHODS | M.SUB_METHODS)]
    rep.need("R2", len(loops), 1, "enumeration loop in CRNAutomorphism.summary")
    lp = loops[0]
    rep.ob("O18.5", "R2", sm, call_name(lp.iter) == "isomorphisms_iter", lp.iter, "automorphisms are full isomorphisms of the view onto itself", node=lp)
    sd = [n for n in walk_local(sm.node) if isinstance(n, ast.Dict)]
    kv = {k.value: v for k, v in zip(sd[0].keys, sd[0].values) if isinstance(k, ast.Constant)} if sd else {}
    cnt = kv.get("automorphism_count")
    cname = cnt.id if isinstance(cnt, ast.Name) else None
    inc = [n for n in lp.body if cname and (pmatch(f"{cname} += 1", n) is not None or pmatch(f"{cname} = {cname} + 1", n) is not None)]
    others = [n for n in walk_local(sm.node) if cname and isinstance(n, (ast.Assign, ast.AugAssign)) and n not in inc and
              any(norm(t) == cname for t in (n.targets if isinstance(n, ast.Assign) else [n.target])) and not (isinstance(n, ast.Assign) and is_const(n.value, 0))]
    # the reported count is not a plain local (e.g. a field of a bookkeeping object): the rule cannot follow it -> not decided
    rep.ob("O18.5", "SHAPE", sm, None if (cnt is not None and cname is None) else (len(inc) == 1 and not others), inc[0] if inc else "count += 1",
           "every enumerated automorphism is counted (unconditionally)", node=lp)
    oc = [c for c in walk_local(sm.node) if isinstance(c, ast.Call) and call_name(c) == "_compute_orbits_from_mappings"]
    used = norm(oc[0].args[1]) if oc and len(oc[0].args) > 1 else None
    app = [c for c in walk_local(lp) if used and isinstance(c, ast.Call) and norm(c.func) == f"{used}.append"]
    okapp = False
    if len(app) == 1 and not guards_of(pm, app[0], lp):
        a0 = origin(sdefs, app[0].args[0])
        okapp = norm(a0) in (norm(lp.target), f"dict({norm(lp.target)})")
    rep.ob("O18.5", "SHAPE", sm, okapp, app[0] if app else "used_mappings.append", "every enumerated automorphism feeds the orbit computation", node=lp)
    brk = [n for n in walk_local(lp) if isinstance(n, (ast.Break, ast.Continue))]
    okb = all(any("_should_stop" in norm(t) for t, s_ in guards_of(pm, b, lp)) for b in brk)
    rep.ob("O18.5", "SHAPE", sm, okb, [type(b).__name__ for b in brk], "enumeration stops only on the documented count/time bound")
    orb = kv.get("orbits")
    okorb = isinstance(orb, ast.Name) and oc and any(d_.index == (0,) and d_.value is oc[0] for d_ in sdefs.get(orb.id, []))
    st = kv.get("stopped_early")
    okst = False
    if isinstance(st, ast.Name):
        raises = [n for n in walk_local(sm.node) if isinstance(n, ast.Assign) and norm(n.targets[0]) == st.id and is_const(n.value, True)]
        def _cut(n):
            # raised under the stop test, and the enumeration is left right after it
            under = any(s_ and "_should_stop" in norm(t) for t, s_ in guards_of(pm, n, sm.node))
            owner = pm.get(n)
            sibs = next((getattr(owner, f_) for f_ in ("body", "orelse", "finalbody") if isinstance(getattr(owner, f_, None), list) and any(x is n for x in getattr(owner, f_))), [])
            return under and any(isinstance(x, ast.Break) for x in sibs)
        okst = any(_cut(n) for n in raises)
    # count / stop flag kept in fields of a bookkeeping object: the rule cannot follow them -> not decided
    opaque = (cnt is not None and cname is None) or (st is not None and not isinstance(st, ast.Name))
    rep.ob("O18.5", "SHAPE", sm, None if opaque else (cname is not None and bool(okorb) and okst), {k: norm(v) for k, v in kv.items() if k in ("automorphism_count", "orbits", "stopped_early")},
           "the summary reports the count, the orbits and whether enumeration was cut")
    co = rep.f(AU, "CRNAutomorphism._compute_orbits_from_mappings")
    nodes_p, maps_p = co.params[1], co.params[2]
    un = [c for c in walk_local(co.node) if isinstance(c, ast.Call) and isinstance(c.func, ast.Name) and c.func.id == "union"]
    ok = False
    if len(un) == 1:
        m = pmatch("union($s, $d)", un[0])
        l2 = enclosing_loops(parent_map(co.node), un[0], co.node)
        if m and len(l2) == 2:
            it = pmatch("$m.items()", l2[0].iter)
            o_it, o_tg = l2[1].iter, l2[1].target
            if isinstance(o_it, ast.Call) and call_name(o_it) == "enumerate" and o_it.args and isinstance(o_tg, ast.Tuple) and len(o_tg.elts) == 2:
                o_it, o_tg = o_it.args[0], o_tg.elts[1]  # a counted loop over the same mappings
            ok = it is not None and (pmatch("($s, $d)", l2[0].target, m) is not None or pmatch("($d, $s)", l2[0].target, m) is not None) \
                and norm(o_tg) == it["m"] and norm(o_it) == maps_p \
                and not [x for x in walk_local(l2[1]) if isinstance(x, (ast.Break, ast.Continue, ast.Return))]
    # no plain union(..) call (the union-find lives in a helper object): not decided; a union that does not join node and image: violated
    rep.ob("O18.5", "SHAPE", co, None if not un else ok, un[0] if un else "union(src, dst)", "each node is merged with its image under every mapping (orbits = exchangeability classes)")
    bk = [n for n in walk_local(co.node) if isinstance(n, ast.For) and norm(n.iter) == nodes_p]
    # grouping loop over all nodes; when grouping is delegated (helper object called with the node list) the rule cannot follow it -> not decided
    delegated = any(isinstance(c_, ast.Call) and any(norm(a_) == nodes_p for a_ in c_.args) for c_ in walk_local(co.node))
    rep.ob("O18.5", "SHAPE", co, True if bk else (None if delegated else False), bk[0].iter if bk else "for n in nodes", "every node of the view is assigned to an orbit")


MUTANTS = [
    dict(name="revert F-C18a (epoch = id of a temporary)", revert_patch="notes/fixes/C18a.patch", expect="O18.1"),
    dict(name="revert F-C18b (no edge_match)", revert_patch="notes/fixes/C18b.patch", expect="O18.4"),
    dict(name="epoch never advanced", file=CN, expect="O18.1", old="            epoch += 1\n", new=""),
    dict(name="_sig returns the node id", file=CN, expect="O18.2", old="        return (node_attrs, degree, counts_t, edge_mult_t)", new="        return (v, node_attrs, degree, counts_t, edge_mult_t)"),
    dict(name="edge multiset not sorted", file=CN, expect="O18.2", old="        edge_mult_t = tuple(sorted(edge_mult))", new="        edge_mult_t = tuple(edge_mult)"),
    dict(name="search prunes on a non-bound", file=CN, expect="O18.2",
         old="            pref = prefix + [v]\n\n            if self._search(", new="            pref = prefix + [v]\n            if best[\"label\"] is not None and len(pref) > 2:\n                continue\n            if self._search("),
    dict(name="only the first member of the cell is tried", file=CN, expect="O18.2",
         old="        cell = sorted(part[idx])\n\n        for v in cell:", new="        cell = sorted(part[idx])\n\n        for v in cell[:1]:"),
    dict(name="count = number of orbits", file=CN, expect="O18.5", old='            "automorphism_count": len(perms),', new='            "automorphism_count": len(orbits),'),
    dict(name="ties not collected", file=CN, expect="O18.2", old="            elif lab == best[\"label\"]:\n                perms.append(perm)\n", new=""),
    dict(name="automorphism uses subgraph enumeration", file=AU, expect="O18.5",
         old="            for m in GM.isomorphisms_iter():\n                count += 1", new="            for m in GM.subgraph_isomorphisms_iter():\n                count += 1"),
    dict(name="identity mapping not counted", file=AU, expect="O18.5",
         old="                count += 1\n                mdict = dict(m)", new="                mdict = dict(m)\n                if all(k == v for k, v in mdict.items()):\n                    continue\n                count += 1"),
    dict(name="automorphism matches stoich only", file=AU, expect="O18.4", old='edge_match=_node_match(("role", "stoich")),', new='edge_match=_node_match(("stoich",)),'),
    dict(name="split cells kept in insertion order", file=CN, expect="O18.2", old="                    for s in sorted(sigs.keys()):", new="                    for s in sigs.keys():"),
    dict(name="label ignores arc attributes", file=CN, expect="O18.2",
         old='                    frozen = tuple(\n                        self._freeze(attrs.get(a, "")) for a in self.edge_attr_keys\n                    )', new='                    frozen = ()'),
    dict(name="relabel in place", file=CN, expect="O18.3", old="        G_can = nx.relabel_nodes(G, mapping, copy=True)", new="        G_can = nx.relabel_nodes(G, mapping, copy=False)"),
    dict(name="node compared by id in label", file=CN, expect="O18.2",
         old='                    edge_bits.append("1:" + ":".join(str(x) for x in frozen))', new='                    edge_bits.append(("1:" if vi < vj else "2:") + ":".join(str(x) for x in frozen))'),
]

TWINS = [
    dict(name="epoch advanced with plain assignment", file=CN, old="            epoch += 1\n", new="            epoch = epoch + 1\n"),
    dict(name="edge matcher stored on the instance", edits=[
        (AU, "        self._matcher = _node_match(self.node_attr_keys)\n", "        self._matcher = _node_match(self.node_attr_keys)\n        self._ematcher = _node_match((\"role\", \"stoich\"))\n"),
        (AU, 'edge_match=_node_match(("role", "stoich")),', "edge_match=self._ematcher,")]),
]
