"""C12 - maximum common subgraph results are valid and of maximum size."""
from __future__ import annotations

import ast

from ..absval import Undecided, eval_function
from ..core import (AnalysisError, alpha, call_name, dotted, is_const, kwarg, local_defs, norm, origin, parent_map,
                    walk_local)
from ..facts import assigned_subscripts, guards_of, returns_of, enclosing_loops, unpack_of
from ..rules import matcher as M
from ..shape import walk_paths
from ..pattern import pmatch, pfind, pall

MM = "synkit/Graph/Matcher/mcs_matcher.py"
MT = "synkit/Graph/MTG/mcs_matcher.py"

META = {
    "explanation": (
        "R2: the common-subgraph search builds GraphMatcher(host, sub-pattern) and enumerates the *induced* variant "
        "(subgraph_isomorphisms_iter), results are inverted to pattern->host by a true inverse; the molecule-level mode "
        "uses is_isomorphic on equal-sized components; the edge predicate compares every configured attribute. R16: the "
        "size loop descends from min(|P|,|H|) to 1, every k-subset of the pattern is tried, the only skips are duplicate "
        "mappings, the level exit happens only after a level is complete and only in maximum mode, and the final filter "
        "keeps len == best. R17: orientation parity of get_mappings over (direction x pattern_is_G1) and of "
        "_prepare_orientation's flag. The small decision functions (edge predicates of both twins, _prepare_orientation, "
        "get_mappings) are decided by tabulating them with the analyser's own evaluator on a finite sample domain "
        "(pairs of bond orders; graph sizes; direction x flag with the two conversions kept symbolic), with the "
        "structural rule as fall-back when the evaluator refuses."
    ),
    "rules": {"R2": "matcher roles / induced enumeration / inversion", "R16": "exhaustive descending search shape",
              "R17": "orientation parity over the finite flag space", "R13": "edge predicate covers every configured attribute"},
    "not_decided": "maximality as a value (follows from the search shape plus VF2's completeness)",
    "trusted_base": ["CPython ast", "sa/* analyser", "networkx GraphMatcher contract", "itertools.combinations enumerates all k-subsets"],
    "assumptions": [],
}


def run(rep):
    rep.run(search, MM, "MCSMatcher._search_subgraphs", 1, 2)
    rep.run(search, MT, "MCSMatcher.find_common_subgraph", 1, 2)
    for rel in (MM, MT):
        rep.run(invert, rel)
        rep.run(mcs_mol, rel)
    rep.run(edge_match)
    rep.run(label_lists)
    rep.run(shared_bookkeeping)
    rep.run(orientation)


def _flat(t):
    return norm(t).replace(" ", "")


def search(rep, rel, q, pi, hi):
    fi = rep.f(rel, q)
    P, H = fi.params[pi], fi.params[hi]
    defs = local_defs(fi.node)
    pm = parent_map(fi.node)
    size_loops = [l for l in walk_local(fi.node) if isinstance(l, ast.For) and any(
        isinstance(c, ast.Call) and call_name(c) == "combinations" for c in walk_local(l))]
    size_loops = [l for l in size_loops if not enclosing_loops(pm, l, fi.node)]
    rep.need("R16", len(size_loops), 1, f"size loop in {q}")
    sl = size_loops[0]
    k = norm(sl.target)
    # per-search state kept on the instance (self._last_size ..): what the size loop both reads and writes must be reset before the loop on every
    # path, otherwise the early exit of THIS search is decided by what an EARLIER search on the same matcher object found
    from ..cfg import CFG, ENTRY
    cfg_ = CFG(fi.node)
    written = {norm(t_) for n_ in walk_local(sl) if isinstance(n_, (ast.Assign, ast.AugAssign)) for t_ in (n_.targets if isinstance(n_, ast.Assign) else [n_.target])
               if isinstance(t_, ast.Attribute) and norm(t_.value) == "self"}
    read_in_tests = {norm(a_) for n_ in walk_local(sl) if isinstance(n_, (ast.If, ast.While)) for a_ in ast.walk(n_.test)
                     if isinstance(a_, ast.Attribute) and norm(a_.value) == "self" and isinstance(a_.ctx, ast.Load)}
    for attr_ in sorted(written & read_in_tests):
        inits = [st_ for st_ in cfg_.stmts() if isinstance(st_, ast.Assign) and any(norm(t_) == attr_ for t_ in st_.targets) and not any(x is st_ for x in walk_local(sl))]
        ok_init = bool(inits) and cfg_.all_paths_pass(ENTRY, sl, inits)
        rep.ob("O12.2", "R16", fi, ok_init, f"{attr_} = <initial value> before the size loop" if ok_init else f"{attr_} read in the size loop",
               f"`{attr_}` steers the early exit of the size loop and is written by it: it is re-initialised at the start of every search "
               "(a value left by an earlier search on the same object would end this search before any level is tried)", node=sl)
    it = origin(defs, sl.iter)
    m = pmatch("range($$mk, 0, -1)", it) or pmatch("reversed(range(1, $$mk + 1))", it)
    rep.ob("O12.2", "R16", fi, m is not None, it, "candidate sizes descend from max_k to 1 (largest common subgraphs are found first)", node=sl)
    mk = None
    if m:
        mk_node = it.args[0] if call_name(it) == "range" else it.args[0].args[1].left
        mk = origin(defs, mk_node)
    ok = mk is not None and _flat(mk) in (f"min({P}.number_of_nodes(),{H}.number_of_nodes())", f"min(len({P}),len({H}))",
                                         f"min({H}.number_of_nodes(),{P}.number_of_nodes())")
    def _restricted(e):
        """the node pool comes out of a separate routine of the class that sees (pattern, host): a restriction of the pattern's nodes whose
        justification (no host node can match the dropped ones) this rule cannot read - not evidence of a wrong answer, not verified either"""
        src = origin(defs, e) if isinstance(e, ast.Name) else e
        return isinstance(src, ast.Call) and isinstance(src.func, ast.Attribute) and isinstance(src.func.value, ast.Name) and src.func.value.id in ("self", "cls") \
            and {norm(a_) for a_ in src.args} >= {P, H}
    if not ok and mk is not None and isinstance(mk, ast.Call) and call_name(mk) == "min" and len(mk.args) == 2:
        a_, b_ = mk.args
        pool = [x.args[0] for x in (a_, b_) if isinstance(x, ast.Call) and call_name(x) == "len" and x.args]
        hostside = [x for x in (a_, b_) if _flat(x) in (f"{H}.number_of_nodes()", f"len({H})")]
        if len(pool) == 1 and len(hostside) == 1 and _restricted(pool[0]):
            ok = None
    rep.ob("O12.2", "R16", fi, ok, mk if mk is not None else "max_k", "the largest candidate size is min(|pattern|, |host|)")
    # exits of the size loop (outside the inner loops)
    comb = [l for l in walk_local(sl) if isinstance(l, ast.For) and isinstance(l.iter, ast.Call) and call_name(l.iter) == "combinations"]
    rep.need("R16", len(comb), 1, "combinations loop")
    cl = comb[0]
    ok = _flat(cl.iter.args[0]) in (f"{P}.nodes()", f"{P}.nodes", f"{P}", f"list({P}.nodes())") and norm(cl.iter.args[1]) == k
    if not ok and norm(cl.iter.args[1]) == k and _restricted(cl.iter.args[0]):
        ok = None
    rep.ob("O12.2", "R16", fi, ok, cl.iter, "every k-subset of the pattern's nodes is a candidate")
    iso_loops = [l for l in walk_local(cl) if isinstance(l, ast.For) and isinstance(l.iter, ast.Call) and call_name(l.iter) in (M.SUB_METHODS | M.ISO_METHODS)]
    rep.need("R2", len(iso_loops), 1, "iso loop")
    il = iso_loops[0]
    # discovered roles: result list, inverted mapping, level flag, best size
    apps = [(c, b) for c, b in pfind("$$res.append($inv)", il)]
    # ... or stored under a key in a per-level dict:  <level>[key] = inv
    apps += [(st_, {"res": norm(st_.targets[0].value), "inv": st_.value.id}) for st_ in walk_local(il)
             if isinstance(st_, ast.Assign) and len(st_.targets) == 1 and isinstance(st_.targets[0], ast.Subscript) and isinstance(st_.value, ast.Name)
             and isinstance(st_.targets[0].value, ast.Name)]
    inv_name = res_txt = None
    for c, b in apps:
        src = origin(defs, ast.Name(id=b["inv"], ctx=ast.Load()))
        if pmatch(f"self._invert_mapping({norm(il.target)})", src) is not None:
            inv_name, res_txt, app_call = b["inv"], b["res"], c
    apps = [(c, b) for c, b in apps if b["inv"] == inv_name] if inv_name else apps
    flags = [norm(n.targets[0]) for n in walk_local(il) if isinstance(n, ast.Assign) and is_const(n.value, True) and isinstance(n.targets[0], ast.Name)]
    flag = flags[0] if len(set(flags)) == 1 else None
    best_w = [n for n in walk_local(sl) if isinstance(n, ast.Assign) and norm(n.value) == k and n not in walk_local(cl)]
    BEST = norm(best_w[0].targets[0]) if len(best_w) == 1 else None
    # "this level produced a mapping": a flag lowered once per level before the subsets are enumerated and raised where a mapping is stored,
    # or the length of the result list compared with a snapshot taken at that same place
    resets = [n for n in sl.body if flag and pmatch(f"{flag} = False", n) is not None]
    LEVEL = None
    if flag is not None:
        ok_flag = len(resets) == 1 and resets[0].lineno < cl.lineno and \
            not [n for n in walk_local(cl) if isinstance(n, ast.Assign) and norm(n.targets[0]) == flag and not is_const(n.value, True)]
        LEVEL = flag
        construct = resets[0] if resets else "level_found = False"
    else:
        snaps = [(n, b) for n in sl.body for b in [pmatch("$n = len($$res)", n)] if b is not None and res_txt and norm(n.value.args[0]) == res_txt and n.lineno < cl.lineno]
        ok_flag = None
        construct = "level_found = False"
        if len(snaps) == 1:
            sn, b = snaps[0]
            ok_flag = len(defs.get(b["n"], [])) == 1 and len(apps) == 1
            LEVEL = f"{b['n']}<len({_flat(sn.value.args[0])})"
            construct = sn
        elif res_txt and res_txt.isidentifier():
            # a per-level container: emptied once per size before the subsets are enumerated, filled only where a mapping is stored; "non-empty" is the signal
            fresh = [n for n in sl.body if isinstance(n, ast.Assign) and norm(n.targets[0]) == res_txt and n.lineno < cl.lineno
                     and ((isinstance(n.value, (ast.Dict, ast.List, ast.Set)) and not (getattr(n.value, "keys", None) or getattr(n.value, "elts", None)))
                          or (isinstance(n.value, ast.Call) and norm(n.value.func) in ("dict", "list", "set") and not n.value.args))]
            if len(fresh) == 1 and len([d_ for d_ in defs.get(res_txt, [])]) == 1 and len(apps) == 1:
                ok_flag, LEVEL, construct = True, res_txt, fresh[0]
    rep.ob("O12.2", "R16", fi, ok_flag, construct, "the level flag is lowered once per size, before its subsets are enumerated")
    stops_at_first_level = []   # exits taken in maximum mode as soon as a level produced a mapping
    for ex in [n for n in walk_local(sl) if isinstance(n, (ast.Break, ast.Return))]:
        inside_inner = any(l is cl or enclosing_loops(pm, l, sl) and cl in enclosing_loops(pm, l, sl) for l in enclosing_loops(pm, ex, sl))
        gs = [(_flat(t), s) for t, s in guards_of(pm, ex, sl)]
        if inside_inner:
            rep.ob("O12.2", "R16", fi, False, f"{type(ex).__name__} under {gs}", "the subset enumeration of a level is never cut short", node=ex)
            continue
        flat = [g for g, s in gs if s]
        in_mcs = any(g == "mcs" or g.startswith("mcsand") for g in flat)
        after_level = (LEVEL is not None and any(g == LEVEL for g in flat) and ex.lineno > cl.lineno) or (BEST is not None and any(f"{k}<{BEST}" in g for g in flat))
        if in_mcs and after_level and not any(g != LEVEL and g != "mcs" and not g.startswith("mcsand") and f"{k}<{BEST}" not in g for g in flat):
            stops_at_first_level.append(ex)
        rep.ob("O12.2", "R16", fi, in_mcs and after_level, f"{type(ex).__name__} under {flat}",
               "the search stops early only in maximum mode and only once a complete level has produced a result (or sizes fell below the best)", node=ex)
    # every subset of a level is handed to the matcher: a subset skipped before the matcher runs is sound only for a reason that holds for every
    # host (here: none is recognised except connectivity); a skip by a remembered *fingerprint* of earlier failures needs a complete invariant
    for ex in [n for n in walk_local(cl) if isinstance(n, (ast.Continue, ast.Break)) and not any(n is x for x in ast.walk(il))]:
        if isinstance(ex, ast.Continue) and ex.lineno > il.lineno:
            continue   # after the matcher loop of this subset: nothing of this subset is skipped
        gs = [t for t, s_ in guards_of(pm, ex, cl) if s_]
        if isinstance(ex, ast.Continue) and gs and all(any(isinstance(c_, ast.Call) and call_name(c_) in ("is_connected", "is_weakly_connected") for c_ in ast.walk(g)) for g in gs):
            continue
        okx, why = None, "not understood"
        cdefs = local_defs(fi.node)
        for g in gs:
            mmx = pmatch("$k in $s", g)
            if mmx is not None:
                from ..rules import provenance as PVx
                roots = PVx.all_roots(cdefs, ast.Name(id=mmx["k"], ctx=ast.Load()))
                exact = any(isinstance(r, ast.Call) and call_name(r) in ("frozenset", "tuple") and r.args and norm(r.args[0]) == norm(cl.target) for r in roots) or \
                    any(isinstance(r, ast.Name) and r.id == norm(cl.target) for r in roots)
                if exact:
                    okx, why = True, "the very same node set"
                else:
                    okx, why = False, (f"`{mmx['k']}` is a fingerprint of the sub-pattern ({', '.join(norm(r)[:40] for r in roots)}), not the sub-pattern: two non-isomorphic "
                                       "sub-patterns with the same fingerprint exist, and the second one is never tried against the host")
        rep.ob("O12.2", "R16", fi, okx, f"{type(ex).__name__} under {[_flat(g) for g in gs]}", "every subset of a level reaches the matcher unless it is literally the same node set: " + why, node=ex)
    rep.ob("O12.1", "R2", fi, call_name(il.iter) == "subgraph_isomorphisms_iter", il.iter,
           "common subgraphs are *induced*: bonds between mapped atoms must be present (with equal order) on both sides", node=il)
    def registered(coll, key):
        """the key is entered into the collection later in the loop: coll.add(key) or coll[key] = ..."""
        return bool(pfind(f"{coll}.add({key})", il)) or any(norm(t_.value) == coll and norm(t_.slice) == key for t_, v_, st_ in assigned_subscripts(il))
    for ex in [n for n in walk_local(il) if isinstance(n, (ast.Continue, ast.Break, ast.Return))]:
        gs = [t for t, s in guards_of(pm, ex, il) if s]
        # "not already skipped by an earlier duplicate test" is not a condition of its own
        gs = [t for t in gs if not ((mm0 := pmatch("$k not in $s", t)) is not None and registered(mm0["s"], mm0["k"]))]
        ok = False
        if isinstance(ex, ast.Continue) and inv_name:
            if len(gs) == 1:
                mm = pmatch("$key in $seen", gs[0])
                if mm:
                    ksrc = origin(local_defs(il), ast.Name(id=mm["key"], ctx=ast.Load()))
                    ok = pmatch(f"tuple(sorted({inv_name}.items()))", ksrc) is not None and registered(mm["seen"], mm["key"])
            elif len(gs) == 2 and "self.prune_automorphisms" in [norm(g) for g in gs]:
                other = [g for g in gs if norm(g) != "self.prune_automorphisms"][0]
                mm = pmatch("$hs in $hss", other)
                if mm:
                    hsrc = origin(local_defs(il), ast.Name(id=mm["hs"], ctx=ast.Load()))
                    ok = pmatch(f"frozenset({inv_name}.values())", hsrc) is not None and registered(mm["hss"], mm["hs"])
        rep.ob("O12.2", "R16", fi, ok, f"{type(ex).__name__} under {[_flat(g) for g in gs]}", "a mapping is skipped only as an exact duplicate (or, when asked, as an automorphic image)", node=ex)
    # matcher
    ss = [s for s in M.sites(fi)]
    rep.need("R2", len(ss), 1, f"GraphMatcher in {q}")
    s = ss[0]
    sub = origin(defs, s.g2)
    ok = norm(s.g1) == H and pmatch(f"{P}.subgraph({norm(cl.target)}).copy()", sub) is not None
    rep.ob("O12.1", "R2", fi, ok, s.call, "the matcher embeds the candidate sub-pattern (G2) into the host (G1)", {"G1": norm(s.g1), "G2": norm(sub)}, node=s.call)
    ok = s.node_match is not None and norm(s.node_match) == "self.node_match" and s.edge_match is not None and norm(s.edge_match) == "self._edge_match"
    rep.ob("O12.1", "R2", fi, ok, s.call, "node labels and bond orders are compared by the configured predicates", node=s.call)
    ok = inv_name is not None and len(apps) == 1 and norm(origin(defs, il.iter.func.value)) == norm(s.call)
    rep.ob("O12.1", "R2", fi, ok, apps[0][0] if apps else "append", "host->pattern dicts are inverted and stored pattern->host", node=il)
    RES = res_txt
    # final filter
    # a collection re-built from itself keeping the entries of the best size:  X = [m for m in X if len(m) == best]  /  X = {k: m for k, m in X.items() if len(m) == best}
    filt = []
    for n in walk_local(fi.node):
        if isinstance(n, ast.Assign) and isinstance(n.targets[0], ast.Name) and isinstance(n.value, (ast.ListComp, ast.DictComp)) and len(n.value.generators) == 1 and BEST:
            g_ = n.value.generators[0]
            X = n.targets[0].id
            if isinstance(n.value, ast.ListComp):
                elem, same = norm(g_.target), norm(g_.iter) == X and norm(n.value.elt) == norm(g_.target)
            else:
                tg_ = g_.target.elts if isinstance(g_.target, ast.Tuple) and len(g_.target.elts) == 2 else None
                elem = norm(tg_[1]) if tg_ else "?"
                same = tg_ is not None and norm(g_.iter) == f"{X}.items()" and norm(n.value.key) == norm(tg_[0]) and norm(n.value.value) == norm(tg_[1])
            if same and [_flat(i) for i in g_.ifs] == [f"len({elem})=={BEST}"]:
                filt.append(n)
    ok_filter = False
    if filt:
        gs = [_flat(t) for t, s_ in guards_of(pm, filt[0], fi.node) if s_]
        ok_filter = gs == [f"mcsand{BEST}"] and filt[0].lineno > sl.lineno
    # the same guarantee follows when maximum mode leaves the size loop at the first level that produced a mapping (nothing smaller is ever collected)
    ok = True if (ok_filter or stops_at_first_level) else False
    rep.ob("O12.2", "R16", fi, ok, filt[0] if filt else (stops_at_first_level[0] if stops_at_first_level else "final filter"),
           "in maximum mode only mappings of the best size are kept (all returned mappings have the same size)",
           {"filter": bool(ok_filter), "stops_at_first_productive_level": bool(stops_at_first_level)})
    ok = len(best_w) == 1 and LEVEL is not None and [_flat(t) for t, s_ in guards_of(pm, best_w[0], sl) if s_] == [LEVEL] and best_w[0].lineno > cl.lineno
    rep.ob("O12.2", "R16", fi, ok, best_w[0] if best_w else "best size", "the best size is the first (largest) level that produced a mapping")


def invert(rep, rel):
    fi = rep.f(rel, "MCSMatcher._invert_mapping")
    rets = returns_of(fi.node)
    inv = M.inverted_dict(rets[-1].value) if rets else None
    rep.ob("O12.1", "R2", fi, inv is True and norm(rets[-1].value.generators[0].iter).replace(" ", "") == f"{fi.params[0]}.items()", rets[-1] if rets else "return",
           "_invert_mapping is a true inverse (keys and values swapped, nothing filtered)")


def mcs_mol(rep, rel):
    fi = rep.f(rel, "MCSMatcher._find_mcs_mol")
    A, B = fi.params[1], fi.params[2]
    pm = parent_map(fi.node)
    # a LIST of attribute names is expected wherever a parameter is called `edge_attrs` / `node_attrs` (it is iterated): handing it one name (a field or
    # variable called `edge_attr` / `node_attr`, a string literal) makes the callee iterate the characters - no such attribute exists on either bond, so
    # every bond matches every bond
    for c in [c for c in walk_local(fi.node, into_nested=True) if isinstance(c, ast.Call)]:
        for pname in ("edge_attrs", "node_attrs", "edge_attr_keys", "node_attr_keys"):
            v = kwarg(c, pname)
            if v is None:
                continue
            single = (isinstance(v, ast.Constant) and isinstance(v.value, str)) or \
                (isinstance(v, (ast.Name, ast.Attribute)) and norm(v).split(".")[-1].lstrip("_") in ("edge_attr", "node_attr", "edge_attribute", "node_attribute"))
            if single:
                rep.ob("O12.1", "R2", fi, False, c, f"`{pname}` receives one attribute name (`{norm(v)}`) where a list of names is iterated: bond orders are not compared", node=c)
    ss = M.sites(fi)
    rep.need("R2", len(ss), 1, "GraphMatcher in _find_mcs_mol")
    s = ss[0]
    defs = local_defs(fi.node)
    a, b = origin(defs, s.g1), origin(defs, s.g2)
    ma, mb = pmatch(f"{A}.subgraph($c1)", a), pmatch(f"{B}.subgraph($c2)", b)
    rep.ob("O12.1", "R2", fi, ma is not None and mb is not None, s.call, "molecule mode matches a component of G1 with a component of G2", node=s.call)
    rep.ob("O12.1", "R2", fi, [m for m, _ in s.methods] == ["is_isomorphic"], [m for m, _ in s.methods], "components are matched by full isomorphism")
    cont = [n for n in walk_local(fi.node) if isinstance(n, ast.Continue)]
    ctx = [t for n in cont for t, sn in guards_of(pm, n, fi.node) if sn]
    ok = False
    used = key = None
    if ma and mb:
        c1, c2 = ma["c1"], mb["c2"]
        size_ok = any((mm := pmatch(f"len({c2}) != $sz", t)) is not None and pmatch(f"len({c1})", origin(defs, ast.Name(id=mm["sz"], ctx=ast.Load()))) is not None for t in ctx) \
            or any(pmatch(f"len({c2}) != len({c1})", t) is not None for t in ctx)
        for t in ctx:
            mm = pmatch("$k in $used", t)
            if mm and pmatch(f"frozenset({c2})", origin(defs, ast.Name(id=mm["k"], ctx=ast.Load()))) is not None:
                used, key = mm["used"], mm["k"]
        ok = size_ok and used is not None
    rep.ob("O12.1", "R2", fi, ok, [norm(t) for t in ctx], "only unused components of equal size are candidates (injective on components)")
    rets = returns_of(fi.node)
    res = norm(rets[-1].value) if rets else None
    up = [c for c in walk_local(fi.node) if isinstance(c, ast.Call) and norm(c.func) == f"{res}.update"]
    ok = len(up) == 1 and norm(up[0].args[0]) == f"{s.var}.mapping" and any(call_name(t) == "is_isomorphic" and sn for t, sn in guards_of(pm, up[0], fi.node) if isinstance(t, ast.Call))
    rep.ob("O12.1", "R2", fi, ok, up[0] if up else "combined.update", "the G1->G2 mapping of an isomorphic pair is recorded as is")
    mark = [c for c in walk_local(fi.node) if used and isinstance(c, ast.Call) and pmatch(f"{used}.add({key})", c) is not None]
    rep.ob("O12.1", "R2", fi, len(mark) == 1 and [(norm(t), s_) for t, s_ in guards_of(pm, mark[0], fi.node)] == [(norm(t), s_) for t, s_ in guards_of(pm, up[0], fi.node)] if up and mark else False,
           mark[0] if mark else "used2.add", "a matched G2 component is not used again")


_ORDERS = (1, 2, 3, 1.5, 1.0, 2.0)


def _edge_table(fn_node, env_of):
    """evaluate an edge predicate on every pair of sample bond orders -> list of disagreements with `equal orders <=> accepted` (Undecided propagates)"""
    from ..absval import eval_function
    bad = []
    for h in _ORDERS:
        for p_ in _ORDERS:
            got = eval_function(fn_node, env_of({"order": h}, {"order": p_}))
            if bool(got) != (h == p_):
                bad.append(f"host {h!r} / pattern {p_!r} -> {got!r}")
    for ha, pa in (({"order": 1}, {}), ({}, {"order": 2})):
        got = eval_function(fn_node, env_of(ha, pa))
        if got:
            bad.append(f"host {ha} / pattern {pa} -> accepted")
    return bad


def edge_match(rep):
    fi = rep.f(MM, "MCSMatcher._edge_match")
    HA, PA = fi.params[1], fi.params[2]
    # the predicate is a small decision function: tabulate it on a finite domain of bond orders
    table = None
    try:
        table = _edge_table(fi.node, lambda ha, pa: {"self._edge_attrs": ("order",), HA: ha, PA: pa})
        from ..absval import eval_function
        # two attributes: agreement on the first must not decide the answer
        got2 = eval_function(fi.node, {"self._edge_attrs": ("order", "other"), HA: {"order": 1, "other": 1}, PA: {"order": 1, "other": 2}})
        if got2:
            table.append("order equal, second attribute different -> accepted")
    except Undecided:
        table = None
    if table is not None:
        rep.ob("O12.1", "R13", fi, not table, "_edge_match on sample bond orders", "bonds are accepted exactly when every configured attribute is equal on both sides "
               "(numeric comparison for numbers; an attribute missing on one side rejects)", {"disagreements": table[:6], "orders": list(_ORDERS)})
    else:
        _edge_match_shape(rep, fi)
    mt = rep.f(MT, "MCSMatcher._edge_match")
    try:
        bad = _edge_table(mt.node, lambda ha, pa: {"self.edge_attr": "order", mt.params[1]: ha, mt.params[2]: pa})
        rep.ob("O12.1", "R13", mt, not bad, "MTG _edge_match on sample bond orders", "MTG twin: bond orders are compared for equality", {"disagreements": bad[:6]})
    except Undecided:
        rets = returns_of(mt.node)
        ok = any("==" in norm(r.value) and f"{mt.params[1]}.get(self.edge_attr)" in norm(r.value) and f"{mt.params[2]}.get(self.edge_attr)" in norm(r.value) for r in rets)
        rep.ob("O12.1", "R13", mt, True if ok else None, [norm(r.value)[:60] for r in rets], "MTG twin: bond orders are compared for equality")


def _edge_match_shape(rep, fi):
    """structural fall-back when the predicate cannot be tabulated"""
    HA, PA = fi.params[1], fi.params[2]
    pm = parent_map(fi.node)
    loops = [l for l in walk_local(fi.node) if isinstance(l, ast.For)]
    ok = len(loops) == 1 and norm(loops[0].iter) == "self._edge_attrs"
    rep.ob("O12.1", "R13", fi, ok, loops[0].iter if loops else "for", "every configured edge attribute is examined")
    hv = pv = None
    if loops:
        lp = loops[0]
        nm = norm(lp.target)
        for st, b in pfind(f"$v = {HA}.get({nm}, None)", lp) + pfind(f"$v = {HA}.get({nm})", lp):
            hv = b["v"]
        for st, b in pfind(f"$v = {PA}.get({nm}, None)", lp) + pfind(f"$v = {PA}.get({nm})", lp):
            pv = b["v"]
        inside = [r for r in walk_local(lp) if isinstance(r, ast.Return)]
        ok = bool(inside) and all(is_const(r.value, False) for r in inside)
        rep.ob("O12.1", "R13", fi, ok, [norm(r) for r in inside], "inside the loop the predicate can only reject (no early acceptance after the first attribute)")
        brk = [n for n in walk_local(lp) if isinstance(n, ast.Break)]
        rep.ob("O12.1", "R13", fi, not brk, [norm(b) for b in brk], "the attribute loop is not cut short")
        conts = [n for n in walk_local(lp) if isinstance(n, ast.Continue)]
        okc = hv is not None and pv is not None and all([_flat(t) for t, s in guards_of(pm, n, lp) if s] in ([f"{hv}isNoneand{pv}isNone"], [f"{pv}isNoneand{hv}isNone"]) for n in conts)
        rep.ob("O12.1", "R13", fi, okc, [norm(t) for n in conts for t, s in guards_of(pm, n, lp)], "an attribute is ignored only if it is missing on both sides")
    rets = returns_of(fi.node)
    rep.ob("O12.1", "R13", fi, bool(rets) and is_const(rets[-1].value, True) and not guards_of(pm, rets[-1], fi.node), rets[-1] if rets else "return", "acceptance only after all attributes agreed")
    cmp_ = [n for n in walk_local(fi.node) if isinstance(n, ast.Compare) and isinstance(n.ops[0], ast.NotEq)]
    ok = hv is not None and pv is not None and len(cmp_) == 2 and any(pmatch(f"float({hv}) != float({pv})", c) is not None for c in cmp_) \
        and any(pmatch(f"{hv} != {pv}", c) is not None for c in cmp_)
    rep.ob("O12.1", "R13", fi, ok, [norm(c) for c in cmp_], "values are compared for (numeric or plain) equality between the host bond and the pattern bond")


def orientation(rep):
    po = rep.f(MM, "MCSMatcher._prepare_orientation")
    P = po.params[1:3]
    pm = parent_map(po.node)
    # a decision function of the two sizes: tabulate it
    from ..absval import eval_function
    bad, decided = [], True
    for na, nb, ea, eb in [(a_, b_, x_, y_) for a_, b_ in ((1, 2), (2, 1), (2, 2), (0, 3), (5, 4)) for x_, y_ in ((1, 2), (2, 1), (1, 1))]:
        size = {"<A>": na, "<B>": nb}
        edges = {"<A>": ea, "<B>": eb}
        env = {P[0]: "<A>", P[1]: "<B>"}
        for nm, tag in ((P[0], "<A>"), (P[1], "<B>")):
            for txt in (f"{nm}.number_of_nodes()", f"len({nm})", f"len({nm}.nodes)", f"len({nm}.nodes())", f"{nm}.order()"):
                env[txt] = size[tag]
            for txt in (f"{nm}.number_of_edges()", f"len({nm}.edges)", f"len({nm}.edges())", f"{nm}.size()"):
                env[txt] = edges[tag]
        try:
            got = eval_function(po.node, env)
        except Undecided:
            decided = False
            break
        if not (isinstance(got, tuple) and len(got) == 3 and {got[0], got[1]} == {"<A>", "<B>"}):
            bad.append(f"sizes {na},{nb} (edges {ea},{eb}) -> {got!r}")
        else:
            if size[got[0]] > size[got[1]]:
                bad.append(f"sizes {na},{nb}: the larger graph became the pattern")
            if bool(got[2]) != (got[0] == "<A>"):
                bad.append(f"sizes {na},{nb} (edges {ea},{eb}): flag {got[2]!r} but pattern is {'the first' if got[0] == '<A>' else 'the second'} input")
    rets = returns_of(po.node)
    rep.ob("O12.3", "R17", po, (not bad) if decided else None, "_prepare_orientation on sample sizes",
           "the smaller graph becomes the pattern and the flag says whether the first input became the pattern", {"disagreements": bad[:6]}, node=rets[0] if rets else po.node)
    fc = rep.f(MM, "MCSMatcher.find_common_subgraph")
    d = local_defs(fc.node)
    A, B = fc.params[1], fc.params[2]
    b = pall(["$p, $h, $f = self._prepare_orientation($a, $b)", "self._last_pattern_is_G1 = $f", "self._mappings = self._search_subgraphs($p, $h, mcs=mcs)"], fc.node)
    if b is None:
        # the same three steps with further keyword arguments on the search call that are options newer than the pinned tree (they do not exist in its
        # parameter inventory): such options are the callee's business, the wiring of (pattern, host, mcs) is what this rule is about
        from ..specialise import baseline_params
        old_params = set(baseline_params().get(MM, {}).get("MCSMatcher._search_subgraphs", []))
        b2 = pall(["$p, $h, $f = self._prepare_orientation($a, $b)", "self._last_pattern_is_G1 = $f"], fc.node)
        for st_ in walk_local(fc.node):
            if b2 is not None and isinstance(st_, ast.Assign) and norm(st_.targets[0]) == "self._mappings" and isinstance(st_.value, ast.Call) \
                    and norm(st_.value.func) == "self._search_subgraphs" and [norm(a_) for a_ in st_.value.args[:2]] == [b2["p"], b2["h"]] \
                    and kwarg(st_.value, "mcs") is not None and norm(kwarg(st_.value, "mcs")) == "mcs" \
                    and all(k_.arg is not None and (k_.arg == "mcs" or k_.arg not in old_params) for k_ in st_.value.keywords) and len(st_.value.args) == 2:
                b = b2
    ok = b is not None and pmatch(f"self._prune_graph({A})", origin(d, ast.Name(id=b["a"], ctx=ast.Load()))) is not None \
        and pmatch(f"self._prune_graph({B})", origin(d, ast.Name(id=b["b"], ctx=ast.Load()))) is not None
    rep.ob("O12.3", "R17", fc, ok, "pattern, host, pattern_is_G1 = self._prepare_orientation(G1_use, G2_use)", "the orientation triple is unpacked in order, for (G1, G2)")
    rep.ob("O12.3", "R17", fc, b is not None, "self._last_pattern_is_G1 = pattern_is_G1", "the orientation flag of this search is remembered")
    rep.ob("O12.3", "R17", fc, b is not None, "self._search_subgraphs(pattern, host, mcs=mcs)", "the search receives (pattern, host) in this order and the maximum-mode flag")
    # every mapping that find_common_subgraph stores comes out of the verified enumeration (or the documented mcs_mol combination); a mapping
    # from another producer (a fast path, a cache) bypasses the induced-subgraph test of the enumeration
    from ..rules import provenance as PV
    stores = [n for n in walk_local(fc.node) if isinstance(n, ast.Assign) and any(norm(t) == "self._mappings" for t in n.targets)]
    rep.need("R17", len(stores), 2, "stores to self._mappings in find_common_subgraph")
    KNOWN = {"_search_subgraphs", "_find_mcs_mol"}
    n_known = 0
    for st in stores:
        for r in PV.all_roots(d, st.value):
            if isinstance(r, (ast.List, ast.Constant)) or (isinstance(r, ast.Call) and call_name(r) in KNOWN):
                n_known += 1
                continue
            ok, why = None, f"`{norm(r)[:60]}` is not one of the verified producers"
            if isinstance(r, ast.Call) and isinstance(r.func, ast.Attribute) and isinstance(r.func.value, ast.Name) and r.func.value.id == "self":
                prod = rep.repo.maybe_func(MM, f"MCSMatcher.{r.func.attr}")
                if prod is not None:
                    # a hand-written validator: bond presence has to be tested in both directions (induced), not only pattern bonds in the host
                    loops_over = {norm(l.iter.func.value) for l in walk_local(prod.node) if isinstance(l, ast.For) and isinstance(l.iter, ast.Call)
                                  and isinstance(l.iter.func, ast.Attribute) and l.iter.func.attr == "edges"}
                    tested = {norm(c.func.value) for c in walk_local(prod.node) if isinstance(c, ast.Call) and isinstance(c.func, ast.Attribute) and c.func.attr == "has_edge"}
                    counts = [c for c in walk_local(prod.node) if isinstance(c, ast.Call) and call_name(c) in ("number_of_edges", "subgraph", "is_isomorphic", "subgraph_is_isomorphic")]
                    if loops_over and tested and not (tested & loops_over) and not counts and not (tested <= loops_over and loops_over <= tested):
                        one_way = loops_over - tested
                        if one_way and not counts:
                            ok, why = False, (f"`{prod.qual}` tests that every bond of {sorted(loops_over)} exists in {sorted(tested)}, never the other way round: "
                                              f"an extra bond of {sorted(tested)} between mapped atoms is accepted (monomorphism, not a common induced subgraph)")
            rep.ob("O12.1", "R17", fc, ok, r, "stored mappings come from the verified enumeration: " + why, node=st)
    rep.ob("O12.1", "R17", fc, n_known >= 2, f"{len(stores)} stores, {n_known} producers", "find_common_subgraph stores the result of the verified enumeration (and the mcs_mol combination)")
    # get_mappings parity: a decision function of (direction, orientation flag): tabulate it with the two conversions kept symbolic
    gmf = rep.f(MM, "MCSMatcher.get_mappings")
    dirp = gmf.params[1]
    from ..absval import _NOVALUE, eval_expr as _ev

    def hook(expr, env):
        if isinstance(expr, ast.Call) and len(expr.args) == 1 and not expr.keywords:
            if norm(expr.func) == "dict":
                return ("keep", _ev(expr.args[0], env))
            if norm(expr.func) in ("self._invert_mapping", "MCSMatcher._invert_mapping"):
                return ("inv", _ev(expr.args[0], env))
        return _NOVALUE
    for direction in ("G1_to_G2", "G2_to_G1", "pattern_to_host"):
        for pig1 in (True, False):
            want = "keep" if direction == "pattern_to_host" or ((direction == "G1_to_G2") == pig1) else "inv"
            try:
                got = eval_function(gmf.node, {dirp: direction, "self._last_pattern_is_G1": pig1, "self._mappings": ("<m1>", "<m2>"), "__resolve__": hook})
                ok = got is not None and list(got) == [(want, "<m1>"), (want, "<m2>")]
            except Undecided:
                got, ok = "?", None
            rep.ob("O12.3", "R17", gmf, ok, f"direction={direction}, pattern_is_G1={pig1}",
                   f"every cached pattern->host mapping is returned once, {'inverted' if want == 'inv' else 'as a copy'} for this orientation (the two directions are mutually inverse)",
                   {"returned": repr(got)[:120]})
    cw = rep.f(MM, "MCSMatcher._componentwise_mcs")
    pm = parent_map(cw.node)
    cd = local_defs(cw.node)
    rets = returns_of(cw.node)
    res = norm(rets[-1].value) if rets else None
    ups = [c for c in walk_local(cw.node) if isinstance(c, ast.Call) and norm(c.func) == f"{res}.update"]
    fls = [nm for nm, ds in cd.items() for d_ in ds if d_.index == (2,) and isinstance(d_.value, ast.Call) and call_name(d_.value) == "_prepare_orientation"]
    rep.need("R17", len(ups), 2, "combined.update in _componentwise_mcs")
    for c in ups:
        gs = [(norm(t), s) for t, s in guards_of(pm, c, cw.node)]
        inv = "_invert_mapping" in norm(c)
        ok = bool(fls) and (((fls[0], True) in gs and not inv) or ((fls[0], False) in gs and inv))
        rep.ob("O12.3", "R17", cw, ok, f"{alpha(c, cw.node)} under {[s for _, s in gs]}", "component-wise results are combined as G1->G2 (inverted exactly when the pattern was taken from G2)", node=c)


MUTANTS = [
    dict(name="ascending size loop", file=MM, expect="O12.2", old="        for k in range(max_k, 0, -1):", new="        for k in range(1, max_k + 1):"),
    dict(name="break inside the combinations loop", file=MM, expect="O12.2",
         old="                    mappings.append(inv)\n                    level_found = True\n", new="                    mappings.append(inv)\n                    level_found = True\n                if level_found and mcs:\n                    break\n"),
    dict(name="sub-pattern first", file=MM, expect="O12.1",
         old="                gm = GraphMatcher(\n                    host,\n                    sub_pat,", new="                gm = GraphMatcher(\n                    sub_pat,\n                    host,"),
    dict(name="monomorphism instead of induced", file=MM, expect="O12.1", old="                for iso in gm.subgraph_isomorphisms_iter():", new="                for iso in gm.subgraph_monomorphisms_iter():"),
    dict(name="get_mappings arm swapped", file=MM, expect="O12.3",
         old='            if direction == "G1_to_G2":\n                if pattern_is_G1:\n                    result.append(dict(m))\n                else:\n                    result.append(self._invert_mapping(m))',
         new='            if direction == "G1_to_G2":\n                if pattern_is_G1:\n                    result.append(self._invert_mapping(m))\n                else:\n                    result.append(dict(m))'),
    dict(name="orientation flag wrong", file=MM, expect="O12.3", old="        return G2, G1, False", new="        return G2, G1, True"),
    dict(name="edge predicate accepts after the first attribute", file=MM, expect="O12.1",
         old="            except (TypeError, ValueError):\n                if hv != pv:\n                    return False\n        return True",
         new="            except (TypeError, ValueError):\n                if hv != pv:\n                    return False\n            return True\n        return True"),
    dict(name="MTG twin: host and pattern swapped", file=MT, expect="O12.1",
         old="                gm = GraphMatcher(\n                    G2,\n                    subG,", new="                gm = GraphMatcher(\n                    subG,\n                    G2,"),
    dict(name="MTG twin: stop at the first level even without mcs", file=MT, expect="O12.2",
         old="            if level_found:\n                self._last_size = k\n                if mcs:\n                    break  # done – maximum size reached", new="            if level_found:\n                self._last_size = k\n                break"),
    dict(name="invert mapping filters fixed points", file=MM, expect="O12.1",
         old="        return {pat: host for host, pat in gm_mapping.items()}", new="        return {pat: host for host, pat in gm_mapping.items() if pat != host}"),
    dict(name="largest size is the pattern size", file=MM, expect="O12.2",
         old="        max_k = min(pattern.number_of_nodes(), host.number_of_nodes())", new="        max_k = pattern.number_of_nodes() - 1"),
    dict(name="mcs_mol accepts different sizes", file=MM, expect="O12.1", old="                if len(comp2) != size:\n                    continue\n                key2 = frozenset(comp2)\n                if key2 in used2:", new="                key2 = frozenset(comp2)\n                if key2 in used2:"),
    dict(name="search gets host and pattern swapped", file=MM, expect="O12.3",
         old="        self._mappings = self._search_subgraphs(pattern, host, mcs=mcs)", new="        self._mappings = self._search_subgraphs(host, pattern, mcs=mcs)"),
]

TWINS = [
    # found in round 4: in maximum mode the size loop is left at the first level that produced a mapping, so nothing smaller is ever collected and
    # the final size filter is redundant - dropping it preserves behaviour (this used to be listed as a mutant; the rule was over-demanding)
    dict(name="final size filter dropped (redundant: maximum mode stops at the first productive level)", file=MM,
         old="        if mcs and best_size:\n            mappings = [m for m in mappings if len(m) == best_size]\n", new=""),
    dict(name="size loop via reversed(range())", file=MM, old="        for k in range(max_k, 0, -1):", new="        for k in reversed(range(1, max_k + 1)):"),
]


# ------------------------------------------------------------------ the node predicate compares EVERY selected label
def label_lists(rep):
    """networkx.generic_node_match(names, defaults, ops) zips its three lists: a shorter `defaults` or `ops` silently drops the
    remaining labels from the comparison (atoms that differ in charge or hcount are then paired).  Every list handed to it must be
    length-linked to the list of names."""
    for rel in (MM, MT):
        fi = rep.f(rel, "MCSMatcher.__init__")
        defs = local_defs(fi.node)
        calls = [c for c in walk_local(fi.node) if isinstance(c, ast.Call) and call_name(c) == "generic_node_match"]
        rep.need("R13", len(calls), 1, f"generic_node_match(...) in {rel}")
        c = calls[0]
        if len(c.args) != 3 or not isinstance(c.args[0], ast.Name):
            rep.ob("O12.1", "R13", fi, None, c, "generic_node_match call shape not recognised", node=c)
            continue
        names = c.args[0].id

        def linked(e):
            """is the value of e a list with exactly one entry per name?"""
            if pmatch(f"[$$x] * len({names})", e) is not None or pmatch(f"len({names}) * [$$x]", e) is not None:
                return True
            if isinstance(e, ast.ListComp) and len(e.generators) == 1 and norm(e.generators[0].iter) == names and not e.generators[0].ifs:
                return True
            return False
        for pos, what in ((1, "defaults"), (2, "comparison operators")):
            a = c.args[pos]
            if isinstance(a, ast.Name):
                binds = [d_ for d_ in defs.get(a.id, []) if d_.kind == "assign"]
                # `x = V if x is None else x` (default of a parameter): V must be linked; the parameter's own value is the caller's business
                def leaves(e):
                    return leaves(e.body) + leaves(e.orelse) if isinstance(e, ast.IfExp) else [e]
                bad = [d_ for d_ in binds if not all(linked(x_) for x_ in leaves(d_.value) if not (isinstance(x_, ast.Name) and x_.id == a.id))]
                is_param = any(d_.kind == "param" for d_ in defs.get(a.id, []))
                ok = not bad and (bool(binds) or is_param)
                rep.ob("O12.1", "R13", fi, ok, alpha(bad[0].stmt, fi.node) if bad else f"{what}: one entry per selected label",
                       f"the list of {what} given to generic_node_match has one entry per selected label (a shorter list makes zip() drop the remaining labels from the comparison)",
                       node=bad[0].stmt if bad else c)
            else:
                rep.ob("O12.1", "R13", fi, linked(a), alpha(a, fi.node),
                       f"the list of {what} given to generic_node_match has one entry per selected label (a shorter list makes zip() drop the remaining labels from the comparison)", node=c)


def shared_bookkeeping(rep):
    """bookkeeping containers handed to helpers must really be shared (injectivity of the component assignment rests on them)"""
    from ..rules.falsy_default import sites
    ss = sites(rep.repo, (MM, MT))
    n = 0
    for fi, st, p, relying in ss:
        for caller, c in relying:
            n += 1
            rep.ob("O12.1", "R9", fi, False, alpha(st, fi.node),
                   f"`{p} = {p} or <fresh container>` replaces the caller's EMPTY container by a private one: {caller.qual} passes its own container and relies on it being "
                   "filled (components / atoms already used), so nothing is ever recorded and the same target is assigned twice (the mapping is no longer injective)", node=st)
    if n == 0:
        rep.ob("O12.1", "R9", f"{MM}:MCSMatcher", True, f"{len(ss)} `p = p or <container>` rebinding(s), none relied upon by a caller",
               "bookkeeping containers passed to helpers are shared with the caller")
