"""C13 - clustering partitions graphs exactly into isomorphism classes (narrow)."""
from __future__ import annotations

import ast

from ..cfg import CFG, ENTRY, EXIT
from ..core import (AnalysisError, call_name, const, dotted, is_const, kwarg, local_defs, norm, origin,
                    parent_map, walk_local)
from ..facts import default_of, guards_of, returns_of, enclosing_loops

GC = "synkit/Graph/Matcher/graph_cluster.py"
BC = "synkit/Graph/Matcher/batch_cluster.py"
MO = "synkit/Graph/Matcher/graph_morphism.py"

META = {
    "explanation": (
        "R13 sibling agreement: GraphCluster, BatchCluster and the default-constructed GraphCluster() used inside "
        "BatchCluster.fit build the same predicate - full isomorphism (nx.is_isomorphic via graph_isomorphism) with "
        "generic_node_match([element, charge], ['*', 0], eq) and generic_edge_match('order', 1, eq). R6b-style pairing on "
        "the CFG: every item receives exactly one class - visited.add(x) is always paired with rule_to_cluster[x] = ..., "
        "one clusters.append per new class, an item is skipped only if already visited; the incremental path sets "
        "data['class'] on both exits of its for-else, a new class id is max + 1 and the new representative is stored "
        "as a copy."
    ),
    "rules": {"R13": "sibling predicate agreement", "R6b": "exactly-once assignment / pairing on the CFG", "SHAPE": "incremental classification shape"},
    "not_decided": "order independence of the partition (needs transitivity of the runtime predicate, which holds for exact isomorphism)",
    "trusted_base": ["CPython ast", "sa/* analyser", "networkx generic_node_match / generic_edge_match / is_isomorphic"],
    "assumptions": ["the pre-grouping attribute is isomorphism-invariant (stated in the property)"],
}


def _pred(fi):
    """(node_names_default, node_defaults_default, edge_attr_default, node ops are eq, edge default, edge op)"""
    names = default_of(fi, "node_label_names")
    dflt = default_of(fi, "node_label_default")
    eattr = default_of(fi, "edge_attribute")
    nm = em = None
    for n in walk_local(fi.node):
        if isinstance(n, ast.Assign) and norm(n.targets[0]) == "self.nodeMatch" and isinstance(n.value, ast.Call):
            nm = n.value
        if isinstance(n, ast.Assign) and norm(n.targets[0]) == "self.edgeMatch" and isinstance(n.value, ast.Call):
            em = n.value
    return names, dflt, eattr, nm, em


def run(rep):
    rep.run(predicate)
    rep.run(iterative)
    rep.run(fit)
    rep.run(incremental)


def predicate(rep):
    g = rep.f(GC, "GraphCluster.__init__")
    b = rep.f(BC, "BatchCluster.__init__")
    facts = {}
    for tag, fi in (("GraphCluster", g), ("BatchCluster", b)):
        names, dflt, eattr, nm, em = _pred(fi)
        try:
            facts[tag] = {"names": list(const(names)), "defaults": list(const(dflt)), "edge": const(eattr)}
        except (ValueError, TypeError):
            rep.ob("O13.1", "R13", fi, None, "defaults", "label defaults are not literal")
            continue
        ok = isinstance(nm, ast.Call) and call_name(nm) == "generic_node_match" and len(nm.args) == 3 \
            and norm(nm.args[0]).split(".")[-1] in ("nodeLabelNames", "node_label_names") \
            and norm(nm.args[1]).split(".")[-1] in ("nodeLabelDefault", "node_label_default")
        ops = norm(nm.args[2]).replace(" ", "") if ok else ""
        ok_ops = ops in ("[eq]*len(node_label_names)", "[eqfor_innode_label_names]")
        rep.ob("O13.1", "R13", fi, ok and ok_ops, nm if nm is not None else "nodeMatch", f"{tag}: nodes are compared for *equality* on every configured label (with defaults)", {"ops": ops}, node=nm)
        ok = isinstance(em, ast.Call) and call_name(em) == "generic_edge_match" and len(em.args) == 3 \
            and norm(em.args[0]).split(".")[-1] in ("edgeAttribute", "edge_attribute") and is_const(em.args[1]) and em.args[1].value == 1 and norm(em.args[2]) == "eq"
        rep.ob("O13.1", "R13", fi, ok, em if em is not None else "edgeMatch", f"{tag}: bonds are compared for equality of the bond-order attribute (default 1)", node=em)
        imp = fi.module.imports.get("eq", "")
        rep.ob("O13.1", "R13", fi, imp == "operator.eq", f"eq <- {imp}", f"{tag}: `eq` is operator.eq")
    want = {"names": ["element", "charge"], "defaults": ["*", 0], "edge": "order"}
    rep.ob("O13.1", "R13", b, facts.get("GraphCluster") == facts.get("BatchCluster") == want, str(facts),
           "one-shot and batched clustering agree on what 'isomorphic' means by default: element, charge and bond order")
    # both route to full graph isomorphism
    for rel, q in ((GC, "GraphCluster.iterative_cluster"), (BC, "BatchCluster.lib_check")):
        fi = rep.f(rel, q)
        d = local_defs(fi.node)
        iso = [x for x in d.get("iso_function", []) if x.kind == "assign"]
        pm = parent_map(fi.node)
        graph_branch = [x for x in iso if any("nx.Graph" in norm(t) and s for t, s in guards_of(pm, x.stmt, fi.node))]
        ok = len(graph_branch) == 1 and norm(graph_branch[0].value) == "graph_isomorphism"
        rep.ob("O13.1", "R13", fi, ok, graph_branch[0].stmt if graph_branch else "iso_function", "graphs are compared with graph_isomorphism (full isomorphism, not containment)")
        imp = fi.module.imports.get("graph_isomorphism", "")
        rep.ob("O13.1", "R13", fi, imp.endswith("graph_morphism.graph_isomorphism"), f"import <- {imp}", "graph_isomorphism is the one of graph_morphism")
        calls = [c for c in walk_local(fi.node) if isinstance(c, ast.Call) and norm(c.func) == "iso_function" and len(c.args) == 4]
        rep.need("R13", len(calls), 1, f"iso_function(a, b, nodeMatch, edgeMatch) in {q}")
        c = calls[0]
        a2, a3 = norm(c.args[2]).replace(" ", ""), norm(c.args[3]).replace(" ", "")
        ok = a2 in ("nodeMatch", "nodeMatchorself.nodeMatch") and a3 in ("edgeMatch", "edgeMatchorself.edgeMatch")
        rep.ob("O13.1", "R13", fi, ok, c, "the configured node and bond predicates are the ones applied", node=c)
    gi = rep.f(MO, "graph_isomorphism")
    cs = [c for c in walk_local(gi.node) if isinstance(c, ast.Call) and (dotted(c.func) or "") == "nx.is_isomorphic"]
    ok = len(cs) == 1 and [norm(a) for a in cs[0].args[:2]] == gi.params[:2] and norm(kwarg(cs[0], "node_match") or ast.Constant(None)) == "node_match" \
        and norm(kwarg(cs[0], "edge_match") or ast.Constant(None)) == "edge_match"
    rep.ob("O13.1", "R13", gi, ok, cs[0] if cs else "nx.is_isomorphic", "graph_isomorphism is nx.is_isomorphic with the given predicates")
    ft = rep.f(GC, "GraphCluster.fit")
    ic = [c for c in walk_local(ft.node) if isinstance(c, ast.Call) and call_name(c) == "iterative_cluster"]
    ok = bool(ic) and [norm(a) for a in ic[0].args] == ["rules", "attributes", "self.nodeMatch", "self.edgeMatch"]
    rep.ob("O13.1", "R13", ft, ok, ic[0] if ic else "iterative_cluster", "fit clusters with the instance's predicates")
    bf = rep.f(BC, "BatchCluster.fit")
    gcs = [c for c in walk_local(bf.node) if isinstance(c, ast.Call) and call_name(c) == "GraphCluster"]
    ok = bool(gcs) and not gcs[0].args and not gcs[0].keywords
    rep.ob("O13.1", "R13", bf, ok, gcs[0] if gcs else "GraphCluster()", "the one-shot path inside BatchCluster.fit uses a default GraphCluster (same default predicate as shown above)")
    if ok:
        rep.note("C13: BatchCluster.fit builds GraphCluster() with default labels even when the BatchCluster was configured with other labels (outside the property's quantifier: element/charge/order)")


def iterative(rep):
    fi = rep.f(GC, "GraphCluster.iterative_cluster")
    pm = parent_map(fi.node)
    outer = [l for l in walk_local(fi.node) if isinstance(l, ast.For) and norm(l.iter) == "enumerate(rules)"]
    rep.need("R6b", len(outer), 1, "outer loop in iterative_cluster")
    ol = outer[0]
    i = norm(ol.target.elts[0])
    conts = [n for n in ol.body if isinstance(n, ast.If) and any(isinstance(x, ast.Continue) for x in n.body)]
    ok = len(conts) == 1 and norm(conts[0].test) == f"{i} in visited"
    allc = [n for n in walk_local(ol) if isinstance(n, (ast.Continue, ast.Break))]
    rep.ob("O13.2", "R6b", fi, ok and len(allc) == 1, [norm(c.test) for c in conts], "an item is skipped only if it already belongs to a class")
    # pairing visited.add(x) <-> rule_to_cluster[x] = len(clusters)
    adds = [c for c in walk_local(ol) if isinstance(c, ast.Call) and norm(c.func) == "visited.add"]
    rep.need("R6b", len(adds), 2, "visited.add sites")
    for a in adds:
        x = norm(a.args[0])
        blk = pm.get(pm.get(a))  # Expr -> enclosing statement list owner
        sibs = _siblings(pm, a)
        assigned = [s for s in sibs if isinstance(s, ast.Assign) and norm(s.targets[0]) == f"rule_to_cluster[{x}]" and norm(s.value) == "len(clusters)"]
        rep.ob("O13.2", "R6b", fi, len(assigned) == 1, f"visited.add({x})", f"marking item {x} as classified is paired with assigning it the current class index", node=a)
        grow = [s for s in sibs if isinstance(s, ast.Expr) and isinstance(s.value, ast.Call) and norm(s.value.func) == "cluster.add"]
        if x != i:
            rep.ob("O13.2", "R6b", fi, len(grow) == 1 and norm(grow[0].value.args[0]) == x, f"cluster.add({x})", "and with adding it to the class's member set", node=a)
    apps = [c for c in walk_local(ol) if isinstance(c, ast.Call) and norm(c.func) == "clusters.append"]
    ok = len(apps) == 1 and not guards_of(pm, apps[0], ol) and not enclosing_loops(pm, apps[0], ol) and norm(apps[0].args[0]) == "cluster"
    rep.ob("O13.2", "R6b", fi, ok, apps[0] if apps else "clusters.append", "each new class is appended exactly once, after its members were collected (class index = position)")
    # the class index used inside the iteration is the index the class will get
    cfg = CFG(fi.node)
    # members: j must be unvisited and pass the predicate
    inner = [l for l in walk_local(ol) if isinstance(l, ast.For) and l is not ol]
    rep.need("R6b", len(inner), 1, "inner loop in iterative_cluster")
    il = inner[0]
    j = norm(il.target.elts[0])
    it = norm(il.iter).replace(" ", "")
    rep.ob("O13.2", "R6b", fi, it == f"enumerate(rules[{i}+1:],start={i}+1)", il.iter, "every later item is compared with the class representative, under its true index")
    ja = [a for a in adds if norm(a.args[0]) == j]
    if ja:
        gs = [norm(t).replace(" ", "") for t, s in guards_of(pm, ja[0], il) if s]
        ok = "is_isomorphic" in gs and any(f"{j}notinvisited" in g for g in gs) and any(f"attributes_sorted[{i}]==attributes_sorted[{j}]" in g for g in gs)
        rep.ob("O13.2", "R6b", fi, ok, f"visited.add({j}) under {gs}", "an item joins a class iff it is unclassified, has the same pre-grouping attribute and is isomorphic to the representative", node=ja[0])
    d = local_defs(fi.node)
    iso = [x for x in d.get("is_isomorphic", []) if x.kind == "assign"]
    ok = bool(iso) and all(isinstance(x.value, ast.Call) and [norm(a) for a in x.value.args[:2]] == ["rule_i", "rule_j"] for x in iso)
    rep.ob("O13.2", "R6b", fi, ok, [norm(x.value)[:50] for x in iso], "the comparison is between the representative and the candidate item themselves")
    rets = returns_of(fi.node)
    rep.ob("O13.2", "R6b", fi, bool(rets) and norm(rets[-1].value) == "(clusters, rule_to_cluster)", rets[-1] if rets else "return", "the class list and the item->class map are returned")


def _siblings(pm, call):
    st = pm.get(call)
    while st is not None and not isinstance(st, ast.stmt):
        st = pm.get(st)
    owner = pm.get(st)
    for f in ("body", "orelse", "finalbody"):
        lst = getattr(owner, f, None)
        if isinstance(lst, list) and any(x is st for x in lst):
            return lst
    return []


def fit(rep):
    fi = rep.f(GC, "GraphCluster.fit")
    loops = [l for l in walk_local(fi.node) if isinstance(l, ast.For) and norm(l.iter) == "enumerate(data)"]
    rep.need("R6b", len(loops), 1, "assignment loop in GraphCluster.fit")
    lp = loops[0]
    idx, ent = [norm(e) for e in lp.target.elts]
    ws = [n for n in lp.body if isinstance(n, ast.Assign) and norm(n.targets[0]) == f"{ent}['class']"]
    ok = len(ws) == 1 and norm(ws[0].value).replace(" ", "") in (f"rule_to_cluster_dict.get({idx},None)", f"rule_to_cluster_dict[{idx}]")
    rep.ob("O13.2", "R6b", fi, ok, ws[0] if ws else "entry['class']", "every entry receives the class of its own index")
    d = local_defs(fi.node)
    up = [x for x in d.get("rule_to_cluster_dict", []) if x.index is not None]
    rep.ob("O13.2", "R6b", fi, bool(up) and up[0].index == (1,) and call_name(up[0].value) == "iterative_cluster", "_, rule_to_cluster_dict = self.iterative_cluster(...)", "the map used is iterative_cluster's item->class map")
    rules = [x for x in d.get("rules", []) if x.kind == "assign"]
    ok = bool(rules) and all("for entry in data" in norm(x.value) and " if " not in norm(x.value) for x in rules)
    rep.ob("O13.2", "R6b", fi, ok, [norm(x.value)[:50] for x in rules], "rules and data are aligned index by index (no filtering)")


def incremental(rep):
    fi = rep.f(BC, "BatchCluster.lib_check")
    pm = parent_map(fi.node)
    loops = [l for l in walk_local(fi.node) if isinstance(l, ast.For) and norm(l.iter) == "sub_temp"]
    rep.need("SHAPE", len(loops), 1, "template loop in lib_check")
    lp = loops[0]
    t = norm(lp.target)
    hit = [n for n in walk_local(lp) if isinstance(n, ast.Assign) and norm(n.targets[0]) == "data['class']" and n not in lp.orelse]
    hit_body = [n for n in hit if not any(n is x or any(n is y for y in ast.walk(x)) for x in lp.orelse)]
    ok = bool(hit_body) and all(norm(n.value) == f"{t}['class']" for n in hit_body)
    rep.ob("O13.2", "SHAPE", fi, ok, [norm(n) for n in hit_body], "a matching item takes the class of the matching representative")
    for n in hit_body:
        sibs = _siblings(pm, n.targets[0])
        rep.ob("O13.2", "SHAPE", fi, any(isinstance(s, ast.Break) for s in sibs), n, "and classification stops at the first matching representative", node=n)
    orelse = lp.orelse
    txt = [norm(s) for s in orelse]
    new = [s for s in orelse if isinstance(s, ast.Assign) and norm(s.targets[0]) == "new_class"]
    ok = bool(new) and norm(new[0].value).replace(" ", "") == "max((temp['class']fortempintemplates),default=-1)+1"
    rep.ob("O13.2", "SHAPE", fi, ok, new[0] if new else "new_class", "without a match a fresh class id (max + 1 over *all* representatives) is allocated")
    ok = any(isinstance(s, ast.Assign) and norm(s.targets[0]) == "data['class']" and norm(s.value) == "new_class" for s in orelse)
    rep.ob("O13.2", "SHAPE", fi, ok, txt, "the item receives the fresh class")
    ap = [s for s in orelse if isinstance(s, ast.Expr) and isinstance(s.value, ast.Call) and norm(s.value.func) == "templates.append"]
    ok = len(ap) == 1 and norm(ap[0].value.args[0]) in ("data.copy()", "dict(data)", "copy.copy(data)", "copy.deepcopy(data)")
    rep.ob("O13.2", "SHAPE", fi, ok, ap[0] if ap else "templates.append", "and becomes a new representative, stored as a copy")
    # every exit carries a class: for-else means exactly one of the two assignments runs
    d = local_defs(fi.node)
    st = [x for x in d.get("sub_temp", []) if x.kind == "assign"]
    ok = bool(st) and norm(st[0].value).replace(" ", "") == "[tempfortempintemplatesiftemp.get(attribute_key)==att]" and \
        norm(origin(d, ast.Name(id="att", ctx=ast.Load()))) == "data.get(attribute_key)"
    rep.ob("O13.2", "SHAPE", fi, ok, st[0].stmt if st else "sub_temp", "candidates are the representatives with the same pre-grouping attribute")
    rets = returns_of(fi.node)
    rep.ob("O13.2", "SHAPE", fi, bool(rets) and norm(rets[-1].value) == "(data, templates)", rets[-1] if rets else "return", "the classified item and the (possibly extended) representatives are returned")
    calls = [c for c in walk_local(lp) if isinstance(c, ast.Call) and norm(c.func) == "iso_function"]
    ok = bool(calls) and all([norm(a) for a in c.args[:2]] == ["template_data", "data_rule"] for c in calls)
    rep.ob("O13.2", "SHAPE", fi, ok, [norm(c)[:50] for c in calls], "the item is compared with the representative's graph")


MUTANTS = [
    dict(name="edge predicate >= in GraphCluster", file=GC, expect="O13.1",
         old="            self.edgeMatch = generic_edge_match(self.edgeAttribute, 1, eq)", new="            from operator import ge\n            self.edgeMatch = generic_edge_match(self.edgeAttribute, 1, ge)"),
    dict(name="lib_check uses containment", file=BC, expect="O13.1",
         old="                iso_function = graph_isomorphism\n                apply_match_args = True\n\n            if apply_match_args:", new="                from synkit.Graph.Matcher.graph_morphism import subgraph_isomorphism\n                iso_function = subgraph_isomorphism\n                apply_match_args = True\n\n            if apply_match_args:"),
    dict(name="default labels differ between the classes", file=BC, expect="O13.1",
         old='        node_label_names: List[str] = ["element", "charge"],\n        node_label_default: List[Any] = ["*", 0],\n        edge_attribute: str = "order",\n        backend: str = "nx",\n    ):\n        """Initializes an AutoCat',
         new='        node_label_names: List[str] = ["element"],\n        node_label_default: List[Any] = ["*"],\n        edge_attribute: str = "order",\n        backend: str = "nx",\n    ):\n        """Initializes an AutoCat'),
    dict(name="member marked visited without a class", file=GC, expect="O13.2",
         old="                        visited.add(j)\n                        rule_to_cluster[j] = len(clusters)", new="                        visited.add(j)"),
    dict(name="new class id from the candidate list length", file=BC, expect="O13.2",
         old='            new_class = max((temp["class"] for temp in templates), default=-1) + 1', new='            new_class = len(sub_temp)'),
    dict(name="representative stored by reference", file=BC, expect="O13.2", old="            templates.append(data.copy())", new="            templates.append(data)"),
    dict(name="visited check dropped for members", file=GC, expect="O13.2",
         old="                if attributes_sorted[i] == attributes_sorted[j] and j not in visited:", new="                if attributes_sorted[i] == attributes_sorted[j]:"),
    dict(name="class index off by one", file=GC, expect="O13.2",
         old="            visited.add(i)\n            rule_to_cluster[i] = len(clusters)", new="            visited.add(i)\n            rule_to_cluster[i] = len(clusters) + 1"),
    dict(name="fit assigns classes by position in the rule list after filtering", file=GC, expect="O13.2",
         old="            rules = [entry[rule_key] for entry in data]\n\n        attributes", new="            rules = [entry[rule_key] for entry in data if entry.get(rule_key) is not None]\n\n        attributes"),
    dict(name="no break after a match (last match wins)", file=BC, expect="O13.2",
         old='                    edgeMatch or self.edgeMatch,\n                ):\n                    data["class"] = template["class"]\n                    break', new='                    edgeMatch or self.edgeMatch,\n                ):\n                    data["class"] = template["class"]'),
    dict(name="fresh id only over same-attribute candidates", file=BC, expect="O13.2",
         old='max((temp["class"] for temp in templates), default=-1) + 1', new='max((temp["class"] for temp in sub_temp), default=-1) + 1'),
]

TWINS = [
    dict(name="ops written as a comprehension in BatchCluster", file=BC,
         old="                self.nodeLabelNames, self.nodeLabelDefault, [eq] * len(node_label_names)", new="                self.nodeLabelNames, self.nodeLabelDefault, [eq for _ in node_label_names]"),
]
