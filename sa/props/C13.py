"""C13 - clustering partitions graphs exactly into isomorphism classes (narrow)."""
from __future__ import annotations

import ast

from ..cfg import CFG, ENTRY, EXIT
from ..core import (AnalysisError, alpha, call_name, const, dotted, is_const, kwarg, local_defs, norm, origin,
                    parent_map, walk_local)
from ..facts import default_of, guards_of, returns_of, enclosing_loops, conjunct_nodes, if_leaves
from ..pattern import pmatch, pfind, pall

GC = "synkit/Graph/Matcher/graph_cluster.py"
BC = "synkit/Graph/Matcher/batch_cluster.py"
MO = "synkit/Graph/Matcher/graph_morphism.py"

META = {
    "explanation": (
        "R13 sibling agreement: GraphCluster, BatchCluster and the default-constructed GraphCluster() used inside "
        "BatchCluster.fit build the same predicate - full isomorphism (nx.is_isomorphic via graph_isomorphism) with "
        "generic_node_match([element, charge], ['*', 0], eq) and generic_edge_match('order', 1, eq). R6b-style pairing on "
        "the CFG: every item receives exactly one class - visited.add(x) is always paired with rule_to_cluster[x] = ..., "
        "one clusters.append per new class, an item is skipped only if already visited; the incremental path sets "
        "data['class'] on both exits of its for-else, a new class id is max + 1 and the new representative is stored "
        "as a copy."
    ),
    "rules": {"R13": "sibling predicate agreement", "R6b": "exactly-once assignment / pairing on the CFG", "SHAPE": "incremental classification shape"},
    "not_decided": "order independence of the partition (needs transitivity of the runtime predicate, which holds for exact isomorphism)",
    "trusted_base": ["CPython ast", "sa/* analyser", "networkx generic_node_match / generic_edge_match / is_isomorphic"],
    "assumptions": ["the pre-grouping attribute is isomorphism-invariant (stated in the property)"],
}


def _pred(fi):
    """(node_names_default, node_defaults_default, edge_attr_default, node ops are eq, edge default, edge op)"""
    names = default_of(fi, "node_label_names")
    dflt = default_of(fi, "node_label_default")
    eattr = default_of(fi, "edge_attribute")
    nm = em = None
    for n in walk_local(fi.node):
        if isinstance(n, ast.Assign) and norm(n.targets[0]) == "self.nodeMatch" and isinstance(n.value, ast.Call):
            nm = n.value
        if isinstance(n, ast.Assign) and norm(n.targets[0]) == "self.edgeMatch" and isinstance(n.value, ast.Call):
            em = n.value
    return names, dflt, eattr, nm, em


def run(rep):
    rep.run(relabel_in_place)
    rep.run(pregrouping_is_the_callers)
    rep.run(predicate)
    rep.run(iterative)
    rep.run(fit)
    rep.run(incremental)


def predicate(rep):
    g = rep.f(GC, "GraphCluster.__init__")
    b = rep.f(BC, "BatchCluster.__init__")
    facts = {}
    for tag, fi in (("GraphCluster", g), ("BatchCluster", b)):
        names, dflt, eattr, nm, em = _pred(fi)
        try:
            facts[tag] = {"names": list(const(names)), "defaults": list(const(dflt)), "edge": const(eattr)}
        except (ValueError, TypeError):
            rep.ob("O13.1", "R13", fi, None, "defaults", "label defaults are not literal")
            continue
        ok = isinstance(nm, ast.Call) and call_name(nm) == "generic_node_match" and len(nm.args) == 3 \
            and norm(nm.args[0]).split(".")[-1] in ("nodeLabelNames", "node_label_names") \
            and norm(nm.args[1]).split(".")[-1] in ("nodeLabelDefault", "node_label_default")
        ops = norm(nm.args[2]).replace(" ", "") if ok else ""
        ok_ops = ops in ("[eq]*len(node_label_names)", "[eqfor_innode_label_names]")
        rep.ob("O13.1", "R13", fi, ok and ok_ops, nm if nm is not None else "nodeMatch", f"{tag}: nodes are compared for *equality* on every configured label (with defaults)", {"ops": ops}, node=nm)
        ok = isinstance(em, ast.Call) and call_name(em) == "generic_edge_match" and len(em.args) == 3 \
            and norm(em.args[0]).split(".")[-1] in ("edgeAttribute", "edge_attribute") and is_const(em.args[1]) and em.args[1].value == 1 and norm(em.args[2]) == "eq"
        rep.ob("O13.1", "R13", fi, ok, em if em is not None else "edgeMatch", f"{tag}: bonds are compared for equality of the bond-order attribute (default 1)", node=em)
        imp = fi.module.imports.get("eq", "")
        rep.ob("O13.1", "R13", fi, imp == "operator.eq", f"eq <- {imp}", f"{tag}: `eq` is operator.eq")
    want = {"names": ["element", "charge"], "defaults": ["*", 0], "edge": "order"}
    rep.ob("O13.1", "R13", b, facts.get("GraphCluster") == facts.get("BatchCluster") == want, str(facts),
           "one-shot and batched clustering agree on what 'isomorphic' means by default: element, charge and bond order")
    # both route to full graph isomorphism
    for rel, q in ((GC, "GraphCluster.iterative_cluster"), (BC, "BatchCluster.lib_check")):
        fi = rep.f(rel, q)
        d = local_defs(fi.node)
        pm = parent_map(fi.node)
        fname, calls = _iso_callee(fi)
        rep.need("R13", len(calls), 1, f"iso_function(a, b, nodeMatch, edgeMatch) in {q}")
        iso = [x for x in d.get(fname, []) if x.kind == "assign"]
        graph_branch = [x for x in iso if any("nx.Graph" in norm(t) and s for t, s in guards_of(pm, x.stmt, fi.node))]
        ok = len(graph_branch) == 1 and norm(graph_branch[0].value) == "graph_isomorphism"
        rep.ob("O13.1", "R13", fi, ok, graph_branch[0].stmt if graph_branch else "iso_function", "graphs are compared with graph_isomorphism (full isomorphism, not containment)")
        imp = fi.module.imports.get("graph_isomorphism", "")
        rep.ob("O13.1", "R13", fi, imp.endswith("graph_morphism.graph_isomorphism"), f"import <- {imp}", "graph_isomorphism is the one of graph_morphism")
        c = calls[0]
        def _srcs(e):
            """every expression the argument can come from (through locals), as text"""
            from ..rules.provenance import all_roots
            if isinstance(e, ast.Name) and e.id not in fi.params:
                return {norm(x.value).replace(" ", "") for x in d.get(e.id, []) if x.kind == "assign" and x.value is not None} or {norm(e)}
            return {norm(e).replace(" ", "")}
        a2s, a3s = _srcs(c.args[2]), _srcs(c.args[3])
        ok = a2s <= {"nodeMatch", "nodeMatchorself.nodeMatch"} and a3s <= {"edgeMatch", "edgeMatchorself.edgeMatch"}
        rep.ob("O13.1", "R13", fi, ok, c, "the configured node and bond predicates are the ones applied", node=c)
    gi = rep.f(MO, "graph_isomorphism")
    cs = [c for c in walk_local(gi.node) if isinstance(c, ast.Call) and (dotted(c.func) or "") == "nx.is_isomorphic"]
    ok = len(cs) == 1 and [norm(a) for a in cs[0].args[:2]] == gi.params[:2] and norm(kwarg(cs[0], "node_match") or ast.Constant(None)) == "node_match" \
        and norm(kwarg(cs[0], "edge_match") or ast.Constant(None)) == "edge_match"
    rep.ob("O13.1", "R13", gi, ok, cs[0] if cs else "nx.is_isomorphic", "graph_isomorphism is nx.is_isomorphic with the given predicates")
    for r in returns_of(gi.node):
        if cs and r.value is cs[0]:
            continue
        if is_const(r.value, True) or not is_const(r.value, False):
            gtxt = [norm(t) for t, s_ in guards_of(parent_map(gi.node), r, gi.node, early=True)]
            rep.ob("O13.1", "R13", gi, False, f"return {norm(r.value) if r.value is not None else None} under {gtxt}",
                   "a positive verdict comes only from nx.is_isomorphic with the node AND bond predicates: a shortcut (e.g. `g1.nodes == g2.nodes and g1.edges == g2.edges`, "
                   "where EdgeView equality ignores edge data) declares graphs with different bond orders isomorphic", node=r)
        else:
            rep.ob("O13.1", "R13", gi, None, r, "early rejection in graph_isomorphism: necessity not established", node=r)
    ft = rep.f(GC, "GraphCluster.fit")
    ic = [c for c in walk_local(ft.node) if isinstance(c, ast.Call) and call_name(c) == "iterative_cluster"]
    ok = bool(ic) and len(ic[0].args) == 4 and [norm(a) for a in ic[0].args[2:]] == ["self.nodeMatch", "self.edgeMatch"]
    rep.ob("O13.1", "R13", ft, ok, ic[0] if ic else "iterative_cluster", "fit clusters with the instance's predicates")
    bf = rep.f(BC, "BatchCluster.fit")
    gcs = [c for c in walk_local(bf.node) if isinstance(c, ast.Call) and call_name(c) == "GraphCluster"]
    ok = bool(gcs) and not gcs[0].args and not gcs[0].keywords
    rep.ob("O13.1", "R13", bf, ok, gcs[0] if gcs else "GraphCluster()", "the one-shot path inside BatchCluster.fit uses a default GraphCluster (same default predicate as shown above)")
    if ok:
        rep.note("C13: BatchCluster.fit builds GraphCluster() with default labels even when the BatchCluster was configured with other labels (outside the property's quantifier: element/charge/order)")


def _iso_callee(fi):
    """(name of the local that holds the comparison function, its 4-argument calls)"""
    calls = [c for c in walk_local(fi.node) if isinstance(c, ast.Call) and isinstance(c.func, ast.Name) and len(c.args) == 4]
    d = local_defs(fi.node)
    calls = [c for c in calls if any(x.kind == "assign" for x in d.get(c.func.id, [])) and c.func.id not in fi.params]
    return (calls[0].func.id if calls else None), calls


def iterative(rep):
    fi = rep.f(GC, "GraphCluster.iterative_cluster")
    R = fi.params[1]
    pm = parent_map(fi.node)
    d = local_defs(fi.node)
    outer = [l for l in walk_local(fi.node) if isinstance(l, ast.For) and norm(l.iter) == f"enumerate({R})"]
    rep.need("R6b", len(outer), 1, "outer loop in iterative_cluster")
    ol = outer[0]
    i, ri = [norm(e) for e in ol.target.elts]
    rets = returns_of(fi.node)
    rm = pmatch("($clusters, $map)", rets[-1].value) if rets else None
    # a pair of something else than two locals (e.g. attributes of a bookkeeping object): the rule cannot follow it -> not decided
    pair = bool(rets) and isinstance(rets[-1].value, ast.Tuple) and len(rets[-1].value.elts) == 2
    rep.ob("O13.2", "R6b", fi, True if rm is not None else (None if pair else False), rets[-1] if rets else "return", "the class list and the item->class map are returned")
    if rm is None:
        raise AnalysisError("iterative_cluster no longer returns (clusters, item->class map)")
    CL, MAP = rm["clusters"], rm["map"]
    conts = [n for n in ol.body if isinstance(n, ast.If) and any(isinstance(x, ast.Continue) for x in n.body)]
    vm = pmatch(f"{i} in $visited", conts[0].test) if len(conts) == 1 else None
    allc = [n for n in walk_local(ol) if isinstance(n, (ast.Continue, ast.Break)) and not enclosing_loops(pm, n, ol)]  # exits of the outer loop itself
    # leaving the loop once every item has a class (`len(visited) == len(rules)`) skips nothing: the remaining rounds would all hit the "already classified" test
    if vm is not None:
        done_ = [n for n in allc if isinstance(n, ast.Break) and any(sn and (pmatch(f"len({vm['visited']}) == len($r)", t) is not None or pmatch(f"len($r) == len({vm['visited']})", t) is not None)
                                                                      for t, sn in guards_of(pm, n, ol))]
        allc = [n for n in allc if n not in done_]
    rep.ob("O13.2", "R6b", fi, vm is not None and len(allc) == 1, [norm(c.test) for c in conts], "an item is skipped only if it already belongs to a class")
    if vm is None:
        return
    V = vm["visited"]
    # pairing visited.add(x) <-> rule_to_cluster[x] = len(clusters)
    adds = [c for c in walk_local(ol) if isinstance(c, ast.Call) and norm(c.func) == f"{V}.add"]
    rep.need("R6b", len(adds), 2, "visited.add sites")
    member_set = None
    for st_, b_ in pfind(f"$c = {{{i}}}", ol):
        member_set = b_["c"]
    for a in adds:
        x = norm(a.args[0])
        sibs = _siblings(pm, a)
        assigned = [s for s in sibs if (mi_ := pmatch(f"{MAP}[{x}] = $$idx", s)) is not None and _is_current_index(s.value, CL, d, ol)]
        rep.ob("O13.2", "R6b", fi, len(assigned) == 1, f"visited.add({x})", f"marking item {x} as classified is paired with assigning it the current class index", node=a)
        grow = [s for s in sibs if member_set and pmatch(f"{member_set}.add({x})", s) is not None]
        if x != i:
            rep.ob("O13.2", "R6b", fi, len(grow) == 1, f"cluster.add({x})", "and with adding it to the class's member set", node=a)
    apps = [c for c in walk_local(ol) if isinstance(c, ast.Call) and norm(c.func) == f"{CL}.append"]
    ok = len(apps) == 1 and all(pmatch(f"{i} not in {V}", t) is not None and s_ for t, s_ in guards_of(pm, apps[0], ol)) \
        and not enclosing_loops(pm, apps[0], ol) and member_set is not None and norm(apps[0].args[0]) == member_set
    rep.ob("O13.2", "R6b", fi, ok, apps[0] if apps else "clusters.append", "each new class is appended exactly once, after its members were collected (class index = position)")
    inner = [l for l in walk_local(ol) if isinstance(l, ast.For) and l is not ol]
    rep.need("R6b", len(inner), 1, "inner loop in iterative_cluster")
    il = inner[0]
    j, rj = [norm(e) for e in il.target.elts]
    rep.ob("O13.2", "R6b", fi, pmatch(f"enumerate({R}[{i} + 1:], start={i} + 1)", il.iter) is not None, il.iter, "every later item is compared with the class representative, under its true index")
    ja = [a for a in adds if norm(a.args[0]) == j]
    iso_flag = None
    if ja:
        gs = [t for t, s in guards_of(pm, ja[0], il) if s]
        flat = [cj for t in gs for cj in conjunct_nodes(t)]
        flags = [t.id for t in flat if isinstance(t, ast.Name)]
        iso_flag = flags[0] if len(flags) == 1 else None
        def _same_attr(t):
            if pmatch(f"$a[{i}] == $a[{j}]", t) is not None or pmatch(f"$a[{j}] == $a[{i}]", t) is not None:
                return True
            # `not <pre-filter in use> or a[i] == a[j]`: without a pre-grouping attribute the comparison is skipped, with one it is made
            if isinstance(t, ast.BoolOp) and isinstance(t.op, ast.Or) and len(t.values) == 2 and any(_same_attr(v) for v in t.values):
                other = [v for v in t.values if not _same_attr(v)][0]
                neg = isinstance(other, ast.UnaryOp) and isinstance(other.op, ast.Not)
                flag = other.operand if neg else other
                src = origin(d_ic, flag) if isinstance(flag, ast.Name) else flag
                return neg and pmatch("$p is not None", src) is not None or (not neg and pmatch("$p is None", src) is not None)
            return False
        d_ic = local_defs(fi.node)
        ok = iso_flag is not None and any(pmatch(f"{j} not in {V}", t) is not None for t in flat) and any(_same_attr(t) for t in flat)
        rep.ob("O13.2", "R6b", fi, ok, f"visited.add({j}) under {[norm(t) for t in flat]}", "an item joins a class iff it is unclassified, has the same pre-grouping attribute and is isomorphic to the representative", node=ja[0])
    iso = [leaf for x in d.get(iso_flag or "", []) if x.kind == "assign" for leaf in if_leaves(x.value)]
    ok = bool(iso) and all(isinstance(x, ast.Call) and [norm(a) for a in x.args[:2]] == [ri, rj] for x in iso)
    rep.ob("O13.2", "R6b", fi, ok, [alpha(x, fi.node)[:50] for x in iso], "the comparison is between the representative and the candidate item themselves")


def _is_current_index(v, CL, d, ol):
    """`len(clusters)`, or a local bound once - directly in the outer loop's body, before the class is appended - to len(clusters)"""
    if pmatch(f"len({CL})", v) is not None:
        return True
    if isinstance(v, ast.Name):
        ds = d.get(v.id, [])
        if len(ds) == 1 and ds[0].kind == "assign" and pmatch(f"len({CL})", ds[0].value) is not None and any(ds[0].stmt is st for st in ol.body):
            apps = [c for c in walk_local(ol) if isinstance(c, ast.Call) and norm(c.func) == f"{CL}.append"]
            return all(ds[0].stmt.lineno < c.lineno for c in apps)
    return False


def _siblings(pm, call):
    st = pm.get(call)
    while st is not None and not isinstance(st, ast.stmt):
        st = pm.get(st)
    owner = pm.get(st)
    for f in ("body", "orelse", "finalbody"):
        lst = getattr(owner, f, None)
        if isinstance(lst, list) and any(x is st for x in lst):
            return lst
    return []


def fit(rep):
    fi = rep.f(GC, "GraphCluster.fit")
    D = fi.params[1]
    loops = [l for l in walk_local(fi.node) if isinstance(l, ast.For) and norm(l.iter) == f"enumerate({D})"]
    rep.need("R6b", len(loops), 1, "assignment loop in GraphCluster.fit")
    lp = loops[0]
    idx, ent = [norm(e) for e in lp.target.elts]
    ws = [n for n in lp.body if isinstance(n, ast.Assign) and norm(n.targets[0]) == f"{ent}['class']"]
    m = (pmatch(f"$m.get({idx}, None)", ws[0].value) or pmatch(f"$m[{idx}]", ws[0].value) or pmatch(f"$m.get({idx})", ws[0].value)) if len(ws) == 1 else None
    rep.ob("O13.2", "R6b", fi, m is not None, ws[0] if ws else "entry['class']", "every entry receives the class of its own index")
    d = local_defs(fi.node)
    up = [x for x in d.get(m["m"] if m else "", []) if x.index is not None]
    rep.ob("O13.2", "R6b", fi, bool(up) and up[0].index == (1,) and call_name(up[0].value) == "iterative_cluster", up[0].stmt if up else "_, rule_to_cluster_dict = self.iterative_cluster(...)", "the map used is iterative_cluster's item->class map")
    ic = [c for c in walk_local(fi.node) if isinstance(c, ast.Call) and call_name(c) == "iterative_cluster"]
    rules_n = norm(ic[0].args[0]) if ic and ic[0].args else None
    rules = [x for x in d.get(rules_n or "", []) if x.kind == "assign"]
    leaves = [leaf for x in rules for leaf in if_leaves(x.value)]
    ok = bool(leaves) and all(isinstance(x, ast.ListComp) and len(x.generators) == 1 and norm(x.generators[0].iter) == D and not x.generators[0].ifs for x in leaves)
    rep.ob("O13.2", "R6b", fi, ok, [alpha(x, fi.node)[:50] for x in leaves], "rules and data are aligned index by index (no filtering)")


def incremental(rep):
    fi = rep.f(BC, "BatchCluster.lib_check")
    DATA, TEMPL = fi.params[1], fi.params[2]
    pm = parent_map(fi.node)
    d = local_defs(fi.node)
    loops = [l for l in walk_local(fi.node) if isinstance(l, ast.For) and l.orelse]
    rep.need("SHAPE", len(loops), 1, "template loop (for/else) in lib_check")
    lp = loops[0]
    t = norm(lp.target)
    hit = [n for n in walk_local(lp) if isinstance(n, ast.Assign) and norm(n.targets[0]) == f"{DATA}['class']"]
    hit_body = [n for n in hit if not any(n is x or any(n is y for y in ast.walk(x)) for x in lp.orelse)]
    ok = bool(hit_body) and all(norm(origin(d, n.value)) == f"{t}['class']" for n in hit_body)
    rep.ob("O13.2", "SHAPE", fi, ok, [alpha(n, fi.node) for n in hit_body], "a matching item takes the class of the matching representative")
    for n in hit_body:
        sibs = _siblings(pm, n.targets[0])
        rep.ob("O13.2", "SHAPE", fi, any(isinstance(s, ast.Break) for s in sibs), alpha(n, fi.node), "and classification stops at the first matching representative", node=n)
    orelse = lp.orelse
    txt = [alpha(s, fi.node) for s in orelse]
    b = pall([f"$new = max(($x['class'] for $x in {TEMPL}), default=-1) + 1", f"{DATA}['class'] = $new"], ast.Module(body=orelse, type_ignores=[]))
    rep.ob("O13.2", "SHAPE", fi, b is not None, txt, "without a match a fresh class id (max + 1 over *all* representatives) is allocated")
    rep.ob("O13.2", "SHAPE", fi, b is not None, txt, "the item receives the fresh class")
    ap = [s for s in orelse if isinstance(s, ast.Expr) and isinstance(s.value, ast.Call) and norm(s.value.func) == f"{TEMPL}.append"]
    ok = len(ap) == 1 and norm(ap[0].value.args[0]) in (f"{DATA}.copy()", f"dict({DATA})", f"copy.copy({DATA})", f"copy.deepcopy({DATA})")
    rep.ob("O13.2", "SHAPE", fi, ok, ap[0] if ap else "templates.append", "and becomes a new representative, stored as a copy")
    # candidates
    st = origin(d, lp.iter)
    m = pmatch(f"[$x for $x in {TEMPL} if $x.get(attribute_key) == $att]", st)
    ok = m is not None and pmatch(f"{DATA}.get(attribute_key)", origin(d, ast.Name(id=m["att"], ctx=ast.Load()))) is not None
    rep.ob("O13.2", "SHAPE", fi, ok, st, "candidates are the representatives with the same pre-grouping attribute")
    rets = returns_of(fi.node)
    rep.ob("O13.2", "SHAPE", fi, bool(rets) and norm(rets[-1].value) == f"({DATA}, {TEMPL})", rets[-1] if rets else "return", "the classified item and the (possibly extended) representatives are returned")


def pregrouping_is_the_callers(rep):
    """the pre-grouping attribute is an input (isomorphism-invariant by the caller's promise) or absent - then an entry is compared with every candidate.
    Clustering code that fills it in itself decides which templates an entry is ever compared with by a key of its own making (a WL hash renders labels as
    text: 0 / 0.0 / False differ although the matcher's `eq` does not tell them apart) - isomorphic items are then never compared"""
    hits = []
    for rel, cls in ((BC, "BatchCluster."), (GC, "GraphCluster.")):
        for q, f in sorted(rep.repo.module(rel).funcs.items()):
            if not q.startswith(cls):
                continue
            for st in walk_local(f.node):
                if isinstance(st, ast.Assign):
                    for t in st.targets:
                        if isinstance(t, ast.Subscript) and isinstance(t.slice, ast.Name) and t.slice.id in ("attribute_key", "attr_key", "attributeKey") \
                                and any(isinstance(c_, ast.Call) for c_ in ast.walk(st.value)):
                            hits.append((f, st))
    for f, st in hits:
        rep.ob("O13.1", "R13", f, False, st, "the pre-grouping attribute comes from the caller or is absent (here the clustering computes it itself: which representatives an item "
               "is compared with now depends on a key that is finer than the isomorphism test)", node=st)
    if not hits:
        rep.ob("O13.1", "R13", f"{BC}:BatchCluster", True, "no store under attribute_key", "the pre-grouping attribute comes from the caller or is absent")


def relabel_in_place(rep):
    """class ids are written once per item: a loop that selects items by their current `class` and overwrites that same field while an outer loop
    still has groups to process mixes two id spaces (provisional batch-local ids and library ids) - an item already renumbered to library class g is
    caught again when the provisional group g comes up"""
    n = 0
    fis = [f for q, f in rep.repo.module(BC).funcs.items() if q.startswith("BatchCluster.")]
    for fi in fis:
        pm = parent_map(fi.node)
        for st in walk_local(fi.node):
            if not (isinstance(st, ast.Assign) and len(st.targets) == 1 and isinstance(st.targets[0], ast.Subscript) and is_const(st.targets[0].slice, "class")):
                continue
            tgt = norm(st.targets[0])
            gs = guards_of(pm, st, fi.node)
            sel = [t for t, sense in gs if sense and isinstance(t, ast.Compare) and len(t.ops) == 1 and isinstance(t.ops[0], ast.Eq)
                   and tgt in (norm(t.left), norm(t.comparators[0]))]
            if not sel:
                continue
            other = sel[0].comparators[0] if norm(sel[0].left) == tgt else sel[0].left
            if norm(st.value) == norm(other):
                continue
            loops, cur = [], pm.get(st)
            while cur is not None and cur is not fi.node:
                if isinstance(cur, (ast.For, ast.While)):
                    loops.append(cur)
                cur = pm.get(cur)
            n += 1
            if len(loops) >= 2:
                rep.ob("O13.2", "SHAPE", fi, False, st, f"`{tgt}` is overwritten for the items selected by `{norm(sel[0])}` while the outer loop still compares that field for its "
                       "remaining groups: old and new ids share one number space, items of different groups are merged", node=st)
    if not n:
        rep.ob("O13.2", "SHAPE", f"{BC}:BatchCluster", True, f"{len(fis)} methods", "no method renumbers classes in place while still selecting items by their class")


MUTANTS = [
    dict(name="edge predicate >= in GraphCluster", file=GC, expect="O13.1",
         old="            self.edgeMatch = generic_edge_match(self.edgeAttribute, 1, eq)", new="            from operator import ge\n            self.edgeMatch = generic_edge_match(self.edgeAttribute, 1, ge)"),
    dict(name="lib_check uses containment", file=BC, expect="O13.1",
         old="                iso_function = graph_isomorphism\n                apply_match_args = True\n\n            if apply_match_args:", new="                from synkit.Graph.Matcher.graph_morphism import subgraph_isomorphism\n                iso_function = subgraph_isomorphism\n                apply_match_args = True\n\n            if apply_match_args:"),
    dict(name="default labels differ between the classes", file=BC, expect="O13.1",
         old='        node_label_names: List[str] = ["element", "charge"],\n        node_label_default: List[Any] = ["*", 0],\n        edge_attribute: str = "order",\n        backend: str = "nx",\n    ):\n        """Initializes an AutoCat',
         new='        node_label_names: List[str] = ["element"],\n        node_label_default: List[Any] = ["*"],\n        edge_attribute: str = "order",\n        backend: str = "nx",\n    ):\n        """Initializes an AutoCat'),
    dict(name="member marked visited without a class", file=GC, expect="O13.2",
         old="                        visited.add(j)\n                        rule_to_cluster[j] = len(clusters)", new="                        visited.add(j)"),
    dict(name="new class id from the candidate list length", file=BC, expect="O13.2",
         old='            new_class = max((temp["class"] for temp in templates), default=-1) + 1', new='            new_class = len(sub_temp)'),
    dict(name="representative stored by reference", file=BC, expect="O13.2", old="            templates.append(data.copy())", new="            templates.append(data)"),
    dict(name="visited check dropped for members", file=GC, expect="O13.2",
         old="                if attributes_sorted[i] == attributes_sorted[j] and j not in visited:", new="                if attributes_sorted[i] == attributes_sorted[j]:"),
    dict(name="class index off by one", file=GC, expect="O13.2",
         old="            visited.add(i)\n            rule_to_cluster[i] = len(clusters)", new="            visited.add(i)\n            rule_to_cluster[i] = len(clusters) + 1"),
    dict(name="fit assigns classes by position in the rule list after filtering", file=GC, expect="O13.2",
         old="            rules = [entry[rule_key] for entry in data]\n\n        attributes", new="            rules = [entry[rule_key] for entry in data if entry.get(rule_key) is not None]\n\n        attributes"),
    dict(name="no break after a match (last match wins)", file=BC, expect="O13.2",
         old='                    edgeMatch or self.edgeMatch,\n                ):\n                    data["class"] = template["class"]\n                    break', new='                    edgeMatch or self.edgeMatch,\n                ):\n                    data["class"] = template["class"]'),
    dict(name="fresh id only over same-attribute candidates", file=BC, expect="O13.2",
         old='max((temp["class"] for temp in templates), default=-1) + 1', new='max((temp["class"] for temp in sub_temp), default=-1) + 1'),
]

TWINS = [
    dict(name="ops written as a comprehension in BatchCluster", file=BC,
         old="                self.nodeLabelNames, self.nodeLabelDefault, [eq] * len(node_label_names)", new="                self.nodeLabelNames, self.nodeLabelDefault, [eq for _ in node_label_names]"),
]
