"""C02 - reaction centre = changed bonds; context grows monotonically."""
from __future__ import annotations

import ast
import itertools

from ..absval import Undecided, eval_function, linform, Lin, module_constants
from ..core import (alpha, AnalysisError, call_name, dotted, is_const, kwarg, local_defs, norm, origin,
                    parent_map, walk_local, arg)
from ..pattern import pmatch, pfind
from ..facts import (default_of, guards_of, list_literal_strs, mentions, recv_calls, returns_of,
                     enclosing_loops)

ITSD = "synkit/Graph/ITS/its_decompose.py"
ITSC = "synkit/Graph/ITS/its_construction.py"
RAD = "synkit/Graph/Context/radius_expand.py"
CONV = "synkit/IO/chem_converter.py"

META = {
    "explanation": (
        "The inclusion predicate of the reaction centre is evaluated on the cmp domain (all sign points and "
        "half-steps of standard_order x both flags) against the specification `std != 0 or (keep_mtg and is_mtg)`; "
        "loop-shape analysis shows every ITS edge is visited and skipped only by that predicate, both end nodes "
        "are copied from the ITS with the ITS labels, H-H bonds are always added, and the k-neighbourhood "
        "expansion only grows, runs exactly k rounds and expands/extracts on the ITS; node ids are never ordered."
    ),
    "rules": {
        "CMP": "predicate evaluated on sample points vs. specification table",
        "LOOP": "loop shape: full iteration, only the named skip, unconditional add",
        "SRC": "def-use: which graph a value is read from / which argument a callee gets",
        "R3b": "attribute key agreement with the ITS writer",
        "MONO": "monotone accumulation: the set only grows; exactly k rounds",
        "R11": "node identifiers are never ordered or compared (numbering independence)",
    },
    "not_decided": "idempotence and isomorphism under renumbering as values (they follow from the clauses by argument, not by the checker)",
    "trusted_base": ["CPython ast", "sa/* analyser", "networkx Graph.edges/neighbors/subgraph semantics"],
    "assumptions": ["ITS graphs are built by ITSConstruction (edge key 'standard_order')"],
}

STD_POINTS = [0, 0.0, 0.5, -0.5, 1, -1, 1.5, -1.5, 2, -2, 3, -3, 1e-9, None]


def run(rep):
    rep.alias = {"O1.3": "O2.2"}
    from . import C01
    rep.run(C01.standard_order)  # the centre is defined through standard_order: it must be the exact difference
    rep.alias = {}
    rep.run(predicate)
    rep.run(changed_bonds)
    rep.run(ensure_node)
    rep.run(get_rc_shape)
    rep.run(hh)
    rep.run(knn)
    rep.run(extract_k)
    rep.run(no_id_order)
    rep.run(explicit_h_edges)


def explicit_h_edges(rep):
    """the centre is read off `standard_order`: a bond that any writer of ITS-shaped graphs adds with an order PAIR whose two sides can differ has
    to carry the difference as `standard_order` (the normaliser fills 0.0 where it is missing - such a bond would never reach the centre)"""
    from ..facts import if_leaves
    MISC_ = "synkit/Graph/Hyrogen/_misc.py"
    fi = rep.f(MISC_, "h_to_explicit")
    n = 0
    for c in [c for c in walk_local(fi.node) if isinstance(c, ast.Call) and call_name(c) in ("add_edge", "add_edges_from")]:
        n += 1
        ordv = kwarg(c, "order")
        if ordv is None:
            continue
        pairs = [l for l in if_leaves(ordv) if isinstance(l, ast.Tuple) and len(l.elts) == 2 and norm(l.elts[0]) != norm(l.elts[1])]
        if pairs and kwarg(c, "standard_order") is None and not any(k.arg is None for k in c.keywords):
            rep.ob("O2.2", "R15", fi, False, c, f"a bond written with the order pair {norm(pairs[0])} carries standard_order = reactant order - product order "
                   "(none is written: the bond's change is invisible to get_rc)", node=c)
    rep.need("R15", n, 1, "add_edge calls in h_to_explicit")
    if n:
        rep.ob("O2.2", "R15", fi, True, f"{n} add_edge call(s)", "hydrogen bonds added to an ITS are either unchanged (scalar / equal pair) or carry their standard_order") if not any(
            o["status"] != "HOLDS" and o["site"].startswith(MISC_) for o in rep.obligations[-n:]) else None


def predicate(rep):
    fi = rep.f(ITSD, "_should_include_edge")
    p = fi.params
    if len(p) != 3:
        raise AnalysisError("_should_include_edge signature changed")
    bad, table, und = [], 0, None
    consts = module_constants(fi.module.tree)
    for std, mtg, keep in itertools.product(STD_POINTS, (False, True), (False, True)):
        spec = (isinstance(std, (int, float)) and std != 0) or (keep and mtg)
        try:
            got = bool(eval_function(fi.node, dict(consts, **{p[0]: std, p[1]: mtg, p[2]: keep})))
        except Undecided as exc:
            und = str(exc)
            break
        table += 1
        if got != spec:
            bad.append({"std": std, "is_mtg": mtg, "keep_mtg": keep, "got": got, "spec": spec})
    rep.ob("O2.1", "CMP", fi, None if und else not bad, "_should_include_edge(std, is_mtg_attr, keep_mtg)",
           "a bond is in the centre iff standard_order != 0 (or keep_mtg and is_mtg)" + (f" [{und}]" if und else ""),
           {"points_evaluated": table, "disagreements": bad[:4]}, node=fi.node)
    g = rep.f(ITSD, "get_rc")
    d = default_of(g, "keep_mtg")
    rep.ob("O2.1", "CMP", g, d is not None and is_const(d, False), d if d is not None else "keep_mtg",
           "keep_mtg defaults to False")
    d = default_of(g, "standard_key")
    rep.ob("O2.1", "R3b", g, d is not None and is_const(d, "standard_order"), d if d is not None else "standard_key",
           "the centre reads the ITS writer's 'standard_order' key")
    d = default_of(g, "bond_key")
    rep.ob("O2.2", "R3b", g, d is not None and is_const(d, "order"), d if d is not None else "bond_key",
           "the centre copies the ITS writer's 'order' key")
    d = default_of(g, "disconnected")
    rep.ob("O2.1", "CMP", g, d is not None and is_const(d, False), d if d is not None else "disconnected",
           "disconnected (extra charge-change nodes) defaults to False")


def _edge_loop(fi, graph_param):
    loops = [n for n in walk_local(fi.node) if isinstance(n, ast.For)]
    outer = [l for l in loops if norm(l.iter).replace(" ", "") == f"{graph_param}.edges(data=True)"]
    return outer


def changed_bonds(rep):
    fi = rep.f(ITSD, "_add_changed_bonds")
    P = fi.params  # ITS, rc, element_key, bond_key, standard_key, keep_mtg
    defs = local_defs(fi.node)
    pm = parent_map(fi.node)
    loops = _edge_loop(fi, P[0])
    rep.ob("O2.2", "LOOP", fi, len(loops) == 1 if loops else None, loops[0].iter if loops else "for",
           "every ITS edge is visited", node=loops[0] if loops else fi.node)
    if not loops:
        raise AnalysisError("_add_changed_bonds: edge loop not recognised")
    lp = loops[0]
    tg = lp.target
    if not (isinstance(tg, ast.Tuple) and len(tg.elts) == 3 and all(isinstance(e, ast.Name) for e in tg.elts)):
        raise AnalysisError("_add_changed_bonds: loop target is not (u, v, data)")
    u, v, data = [e.id for e in tg.elts]
    # skips
    skips = [n for n in walk_local(lp) if isinstance(n, (ast.Continue, ast.Break, ast.Return))]
    for s in skips:
        gs = guards_of(pm, s, lp)
        ok = (len(gs) == 1 and not gs[0][1] and isinstance(gs[0][0], ast.Call) and call_name(gs[0][0]) == "_should_include_edge")
        rep.ob("O2.2", "LOOP", fi, ok, f"{type(s).__name__.lower()} under {[norm(t) for t, _ in gs]}",
               "the only way an ITS edge is skipped is the inclusion predicate", node=s)
    # predicate argument
    pc = [c for c in walk_local(lp) if isinstance(c, ast.Call) and call_name(c) == "_should_include_edge"]
    rep.need("SRC", len(pc), 1, "_should_include_edge call")
    a0 = origin(defs, pc[0].args[0]) if pc[0].args else None
    ok = a0 is not None and isinstance(a0, ast.Call) and call_name(a0) == "get" and dotted(a0.func.value) == data \
        and a0.args and norm(a0.args[0]) == P[4]
    rep.ob("O2.1", "SRC", fi, ok, pc[0], "the predicate is applied to this edge's standard_order",
           {"first_argument": norm(a0) if a0 is not None else None})
    a2 = pc[0].args[2] if len(pc[0].args) > 2 else kwarg(pc[0], "keep_mtg")
    rep.ob("O2.1", "SRC", fi, a2 is not None and norm(a2) == P[5], pc[0], "keep_mtg is forwarded unchanged")
    # add_edge
    adds = recv_calls(lp, P[1], "add_edge")
    rep.need("LOOP", len(adds), 1, "rc.add_edge in _add_changed_bonds")
    for c in adds:
        gs = guards_of(pm, c, lp)
        only_pred = len(gs) == 1 and gs[0][1] and isinstance(gs[0][0], ast.Call) and call_name(gs[0][0]) == "_should_include_edge"
        rep.ob("O2.2", "LOOP", fi, only_pred, c.func, "a bond is added exactly when the inclusion predicate holds (no further condition)",
               {"guards": [(norm(t), s_) for t, s_ in gs]}, node=c)
        rep.ob("O2.2", "SRC", fi, [norm(a) for a in c.args[:2]] == [u, v], f"add_edge({', '.join(norm(a) for a in c.args[:2])})",
               "the centre bond joins the ITS bond's end points", node=c)
        kws = [k for k in c.keywords if k.arg is None and isinstance(k.value, ast.Dict)]
        keys = {}
        for k in kws:
            for kk, vv in zip(k.value.keys, k.value.values):
                keys[norm(kk)] = origin(defs, vv)
        okb = P[3] in keys and norm(keys[P[3]]).replace(" ", "") == f"{data}.get({P[3]})"
        oks = P[4] in keys and norm(keys[P[4]]).replace(" ", "") == f"{data}.get({P[4]})"
        rep.ob("O2.2", "SRC", fi, okb if keys else None, c, "the centre bond keeps the ITS (before, after) order pair", node=c)
        rep.ob("O2.2", "SRC", fi, oks if keys else None, c, "the centre bond keeps the ITS standard_order", node=c)
    # both end nodes ensured from the ITS
    ens = [c for c in walk_local(lp) if isinstance(c, ast.Call) and call_name(c) == "_ensure_node"]
    roles0 = _ensure_roles(rep)
    ni = roles0["node"] if roles0 else 2
    ends = sorted(norm(c.args[ni]) for c in ens if len(c.args) > ni)
    loop_vars = set()
    for c in ens:
        for l in enclosing_loops(pm, c, lp):
            if isinstance(l.iter, ast.Tuple):
                loop_vars |= {norm(e) for e in l.iter.elts}
    covered = set(ends) | loop_vars
    rep.ob("O2.3", "LOOP", fi, {u, v} <= covered, f"_ensure_node for {sorted(covered)}",
           "both end atoms of an included bond are put into the centre")
    roles = _ensure_roles(rep)   # positions of (written graph, read graph, node, keys) in _ensure_node's signature, found from what it does
    for c in ens:
        ok = None
        if roles is not None and len(c.args) > max(roles.values()):
            ok = norm(c.args[roles["written"]]) == P[1] and norm(c.args[roles["read"]]) == P[0] and norm(c.args[roles["keys"]]) == P[2]
        gs = guards_of(pm, c, lp)
        only_pred = all(s_ and isinstance(t, ast.Call) and call_name(t) == "_should_include_edge" for t, s_ in gs)
        rep.ob("O2.3", "SRC", fi, ok and only_pred, c, "end atoms are copied from the ITS into rc with the requested label keys", node=c)


def _ensure_roles(rep):
    """{'written': i, 'read': j, 'node': k, 'keys': l}: which parameter of _ensure_node is the graph that receives the node, which the graph it is copied
    from, which the node and which the label keys - read off the body, not off the parameter order"""
    fi = rep.f(ITSD, "_ensure_node")
    P = list(fi.params)
    defs = local_defs(fi.node)
    adds = [c for c in walk_local(fi.node) if isinstance(c, ast.Call) and call_name(c) == "add_node" and isinstance(c.func.value, ast.Name) and c.func.value.id in P]
    if len(adds) != 1 or not adds[0].args or not isinstance(adds[0].args[0], ast.Name) or adds[0].args[0].id not in P:
        return None
    w, nd = adds[0].func.value.id, adds[0].args[0].id
    star = [k.value for k in adds[0].keywords if k.arg is None]
    src = origin(defs, star[0]) if star else None
    if not isinstance(src, ast.DictComp) or not isinstance(src.generators[0].iter, ast.Name) or src.generators[0].iter.id not in P:
        return None
    keys = src.generators[0].iter.id
    val_src = origin(defs, src.value.value) if isinstance(src.value, ast.Subscript) else src.value
    readers = [p_ for p_ in P if p_ not in (w, nd, keys) and p_ in {n.id for n in ast.walk(val_src) if isinstance(n, ast.Name)}]
    if len(readers) != 1:
        return None
    return {"written": P.index(w), "read": P.index(readers[0]), "node": P.index(nd), "keys": P.index(keys)}


def ensure_node(rep):
    fi = rep.f(ITSD, "_ensure_node")
    roles = _ensure_roles(rep)
    P = fi.params
    if roles is not None:
        # canonical order (written, read, node, keys) whatever the signature's order is
        P = [fi.params[roles["written"]], fi.params[roles["read"]], fi.params[roles["node"]], fi.params[roles["keys"]]]
    defs = local_defs(fi.node)
    adds = recv_calls(fi.node, P[0], "add_node")
    rep.need("SRC", len(adds), 1, "rc.add_node in _ensure_node")
    c = adds[0]
    star = [k.value for k in c.keywords if k.arg is None]
    src = origin(defs, star[0]) if star else None
    ok = None
    facts = {}
    if isinstance(src, ast.DictComp):
        gen = src.generators[0]
        val_src = origin(defs, src.value.value) if isinstance(src.value, ast.Subscript) else src.value
        m = mentions(val_src, [P[0], P[1]])
        facts = {"iterates": norm(gen.iter), "value_from": norm(val_src), "filters": [norm(i) for i in gen.ifs]}
        filt_ok = all(norm(i).replace(" ", "") in (f"{norm(gen.target)}in{norm(src.value.value)}",) for i in gen.ifs) \
            if isinstance(src.value, ast.Subscript) else False
        ok = norm(gen.iter) == P[3] and m == {P[1]} and norm(src.key) == norm(gen.target) and filt_ok \
            and isinstance(src.value, ast.Subscript) and norm(src.value.slice) == norm(gen.target)
    rep.ob("O2.3", "SRC", fi, ok, c, "centre atoms carry the ITS node's own labels for every key in element_key", facts, node=c)
    rep.ob("O2.3", "SRC", fi, bool(c.args) and norm(c.args[0]) == P[2], c, "the centre atom keeps the ITS node id", node=c)
    g = rep.f(ITSD, "get_rc")
    d = default_of(g, "element_key")
    lst = list_literal_strs(d) if d is not None else None
    need = ["element", "charge", "typesGH", "atom_map"]
    rep.ob("O2.3", "R3b", g, None if lst is None else all(k in lst for k in need), d if d is not None else "element_key",
           "default label keys include element, charge, typesGH, atom_map", {"default": lst})


def get_rc_shape(rep):
    fi = rep.f(ITSD, "get_rc")
    P = fi.params
    pm = parent_map(fi.node)
    defs = local_defs(fi.node)
    rets = returns_of(fi.node)
    rc = norm(rets[0].value) if len(rets) == 1 and rets[0].value is not None else None
    src = origin(defs, rets[0].value) if rc else None
    fresh = None
    if rc is not None:
        if isinstance(src, ast.Call) and dotted(src.func) in ("nx.Graph", "Graph") and not src.args:
            fresh = True
        elif isinstance(src, ast.Name) and src.id in P:
            fresh = False   # the input graph itself is handed back
        # anything else (an attribute of a helper object, a call the rule does not know): not decided
    rep.ob("O2.4", "SRC", fi, fresh, rets[0] if rets else "return", "the centre is a fresh graph (the ITS is not modified)")
    for callee, oid in (("_add_changed_bonds", "O2.2"), ("_add_hh_bonds", "O2.4")):
        cs = [c for c in walk_local(fi.node) if isinstance(c, ast.Call) and call_name(c) == callee]
        if not cs:
            # the step may have moved (method of a helper object, merged into the caller): the rule cannot see it any more
            rep.ob(oid, "LOOP", fi, None, callee, f"get_rc calls {callee}")
            continue
        c = cs[0]
        gs = guards_of(pm, c, fi.node)
        rep.ob(oid, "LOOP", fi, not gs, c.func, f"{callee} runs unconditionally in get_rc",
               {"guards": [norm(t) for t, _ in gs]}, node=c)
        ok = len(c.args) >= 2 and norm(c.args[0]) == P[0] and norm(c.args[1]) == rc
        rep.ob(oid, "SRC", fi, ok, c, f"{callee} reads the ITS and writes the centre", node=c)
        # positional agreement of the remaining arguments with the callee's parameters
        cal = rep.f(ITSD, callee)
        names = [norm(a) for a in c.args]
        # caller parameters must go to the like-named callee parameter; the fresh centre graph goes to `rc`
        expect = [(rc if p_ == "rc" else p_) for p_ in cal.params[: len(names)]]
        okp = names == expect and not c.keywords
        if c.keywords:
            okp = all(k.arg == norm(k.value) for k in c.keywords) and names == expect
        rep.ob(oid, "SRC", fi, okp, c, f"arguments of {callee} are bound to the like-named parameters",
               {"args": names, "params": cal.params}, node=c)
    for callee in ("_add_charge_change_nodes", "_reconnect_rc_edges"):
        for c in [c for c in walk_local(fi.node) if isinstance(c, ast.Call) and call_name(c) == callee]:
            gs = guards_of(pm, c, fi.node)
            ok = any(norm(t) == "disconnected" and s for t, s in gs)
            rep.ob("O2.1", "LOOP", fi, ok, c.func, f"{callee} (extra atoms/bonds) runs only when `disconnected` is requested", node=c)


def hh(rep):
    fi = rep.f(ITSD, "_add_hh_bonds")
    P = fi.params
    pm = parent_map(fi.node)
    loops = _edge_loop(fi, P[0])
    rep.ob("O2.4", "LOOP", fi, len(loops) == 1 if loops else None, loops[0].iter if loops else "for",
           "every ITS edge is examined for an H-H pair", node=loops[0] if loops else fi.node)
    if not loops:
        return
    lp = loops[0]
    u, v = [norm(e) for e in lp.target.elts[:2]]
    adds = recv_calls(lp, P[1], "add_edge")
    rep.need("LOOP", len(adds), 1, "rc.add_edge in _add_hh_bonds")
    for c in adds:
        gs = guards_of(pm, c, lp, early=True)
        texts = [(norm(t).replace(" ", ""), s) for t, s in gs]
        allowed = {(f"_is_hh_pair({P[0]},{u},{v})", True), (f"not{P[1]}.has_edge({u},{v})", True), (f"{P[1]}.has_edge({u},{v})", False)}
        ok = set(texts) <= allowed and (f"_is_hh_pair({P[0]},{u},{v})", True) in texts
        rep.ob("O2.4", "LOOP", fi, ok, f"add_edge under {[t for t, _ in texts]}",
               "an H-H bond is added whenever it is not yet in the centre", node=c)
        rep.ob("O2.4", "SRC", fi, [norm(a) for a in c.args[:2]] == [u, v], c.func, "H-H bond keeps its end points", node=c)
    # _is_hh_pair: both ends are hydrogen
    hp = rep.f(ITSD, "_is_hh_pair")
    rets = returns_of(hp.node)
    # decided on the table of element pairs: the function body is interpreted with the two end atoms' elements as the only inputs
    from ..absval import _NOVALUE, eval_function
    Pn = hp.params
    ok, table = True, {}
    try:
        for eu in ("H", "C", None):
            for ev in ("H", "O", None):
                def hook(e, env, eu=eu, ev=ev):
                    for x, val in ((Pn[1], eu), (Pn[2], ev)):
                        if pmatch(f"{Pn[0]}.nodes[{x}].get('element')", e) is not None or pmatch(f"{Pn[0]}.nodes[{x}]['element']", e) is not None \
                                or pmatch(f"{Pn[0]}.nodes[{x}].get('element', None)", e) is not None:
                            return val
                    return _NOVALUE
                got = bool(eval_function(hp.node, {"__resolve__": hook}))
                table[f"{eu},{ev}"] = got
                if got != (eu == "H" and ev == "H"):
                    ok = False
    except Undecided as exc:
        ok, table = None, {"undecided": str(exc)}
    rep.ob("O2.4", "CMP", hp, ok, "_is_hh_pair(ITS, u, v)", "an H-H pair is a bond whose two end atoms are both 'H'", {"verdict_by_elements": table})


def _worklist_ball(rep, fi, w, acc, P):
    """work-list form of the radius-k ball: every atom is marked when first discovered, so the list must be processed in order of
    distance (FIFO); with a stack an atom can first be reached the long way round, at the depth limit, and is then never expanded"""
    pm = parent_map(fi.node)
    W = norm(w.test) if isinstance(w.test, ast.Name) else None
    pops = [c for c in walk_local(w) if W and isinstance(c, ast.Call) and isinstance(c.func, ast.Attribute) and norm(c.func.value) == W and c.func.attr in ("pop", "popleft")]
    pushes = [c for c in walk_local(w) if W and isinstance(c, ast.Call) and isinstance(c.func, ast.Attribute) and norm(c.func.value) == W and c.func.attr in ("append", "appendleft", "extend", "insert")]
    if W is None or len(pops) != 1 or len(pushes) != 1:
        rep.ob("O2.5", "MONO", fi, None, w.test, "work-list expansion not recognised", node=w)
        return
    pop = pops[0]
    fifo = pop.func.attr == "popleft" or (pop.func.attr == "pop" and len(pop.args) == 1 and is_const(pop.args[0], 0))
    marks = [c for c in walk_local(w) if isinstance(c, ast.Call) and isinstance(c.func, ast.Attribute) and norm(c.func.value) == acc and c.func.attr == "add"]
    on_discovery = bool(marks) and any(pmatch(f"$x not in {acc}", t) is not None for t, s_ in guards_of(pm, marks[0], w) if s_)
    rep.ob("O2.5", "MONO", fi, fifo if on_discovery else None, pop,
           "atoms are marked when first discovered, so the work list must be processed in order of distance (FIFO): with a stack a ring atom first reached "
           "the long way round, at the depth limit, is never expanded from its true distance and context(k) loses atoms within radius k",
           {"fifo": fifo, "marks_on_discovery": on_discovery}, node=pop)
    # depth bookkeeping: children are queued at depth + 1 and expansion stops at n_knn
    unp = [d_ for nm, ds in local_defs(fi.node).items() for d_ in ds if d_.value is pop and d_.index == (1,)]
    depth = None
    for nm, ds in local_defs(fi.node).items():
        if any(d_.value is pop and d_.index == (1,) for d_ in ds):
            depth = nm
    ok_d = depth is not None and f"{depth} + 1" in norm(pushes[0]) and any(
        isinstance(n, ast.If) and (pmatch(f"{depth} >= {P[2]}", n.test) is not None) and any(isinstance(x, (ast.Continue, ast.Break)) for x in n.body) for n in walk_local(w))
    rep.ob("O2.5", "MONO", fi, ok_d if depth else None, pushes[0], "children are queued one level deeper and atoms at depth n_knn are not expanded", node=pushes[0])
    nb = [l for l in walk_local(w) if isinstance(l, ast.For) and isinstance(l.iter, ast.Call) and call_name(l.iter) == "neighbors"]
    rep.ob("O2.5", "MONO", fi, len(nb) == 1 and dotted(nb[0].iter.func.value) == P[0], nb[0].iter if nb else "neighbors", "expansion follows the bonds of the given graph")


def knn(rep):
    fi = rep.f(RAD, "RadiusExpand.find_nearest_neighbors")
    P = fi.params  # G, center_nodes, n_knn
    defs = local_defs(fi.node)
    rets = returns_of(fi.node)
    acc = norm(rets[0].value) if len(rets) == 1 else None
    if acc is None or acc not in defs:
        raise AnalysisError("find_nearest_neighbors: accumulator not recognised")
    ds = defs[acc]
    init = [d for d in ds if d.kind == "assign"]
    ok_init = len(init) == 1 and isinstance(init[0].value, ast.Call) and call_name(init[0].value) == "set" \
        and init[0].value.args and norm(init[0].value.args[0]) == P[1]
    rep.ob("O2.5", "MONO", fi, ok_init and len(ds) == 1, init[0].stmt if init else acc,
           "the context starts as the centre nodes and is never re-bound (it can only grow)",
           {"definitions": [norm(d.stmt)[:80] for d in ds]})
    wl = [n for n in fi.node.body if isinstance(n, ast.While)]
    if wl:
        _worklist_ball(rep, fi, wl[0], acc, P)
        return
    loops = [n for n in walk_local(fi.node) if isinstance(n, ast.For)]
    rep.need("MONO", len(loops), 1, "round loop in find_nearest_neighbors")
    lp = loops[0]
    it = lp.iter
    ok_r = None
    if isinstance(it, ast.Call) and call_name(it) == "range" and len(it.args) == 1:
        try:
            ok_r = linform(it.args[0], lambda n: n.id if isinstance(n, ast.Name) else None) == Lin({P[2]: 1})
        except Undecided:
            ok_r = None
    elif isinstance(it, ast.Call) and call_name(it) == "range":
        ok_r = None
    rep.ob("O2.5", "MONO", fi, ok_r, it, "exactly n_knn expansion rounds", node=lp)
    exits = [n for n in walk_local(lp) if isinstance(n, (ast.Break, ast.Return, ast.Continue))]
    # a `break` taken when a whole round added nothing is no cut: the set is closed under neighbours, later rounds are no-ops
    #     before = len(S) ... S.update(...) ... if len(S) == before: break        (the test must come after the round's update, at the end of the body)
    fixpoint = []
    ldefs = local_defs(lp)
    pml = parent_map(lp)
    for e in exits:
        if not isinstance(e, ast.Break):
            continue
        gs = [(t, sn) for t, sn in guards_of(pml, e, lp)]
        if len(gs) != 1 or not gs[0][1]:
            continue
        mm = pmatch("len($s) == $b", gs[0][0])
        if mm is None:
            continue
        snap = [d_ for d_ in ldefs.get(mm["b"], []) if d_.kind == "assign" and pmatch(f"len({mm['s']})", d_.value) is not None]
        grow = [c for c in walk_local(lp) if isinstance(c, ast.Call) and isinstance(c.func, ast.Attribute) and norm(c.func.value) == mm["s"] and c.func.attr in ("update", "add", "__ior__")]
        grow += [a_ for a_ in walk_local(lp) if isinstance(a_, ast.AugAssign) and isinstance(a_.op, ast.BitOr) and norm(a_.target) == mm["s"]]
        test_stmt = pml.get(e)
        if len(snap) == 1 and grow and len(ldefs.get(mm["b"], [])) == 1 and snap[0].stmt.lineno < min(g_.lineno for g_ in grow) \
                and max(g_.lineno for g_ in grow) < test_stmt.lineno and lp.body[-1] is test_stmt:
            fixpoint.append(e)
    exits = [e for e in exits if e not in fixpoint]
    rep.ob("O2.5", "MONO", fi, not exits, f"loop exits: {[type(e).__name__ for e in exits]}" + (f" (+{len(fixpoint)} fixed-point exit)" if fixpoint else ""),
           "no round is cut short (a break after a round that added nothing is not a cut)", node=lp)
    muts = [c for c in walk_local(lp) if isinstance(c, ast.Call) and isinstance(c.func, ast.Attribute)
            and dotted(c.func.value) == acc]
    kinds = sorted({c.func.attr for c in muts})
    rep.ob("O2.5", "MONO", fi, bool(muts) and set(kinds) <= {"update", "add"}, f"{acc}.{kinds}",
           "the context set is only enlarged inside the loop", node=muts[0] if muts else lp)
    upd = [c for c in muts if c.func.attr == "update"]
    if upd:
        src = origin(defs, upd[0].args[0]) if upd[0].args else None
        nb = [c for c in ast.walk(src) if isinstance(c, ast.Call) and call_name(c) in ("neighbors", "adj", "__getitem__")] if src is not None else []
        ok = bool(nb) and all(dotted(c.func.value) == P[0] for c in nb)
        gens = [g for g in ast.walk(src) if isinstance(g, ast.comprehension)] if src is not None else []
        ok_all = len(gens) == 1 and norm(gens[0].iter) == acc and not gens[0].ifs
        if not ok and isinstance(upd[0].args[0], ast.Name):
            # the shell of a round is collected by an explicit nested loop:  for n in <acc>: for m in G.neighbors(n): shell.add(m)
            shell = upd[0].args[0].id
            pm = parent_map(fi.node)
            for a_, b_ in pfind(f"{shell}.add($m)", lp) + pfind(f"{shell}.update({P[0]}.neighbors($n))", lp):
                ls = enclosing_loops(pm, a_, lp)
                unguarded = not guards_of(pm, a_, lp)
                if "m" in b_ and len(ls) == 2 and pmatch(f"{P[0]}.neighbors($n)", ls[0].iter) is not None and norm(ls[0].target) == b_["m"] \
                        and norm(ls[1].target) == pmatch(f"{P[0]}.neighbors($n)", ls[0].iter)["n"] and norm(ls[1].iter) in (acc, f"list({acc})", f"tuple({acc})"):
                    ok, ok_all = True, unguarded
                elif "n" in b_ and len(ls) == 1 and norm(ls[0].target) == b_["n"] and norm(ls[0].iter) in (acc, f"list({acc})", f"tuple({acc})"):
                    ok, ok_all = True, unguarded
        rep.ob("O2.5", "SRC", fi, ok, alpha(src, fi.node) if src is not None else upd[0], "each round adds the neighbours in the searched graph", node=upd[0])
        rep.ob("O2.5", "MONO", fi, ok_all, alpha(src, fi.node) if src is not None else upd[0],
               "each round expands around every node collected so far (unfiltered)", node=upd[0])
    d = default_of(rep.f(RAD, "RadiusExpand.extract_k"), "n_knn")
    rep.ob("O2.5", "CMP", fi, d is not None and is_const(d, 0), d if d is not None else "n_knn", "extract_k defaults to radius 0")


def extract_k(rep):
    fi = rep.f(RAD, "RadiusExpand.extract_k")
    P = fi.params  # its, n_knn
    defs = local_defs(fi.node)
    for mod in (RAD, CONV):
        imp = rep.repo.module(mod).imports.get("get_rc", "")
        rep.ob("O2.5", "SRC", f"{mod}:<module>", imp.endswith("its_decompose.get_rc"), f"import get_rc <- {imp}",
               "context extraction and rsmi_to_its(core=True) use the one get_rc of its_decompose")
    # k == 0 returns get_rc(its)
    rets = returns_of(fi.node)
    r0 = None
    pm = parent_map(fi.node)
    for r in rets:
        gs = guards_of(pm, r, fi.node)
        if any(norm(t).replace(" ", "") == f"{P[1]}==0" and s for t, s in gs):
            r0 = r
    ok = None
    if r0 is not None:
        src = origin(defs, r0.value)
        ok = isinstance(src, ast.Call) and call_name(src) == "get_rc" and len(src.args) == 1 and norm(src.args[0]) == P[0] and not src.keywords
    rep.ob("O2.5", "SRC", fi, ok, r0 if r0 is not None else "return", "context(0) is the reaction centre of the same ITS (default arguments)")
    # expansion and extraction on the ITS, seeded with the centre's nodes
    fn = [c for c in walk_local(fi.node) if isinstance(c, ast.Call) and call_name(c) == "find_nearest_neighbors"]
    ex = [c for c in walk_local(fi.node) if isinstance(c, ast.Call) and call_name(c) == "extract_subgraph"]
    rep.need("SRC", len(fn), 1, "find_nearest_neighbors call in extract_k")
    rep.need("SRC", len(ex), 1, "extract_subgraph call in extract_k")
    c = fn[0]
    seed = origin(defs, c.args[1]) if len(c.args) > 1 else None
    seed_ok = seed is not None and "nodes" in norm(seed) and isinstance(origin(defs, _base_name(seed)), ast.Call) \
        and call_name(origin(defs, _base_name(seed))) == "get_rc"
    rep.ob("O2.5", "SRC", fi, bool(c.args) and norm(c.args[0]) == P[0], c, "neighbourhood expansion walks the ITS", node=c)
    rep.ob("O2.5", "SRC", fi, seed_ok, seed if seed is not None else c, "expansion starts from the centre's atoms", node=c)
    rep.ob("O2.5", "SRC", fi, len(c.args) > 2 and norm(c.args[2]) == P[1], c, "expansion radius is the requested k", node=c)
    e = ex[0]
    nodes_src = origin(defs, e.args[1]) if len(e.args) > 1 else None
    rep.ob("O2.5", "SRC", fi, bool(e.args) and norm(e.args[0]) == P[0], e, "the context is cut out of the ITS (not of the centre)", node=e)
    # the atom list handed to extract_subgraph is the expansion's result: the call itself (possibly wrapped in list()/set()/sorted()) or a local bound to it
    def is_expansion(e_):
        while isinstance(e_, ast.Call) and isinstance(e_.func, ast.Name) and e_.func.id in ("list", "set", "sorted", "tuple", "frozenset") and len(e_.args) == 1:
            e_ = e_.args[0]
        if e_ is c:
            return True
        return isinstance(e_, ast.Name) and any(d_.value is c for d_ in defs.get(e_.id, []))
    ok = nodes_src is not None and is_expansion(nodes_src)
    rep.ob("O2.5", "SRC", fi, ok, nodes_src if nodes_src is not None else e, "the context contains exactly the expanded atom set", node=e)
    sub = rep.f(RAD, "RadiusExpand.extract_subgraph")
    rets = returns_of(sub.node)
    txt = norm(rets[0].value).replace(" ", "") if rets else ""
    rep.ob("O2.5", "SRC", sub, txt == f"{sub.params[0]}.subgraph({sub.params[1]}).copy()", rets[0] if rets else "return",
           "extract_subgraph is the induced subgraph on the given atoms (all labels and bonds kept)")
    # rsmi_to_its(core=True)
    ri = rep.f(CONV, "rsmi_to_its")
    cs = [c_ for c_ in walk_local(ri.node) if isinstance(c_, ast.Call) and call_name(c_) == "get_rc"]
    pmr = parent_map(ri.node)
    ok = len(cs) == 1 and len(cs[0].args) == 1 and not cs[0].keywords and \
        any(norm(t) == "core" and s for t, s in guards_of(pmr, cs[0], ri.node))
    rep.ob("O2.5", "SRC", ri, ok, cs[0] if cs else "get_rc", "rsmi_to_its(core=True) returns get_rc of the ITS with default arguments")


def _base_name(node):
    while not isinstance(node, ast.Name):
        kids = list(ast.iter_child_nodes(node))
        nxt = None
        for k in kids:
            if isinstance(k, (ast.Name, ast.Attribute, ast.Call, ast.Subscript)):
                nxt = k
                break
        if nxt is None:
            return ast.Name(id="?", ctx=ast.Load())
        if isinstance(node, ast.Call):
            if node.args and isinstance(node.func, ast.Name):
                nxt = node.args[0]
            else:
                nxt = node.func
        node = nxt
    return node


def _base_name_id(node):
    return _base_name(node).id


def no_id_order(rep):
    for q in ("get_rc", "_add_changed_bonds", "_add_hh_bonds", "_ensure_node", "_ensure_node_hh", "_is_hh_pair",
              "_should_include_edge"):
        fi = rep.f(ITSD, q)
        bad = []
        for n in walk_local(fi.node):
            if isinstance(n, ast.Call) and isinstance(n.func, ast.Name) and n.func.id in ("sorted", "min", "max"):
                bad.append(norm(n))
            if isinstance(n, ast.Compare) and any(isinstance(o, (ast.Lt, ast.Gt, ast.LtE, ast.GtE)) for o in n.ops):
                ids = {x.id for x in ast.walk(n) if isinstance(x, ast.Name)}
                if ids & {"u", "v", "n", "node"}:
                    bad.append(norm(n))
        rep.ob("O2.6", "R11", fi, not bad, "; ".join(bad) or "no ordering of node ids",
               "node identifiers are used only as keys/end points, never ordered (numbering independence of the centre)", node=fi.node)


MUTANTS = [
    dict(name="tolerance on standard_order", file=ITSD, expect="O2.1",
         old="if isinstance(std, (int, float)) and std != 0:\n        return True\n    if keep_mtg and is_mtg_attr:\n        return True\n    return False",
         new="if isinstance(std, (int, float)) and abs(std) > 0.5:\n        return True\n    if keep_mtg and is_mtg_attr:\n        return True\n    return False"),
    dict(name="only bond-forming changes", file=ITSD, expect="O2.1",
         old="if isinstance(std, (int, float)) and std != 0:\n        return True\n    if keep_mtg and is_mtg_attr:",
         new="if isinstance(std, (int, float)) and std > 0:\n        return True\n    if keep_mtg and is_mtg_attr:"),
    dict(name="mtg kept without the flag", file=ITSD, expect="O2.1",
         old="    if keep_mtg and is_mtg_attr:\n        return True\n    return False", new="    if is_mtg_attr:\n        return True\n    return False"),
    dict(name="skip bonds absent on the reactant side", file=ITSD, expect="O2.2",
         old="        if not _should_include_edge(std, is_mtg_attr, keep_mtg):\n            continue\n        _ensure_node(rc, ITS, u, element_key)",
         new="        if not _should_include_edge(std, is_mtg_attr, keep_mtg):\n            continue\n        if data[bond_key][0] == 0:\n            continue\n        _ensure_node(rc, ITS, u, element_key)"),
    dict(name="hh bonds only when disconnected", file=ITSD, expect="O2.4",
         old="    _add_hh_bonds(ITS, rc, element_key, bond_key, standard_key)\n    if disconnected:\n        _add_charge_change_nodes(ITS, rc, element_key)\n        _reconnect_rc_edges(ITS, rc, bond_key, standard_key)\n    return rc\n\n\ndef _add_changed_bonds",
         new="    if disconnected:\n        _add_hh_bonds(ITS, rc, element_key, bond_key, standard_key)\n        _add_charge_change_nodes(ITS, rc, element_key)\n        _reconnect_rc_edges(ITS, rc, bond_key, standard_key)\n    return rc\n\n\ndef _add_changed_bonds"),
    dict(name="one round too few", file=RAD, expect="O2.5",
         old="for _ in range(n_knn):", new="for _ in range(n_knn - 1):"),
    dict(name="context replaced by the frontier", file=RAD, expect="O2.5",
         old="            extended_nodes.update(neighbors)", new="            extended_nodes = neighbors"),
    dict(name="_ensure_node copies labels from rc", file=ITSD, expect="O2.3",
         old="        node_data = ITS.nodes[node]\n        final_attrs = {k: node_data[k] for k in element_key if k in node_data}\n        rc.add_node(node, **final_attrs)",
         new="        node_data = rc.nodes.get(node, {})\n        final_attrs = {k: node_data[k] for k in element_key if k in node_data}\n        rc.add_node(node, **final_attrs)"),
    dict(name="typesGH dropped from default keys", file=ITSD, expect="O2.3",
         old='def get_rc(\n    ITS: nx.Graph,\n    element_key: List[str] = ["element", "charge", "typesGH", "atom_map"],',
         new='def get_rc(\n    ITS: nx.Graph,\n    element_key: List[str] = ["element", "charge", "atom_map"],'),
    dict(name="context cut out of the centre", file=RAD, expect="O2.5",
         old="context = RadiusExpand.extract_subgraph(its, list(expanded_nodes))", new="context = RadiusExpand.extract_subgraph(rc, list(expanded_nodes))"),
    dict(name="only second end node ensured", file=ITSD, expect="O2.3",
         old="        _ensure_node(rc, ITS, u, element_key)\n        _ensure_node(rc, ITS, v, element_key)", new="        _ensure_node(rc, ITS, v, element_key)\n        _ensure_node(rc, ITS, v, element_key)"),
    dict(name="edge loses order pair", file=ITSD, expect="O2.2",
         old="            **{bond_key: data.get(bond_key), standard_key: std, \"is_mtg\": is_mtg_attr},", new="            **{standard_key: std, \"is_mtg\": is_mtg_attr},"),
    dict(name="expansion filtered by element", file=RAD, expect="O2.5",
         old="chain.from_iterable(G.neighbors(node) for node in extended_nodes)",
         new="chain.from_iterable(G.neighbors(node) for node in extended_nodes if G.nodes[node].get('element') != 'H')"),
    dict(name="hh only if one end already in centre", file=ITSD, expect="O2.4",
         old="        if _is_hh_pair(ITS, u, v):\n            for n in (u, v):", new="        if _is_hh_pair(ITS, u, v) and (rc.has_node(u) or rc.has_node(v)):\n            for n in (u, v):"),
    dict(name="rsmi_to_its core keeps mtg", file=CONV, expect="O2.5",
         old="    if core:\n        its = get_rc(its)\n    return its", new="    if core:\n        its = get_rc(its, disconnected=True)\n    return its"),
]

TWINS = [
    dict(name="ensure both ends in a loop", file=ITSD,
         old="        _ensure_node(rc, ITS, u, element_key)\n        _ensure_node(rc, ITS, v, element_key)",
         new="        for n in (u, v):\n            _ensure_node(rc, ITS, n, element_key)"),
    dict(name="predicate as a single expression", file=ITSD,
         old="    if isinstance(std, (int, float)) and std != 0:\n        return True\n    if keep_mtg and is_mtg_attr:\n        return True\n    return False",
         new="    return (isinstance(std, (int, float)) and std != 0) or bool(keep_mtg and is_mtg_attr)"),
    dict(name="range with explicit start", file=RAD, old="for _ in range(n_knn):", new="for _ in range(0 + n_knn):"),
]
