"""C10 - changing representation (SMILES, graph, explicit/implicit H, GML) loses nothing."""
from __future__ import annotations

import ast
import re

from ..absval import Lin, Undecided, eval_expr, eval_function, linform
from ..core import (alpha, AnalysisError, call_name, const, dotted, is_const, kwarg, local_defs, norm, origin,
                    parent_map, walk_local, names_in)
from ..facts import iterations, expand_node_data, default_of, guards_of, returns_of, enclosing_loops, assigned_subscripts
from ..rules.nonmut import mutations
from ..shape import walk_paths
from ..pattern import pmatch, pfind, pall

CONV = "synkit/IO/chem_converter.py"
N2G = "synkit/IO/nx_to_gml.py"
G2N = "synkit/IO/gml_to_nx.py"
M2G = "synkit/IO/mol_to_graph.py"
G2M = "synkit/IO/graph_to_mol.py"
AF = "synkit/Chem/Molecule/atom_features.py"
HY = "synkit/Graph/Hyrogen/_misc.py"

META = {
    "explanation": (
        "R3(c) table inverses: the GML writer's order->label table and the reader's label->order table are mutually "
        "inverse; the bond-order table of GraphToMol is evaluated on {1, 2, 3, 1.5}. R3(d): the charge printer is "
        "evaluated on charges -3..3 and its outputs are parsed back through the reader's extracted regex and charge "
        "arithmetic (abstract evaluation of both function bodies on sample points). R3(b): attribute keys written by "
        "MolToGraph are the keys read by GraphToMol (element, charge, atom_map, hcount, order). Sibling producers: on "
        "every path of its_to_gml / smart_to_gml the rule triple handed to NXToGML.transform is (its_decompose(K), K) or "
        "(r, p, ITSGraph(r, p)) of ONE graph K (symbolic path execution over core in {True, False}). R15/R9 hydrogen "
        "bookkeeping: h_to_explicit adds `count` hydrogens and subtracts the same `count`; h_to_implicit adds one per "
        "removed hydrogen bonded to a heavy atom; both work on G.copy()."
    ),
    "rules": {"R3c": "mutually inverse literal tables", "R3d": "printer evaluated against the parser's regex/arithmetic on sample points",
              "R3b": "attribute key agreement writer/reader", "SIB": "sibling producers build the rule from one graph on every path",
              "R15": "hydrogen count arithmetic", "R9": "parameter non-mutation"},
    "not_decided": "SMILES -> graph -> SMILES equality and molecule identity under explicit/implicit hydrogens (RDKit)",
    "trusted_base": ["CPython ast", "re", "sa/* analyser", "RDKit BondTypeAsDouble: SINGLE 1.0, DOUBLE 2.0, TRIPLE 3.0, AROMATIC 1.5"],
    "assumptions": ["element symbols are alphabetic (or '*')"],
}


def run(rep):
    rep.run(tables)
    rep.run(charges)
    rep.run(producers)
    rep.run(mol_graph)
    rep.run(hydrogens)
    rep.run(implicit_h)
    rep.run(gml_reader)


def _dict_literals(fi):
    """[(name, {key: value}, node)] for locals assigned a literal dict of constants"""
    out = []
    # ... and module-level tables the function reads by name (never re-bound in it)
    read = {n.id for n in walk_local(fi.node) if isinstance(n, ast.Name) and isinstance(n.ctx, ast.Load)}
    bound = {n.id for n in walk_local(fi.node) if isinstance(n, ast.Name) and isinstance(n.ctx, ast.Store)} | set(fi.params)
    top = [st for st in fi.module.tree.body if isinstance(st, ast.Assign) and len(st.targets) == 1 and isinstance(st.targets[0], ast.Name)
           and st.targets[0].id in read - bound]
    for n in list(walk_local(fi.node)) + top:
        if isinstance(n, ast.Assign) and isinstance(n.targets[0], ast.Name) and isinstance(n.value, ast.Dict) and n.value.keys:
            try:
                out.append((n.targets[0].id, {const(k): const(v) for k, v in zip(n.value.keys, n.value.values)}, n))
            except (ValueError, TypeError):
                continue
    return out


def tables(rep):
    w = rep.f(N2G, "NXToGML._convert_graph_to_gml")
    r = rep.f(G2N, "GMLToNX._parse_element")
    GR, SEC = w.params[0], w.params[1]
    # the writer's table is the literal dict whose .get() result is printed as an edge label; the reader's the one whose .get() feeds add_edge(order=...)
    wl = [(nm, d, n) for nm, d, n in _dict_literals(w) if all(isinstance(v, str) for v in d.values())]
    rl = [(nm, d, n) for nm, d, n in _dict_literals(r) if all(isinstance(k, str) for k in d)]
    if len(wl) != 1 or len(rl) != 1:
        raise AnalysisError("GML bond tables not found as literal dicts")
    (WT, o2l, n1), (RT, l2o, n2) = wl[0], rl[0]
    inv = {v: k for k, v in o2l.items()}
    rep.ob("O10.1", "R3c", w, inv == l2o and len(inv) == len(o2l), f"writer {o2l} / reader {l2o}", "bond order -> label and label -> bond order are mutually inverse", node=n1)
    rep.ob("O10.1", "R3c", w, set(o2l) >= {1, 1.5, 2, 3}, sorted(o2l), "single, aromatic, double and triple bonds all have a label")
    # the section writer looks the order up with this table and prints it as the label
    uses = [c for c in walk_local(w.node) if isinstance(c, ast.Call) and norm(c.func) == f"{WT}.get"]
    pm = parent_map(w.node)
    lr = [c for c in uses if any(norm(t).replace(" ", "") == f"{SEC}!='context'" and s_ for t, s_ in guards_of(pm, c, w.node))]
    ok = False
    if lr:
        its = iterations(pm, lr[0], w.node)
        ok = bool(its) and pmatch(f"{GR}.edges(data=True)", its[0].iter) is not None and pmatch(f"{its[0].item(2)}.get('order', 1)", lr[0].args[0]) is not None
        if ok:
            # ... and the looked-up label is what the edge line prints (directly or through the local it was stored in)
            ldefs = local_defs(its[0].holder)
            js = [j for j in walk_local(its[0].holder) if isinstance(j, ast.JoinedStr)
                  and any(isinstance(v_, ast.FormattedValue) and origin(ldefs, v_.value) is lr[0] for v_ in j.values)]
            printed = [origin(ldefs, v_.value) for v_ in js[0].values if isinstance(v_, ast.FormattedValue)] if js else []
            ok = len(printed) == 3 and norm(printed[0]) == its[0].item(0) and norm(printed[1]) == its[0].item(1) and printed[2] is lr[0]
    rep.ob("O10.1", "R3c", w, ok, "label = order_to_label.get(edge[2].get('order', 1), '-')", "left/right bonds are labelled by their own order (source, target, label printed in this order)")
    # context section: the bonds h_to_explicit adds carry `order` only - an edge without `standard_order` is an unchanged bond for the writer
    hx = rep.repo.maybe_func(HY, "h_to_explicit")
    bare = [c for c in walk_local(hx.node) if isinstance(c, ast.Call) and call_name(c) == "add_edge" and kwarg(c, "standard_order") is None
            and not any(k.arg is None for k in c.keywords)] if hx is not None else []
    so_reads = [c for c in walk_local(w.node) if isinstance(c, (ast.Call, ast.Subscript)) and (
        (isinstance(c, ast.Call) and call_name(c) == "get" and c.args and is_const(c.args[0], "standard_order"))
        or (isinstance(c, ast.Subscript) and isinstance(c.ctx, ast.Load) and is_const(c.slice, "standard_order")))
        and any(norm(t).replace(" ", "") == f"{SEC}=='context'" and s_ for t, s_ in guards_of(pm, c, w.node))]
    if bare:
        for c in so_reads:
            dflt = c.args[1] if isinstance(c, ast.Call) and len(c.args) > 1 else (kwarg(c, "default") if isinstance(c, ast.Call) else None)
            okd = dflt is not None and isinstance(dflt, ast.Constant) and not isinstance(dflt.value, bool) and dflt.value == 0
            rep.ob("O10.1", "R3c", w, okd, c, "in the context section a bond without `standard_order` (the X-H bonds h_to_explicit adds carry `order` only) reads as "
                   "unchanged: the attribute is read with default 0", {"bare_add_edge_sites_in_h_to_explicit": len(bare)}, node=c)
        if not so_reads:
            rep.ob("O10.1", "R3c", w, None, "standard_order", "the context section's test for unchanged bonds was not found")
    use_r = [c for c in walk_local(r.node) if isinstance(c, ast.Call) and norm(c.func) == f"{RT}.get"]
    add = [c for c in walk_local(r.node) if isinstance(c, ast.Call) and call_name(c) == "add_edge"]
    ok = False
    rd = local_defs(r.node)
    if use_r and add:
        TOK = [nm for nm, ds in rd.items() for d_ in ds if d_.kind == "assign" and pmatch(f"{r.params[1]}.split()", d_.value) is not None]
        tk = TOK[0] if TOK else "?"

        def field(e, key, conv):
            src = origin(local_defs(_branch_of(r.node, add[0])), e) if isinstance(e, ast.Name) else e
            pat = f"int({tk}[{tk}.index('{key}') + 1])" if conv == "int" else f"{tk}[{tk}.index('{key}') + 1].strip('\"')"
            return pmatch(pat, src) is not None
        okv = isinstance(kwarg(add[0], "order"), ast.Name) and any(d_.value is use_r[0] for d_ in rd.get(kwarg(add[0], "order").id, []))
        ok = okv and len(add[0].args) == 2 and field(add[0].args[0], "source", "int") and field(add[0].args[1], "target", "int") and field(use_r[0].args[0], "label", "str")
    rep.ob("O10.1", "R3c", r, ok, "add_edge(source, target, order=label_to_order.get(label, 0))", "the parsed label becomes the bond's order between the parsed end points")


def _branch_of(fn, node):
    """innermost If-branch body (as a Module) that contains `node`; the function itself if there is none"""
    best = fn
    for n in ast.walk(fn):
        if isinstance(n, ast.If):
            for body in (n.body, n.orelse):
                if any(x is node for st in body for x in ast.walk(st)):
                    best = ast.Module(body=body, type_ignores=[])
    return best


def charges(rep):
    pr = rep.f(N2G, "NXToGML._charge_to_string")
    rd = rep.f(G2N, "GMLToNX._extract_element_and_charge")
    mcall = [c for c in walk_local(rd.node) if isinstance(c, ast.Call) and dotted(c.func) in ("re.match", "re.fullmatch")]
    pattern = None
    if not mcall:
        # a pattern compiled once at module level:  NAME = re.compile(<literal>)  ...  NAME.match(label)
        for c in walk_local(rd.node):
            if isinstance(c, ast.Call) and isinstance(c.func, ast.Attribute) and c.func.attr in ("match", "fullmatch") and isinstance(c.func.value, ast.Name):
                for st in rd.module.tree.body:
                    if isinstance(st, ast.Assign) and len(st.targets) == 1 and norm(st.targets[0]) == c.func.value.id and isinstance(st.value, ast.Call) \
                            and dotted(st.value.func) == "re.compile" and st.value.args and isinstance(st.value.args[0], ast.Constant):
                        mcall = [c]
                        pattern = st.value.args[0].value
    rep.need("R3d", len(mcall), 1, "regex in _extract_element_and_charge")
    pattern = pattern if pattern is not None else mcall[0].args[0].value
    rep.extra["charge_regex"] = pattern
    MV = [nm for nm, ds in local_defs(rd.node).items() for d_ in ds if d_.value is mcall[0]]
    MV = MV[0] if MV else "match"
    bad, n = [], 0
    error_cls = re.error
    try:
        rx = re.compile(pattern)
        for element in ("C", "N", "Cl", "Na", "*", "Fe"):
            for q in range(-3, 4):
                s = eval_function(pr.node, {pr.params[0]: q})
                label = f"{element}{s}"
                m = rx.match(label)
                env = {norm(mcall[0]): (m if m else None), rd.params[1]: label}
                if m:
                    for g in (1, 2, 3):
                        env[f"{MV}.group({g})"] = m.group(g)
                    env[f"{MV}.groups()"] = m.groups()
                    # every .group(<constants>) / .groupdict() call the parser makes, answered by the real match object
                    for gc in walk_local(rd.node):
                        if isinstance(gc, ast.Call) and isinstance(gc.func, ast.Attribute) and norm(gc.func.value) == MV and gc.func.attr in ("group", "groupdict") \
                                and all(isinstance(a_, ast.Constant) for a_ in gc.args):
                            try:
                                env[norm(gc)] = getattr(m, gc.func.attr)(*[a_.value for a_ in gc.args])
                            except (IndexError, error_cls):
                                pass
                got = eval_function(rd.node, env)
                n += 1
                if tuple(got) != (element, q):
                    bad.append(f"{label!r} -> {got}")
        ok = not bad
    except Undecided as exc:
        ok, bad = None, [str(exc)]
    rep.ob("O10.1", "R3d", rd, ok, f"_charge_to_string o regex {pattern!r} o charge arithmetic",
           "every (element, charge) printed by the GML writer is parsed back to the same (element, charge)", {"cases": n, "disagreements": bad[:6]}, node=mcall[0])
    # label = element + charge string on the writer side, parsed through _extract_element_and_charge on the reader side
    w = rep.f(N2G, "NXToGML._convert_graph_to_gml")
    GR = w.params[0]
    pmw = parent_map(w.node)
    labs = [j for j in walk_local(w.node) if isinstance(j, ast.JoinedStr) and "label" in "".join(str(v.value) for v in j.values if isinstance(v, ast.Constant))
            and "node" in "".join(str(v.value) for v in j.values if isinstance(v, ast.Constant))]
    ok = len(labs) >= 2
    for j in labs:
        fv = [v.value for v in j.values if isinstance(v, ast.FormattedValue)]
        its = iterations(pmw, j, w.node)
        if not its or len(fv) != 3 or pmatch(f"{GR}.nodes(data=True)", its[0].iter) is None:
            ok = False
            continue
        ld = local_defs(its[0].holder)
        e_src, c_src = origin(ld, fv[1]), origin(ld, fv[2])
        cm = pmatch("NXToGML._charge_to_string($$q)", c_src)
        ok = ok and norm(fv[0]) == its[0].item(0) and pmatch(f"{its[0].item(1)}.get('element', $$d)", e_src) is not None and cm is not None \
            and pmatch(f"{its[0].item(1)}.get('charge', 0)", origin(ld, c_src.args[0])) is not None
        # element and charge string are adjacent (nothing printed between them)
        vals = j.values
        i_e = [i for i, v in enumerate(vals) if v is not None and isinstance(v, ast.FormattedValue) and v.value is fv[1]][0]
        ok = ok and isinstance(vals[i_e + 1], ast.FormattedValue) and vals[i_e + 1].value is fv[2]
    rep.ob("O10.1", "R3d", w, ok, 'node [ id {node[0]} label "{element}{charge_str}" ]', "node lines print id, then element immediately followed by the charge string")
    rep.ob("O10.1", "R3d", w, ok, "charge_str = NXToGML._charge_to_string(node[1].get('charge', 0))", "the charge string is computed from the node's own charge")
    p = rep.f(G2N, "GMLToNX._parse_element")
    d = local_defs(p.node)
    na = [n_ for n_ in walk_local(p.node) if isinstance(n_, ast.Dict) and any(isinstance(k, ast.Constant) and k.value == "charge" for k in n_.keys)]
    ok2 = False
    if na:
        kv = {k.value: v for k, v in zip(na[0].keys, na[0].values)}
        e_, c_, a_ = kv.get("element"), kv.get("charge"), kv.get("atom_map")
        if all(isinstance(x, ast.Name) for x in (e_, c_, a_)):
            ue = [x for x in d.get(e_.id, []) if x.index == (0,) and isinstance(x.value, ast.Call) and call_name(x.value) == "_extract_element_and_charge"]
            uc = [x for x in d.get(c_.id, []) if x.index == (1,) and isinstance(x.value, ast.Call) and call_name(x.value) == "_extract_element_and_charge"]
            adds = [c for c in walk_local(p.node) if isinstance(c, ast.Call) and call_name(c) == "add_node"]
            ok2 = bool(ue) and bool(uc) and ue[0].value is uc[0].value and bool(adds) and norm(adds[0].args[0]) == a_.id \
                and "index('id')" in norm(origin(local_defs(_branch_of(p.node, adds[0])), a_)) and "index('label')" in norm(origin(local_defs(_branch_of(p.node, adds[0])), ue[0].value.args[0]))
    rep.ob("O10.1", "R3d", p, ok2, "{'element': element, 'charge': charge, 'atom_map': node_id}", "parsed element and charge are stored under 'element' and 'charge' of the parsed node id")


# ------------------------------------------------------------------ O10.2
def _wrap(val: str) -> str:
    return val if val.isidentifier() else f"<{val}>"


def _sym(expr, env, known=None):
    """normalised text of expr with local names replaced by their symbolic values;
    conditional expressions decided by the path's flag values are resolved"""
    from ..shape import tri
    known = known or {}

    class T(ast.NodeTransformer):
        def visit_IfExp(self, n):
            v = tri(n.test, known)
            if v is True:
                return self.visit(n.body)
            if v is False:
                return self.visit(n.orelse)
            return self.generic_visit(n)

        def visit_Name(self, n):
            if n.id in env:
                return ast.Name(id=_wrap(env[n.id]), ctx=n.ctx)
            return n
    import copy
    e2 = T().visit(copy.deepcopy(expr))
    return norm(e2)


def producers(rep):
    for q in ("its_to_gml", "smart_to_gml"):
        fi = rep.f(CONV, q)
        n_paths = 0
        for core in (True, False):
            known = {"core": core, "useSmiles is False": False}
            try:
                paths = walk_paths(fi.node.body, known)
            except Undecided as exc:
                rep.ob("O10.2", "SIB", fi, None, q, str(exc))
                continue
            for p in paths:
                env = {a: a for a in fi.params}
                hit = None
                for st in p.stmts:
                    if isinstance(st, ast.Assign) and len(st.targets) == 1:
                        t = st.targets[0]
                        val = _sym(st.value, env, known)
                        if isinstance(t, ast.Name):
                            env[t.id] = val
                        elif isinstance(t, ast.Tuple):
                            for i, e in enumerate(t.elts):
                                if isinstance(e, ast.Name):
                                    env[e.id] = f"{val}[{i}]"
                    if isinstance(st, (ast.Assign, ast.Return, ast.Expr)) and getattr(st, "value", None) is not None:
                        for c in ast.walk(st.value):
                            if isinstance(c, ast.Call) and call_name(c) == "transform" and c.args and isinstance(c.args[0], ast.Tuple):
                                hit = [env.get(e.id, e.id) if isinstance(e, ast.Name) else _sym(e, env, known) for e in c.args[0].elts]
                if hit is None:
                    continue
                n_paths += 1
                L, R, K = hit
                k = K
                ok = (L == f"its_decompose({_wrap(k)})[0]" and R == f"its_decompose({_wrap(k)})[1]")
                if not ok:
                    # (r, p, ITSGraph(r, p)) form
                    ok = k.replace(" ", "") == f"ITSConstruction().ITSGraph({_wrap(L)},{_wrap(R)})".replace(" ", "")
                rep.ob("O10.2", "SIB", fi, ok, f"core={core}: transform((L, R, K)) with K = {k[:60]}",
                       "left/right fragments and the context written to GML come from ONE graph (its_decompose(K) with the same K, or K built from exactly (L, R))",
                       {"L": L[:80], "R": R[:80], "K": k[:80]})
                if core:
                    rep.ob("O10.2", "SIB", fi, "get_rc(" in k, f"core=True: K = {k[:60]}", "with core=True the rule is written from the reaction centre")
                    # ... the centre as get_rc defines it by default (what rsmi_to_its(core=True) and a caller's own get_rc(its) produce): an exporter
                    # that asks for another centre (disconnected=True, other keys) no longer agrees with a rule exported from a supplied centre
                    for gc in [x for x in walk_local(fi.node) if isinstance(x, ast.Call) and call_name(x) == "get_rc"]:
                        extra = {kk.arg: norm(kk.value) for kk in gc.keywords if kk.arg} if not any(kk.arg is None for kk in gc.keywords) else None
                        extra_pos = len(gc.args) > 1
                        okg = None if (extra is None or extra_pos) else (not {a_: v_ for a_, v_ in extra.items() if v_ not in ("False", "None")})
                        rep.ob("O10.2", "SIB", fi, okg, gc, "the exported centre is get_rc's default centre (no option that changes which atoms / bonds belong to it)", node=gc)
        rep.need("SIB", n_paths, 2, f"paths through {q} that reach NXToGML.transform")
    # both producers forward the same options
    extras_by_q = {}
    for q in ("its_to_gml", "smart_to_gml"):
        fi = rep.f(CONV, q)
        c = [x for x in walk_local(fi.node) if isinstance(x, ast.Call) and call_name(x) == "transform"]
        kws = {k.arg: norm(k.value) for k in c[0].keywords} if c else {}
        want = {"reindex": "reindex", "rule_name": "rule_name", "explicit_hydrogen": "explicit_hydrogen"}
        got = {k_: (norm(kwarg(c[0], k_)) if c and kwarg(c[0], k_) is not None else None) for k_ in want}
        # further options (new, opt-in ones) are the writer's business; the two producers have to pass the same ones
        extras_by_q[q] = {k_: v_ for k_, v_ in kws.items() if k_ not in want}
        rep.ob("O10.2", "SIB", fi, got == want, kws, "options are forwarded unchanged to the GML writer")
    if len(extras_by_q) == 2 and len({tuple(sorted(v.items())) for v in extras_by_q.values()}) != 1:
        rep.ob("O10.2", "SIB", rep.f(CONV, "its_to_gml"), None, extras_by_q, "the two producers pass different further options to the GML writer")
    g2i = rep.f(CONV, "gml_to_its")
    d = local_defs(g2i.node)
    grets = returns_of(g2i.node)
    up = [x for x in d.get(norm(grets[-1].value) if grets else "", []) if x.index is not None]
    ok = bool(up) and up[0].index == (2,) and f"GMLToNX({g2i.params[0]}).transform()" in norm(up[0].value)
    rep.ob("O10.2", "SIB", g2i, ok, "_, _, its = GMLToNX(gml).transform()", "gml_to_its returns the ITS member of the parsed triple")
    tr = rep.f(N2G, "NXToGML.transform")
    d = local_defs(tr.node)
    slot = {x.index: nm for nm, xs in d.items() for x in xs if x.index is not None and norm(x.value) == tr.params[0]}
    ok = set(slot) == {(0,), (1,), (2,)}
    rep.ob("O10.2", "SIB", tr, ok, "L, R, K = graph_rules", "the writer unpacks (left, right, context) in the order the producers pass")
    rg = [c for c in walk_local(tr.node) if isinstance(c, ast.Call) and call_name(c) == "_rule_grammar"]
    ok = ok and bool(rg) and [norm(a) for a in rg[0].args[:3]] == [slot[(0,)], slot[(1,)], slot[(2,)]]
    rep.ob("O10.2", "SIB", tr, ok, rg[0] if rg else "_rule_grammar", "and hands them on in that order")
    # the ids of charge-changing atoms are computed on the SAME numbering that is written out
    n_verdicts = 0
    for reindex in (True, False):
        known = {"reindex": reindex, "explicit_hydrogen": False}
        try:
            paths = walk_paths(tr.node.body, known)
        except Undecided as exc:
            rep.ob("O10.2", "SIB", tr, None, "transform", str(exc))
            continue
        for pth in paths:
            env = {a: a for a in tr.params}
            verdict = None
            for st in pth.stmts:
                if isinstance(st, ast.Assign) and len(st.targets) == 1:
                    t = st.targets[0]
                    val = _sym(st.value, env, known)
                    if isinstance(t, ast.Name):
                        env[t.id] = val
                    elif isinstance(t, ast.Tuple):
                        for i, e in enumerate(t.elts):
                            if isinstance(e, ast.Name):
                                env[e.id] = f"{val}[{i}]"
                if isinstance(st, (ast.Assign, ast.Return, ast.Expr)) and getattr(st, "value", None) is not None:
                    for c in ast.walk(st.value):
                        if isinstance(c, ast.Call) and call_name(c) == "_rule_grammar" and len(c.args) >= 5:
                            val_ = lambda a_: env.get(a_.id, a_.id) if isinstance(a_, ast.Name) else _sym(a_, env, known)
                            Ls, Rs = val_(c.args[0]), val_(c.args[1])
                            ids = val_(c.args[4])
                            want = f"NXToGML._find_changed_nodes({_wrap(Ls)}, {_wrap(Rs)}, attributes)"
                            verdict = (ids.replace(" ", "") == want.replace(" ", ""), ids, want)
            n_verdicts += verdict is not None
            if verdict is not None:
                rep.ob("O10.2", "SIB", tr, verdict[0], f"reindex={reindex}: changed ids = {verdict[1][:90]}",
                       "the list of charge-changing atoms refers to the numbering of the graphs that are written (computed after any re-indexing)",
                       {"expected": verdict[2][:120]})
    rep.need("SIB", n_verdicts, 2, "paths of NXToGML.transform that reach _rule_grammar (with and without re-indexing)")
    gr = rep.f(N2G, "NXToGML._rule_grammar")
    secs = [(norm(c.args[0]), const(c.args[1])) for c in walk_local(gr.node) if isinstance(c, ast.Call) and call_name(c) == "_convert_graph_to_gml"]
    gp = gr.params
    rep.ob("O10.2", "SIB", gr, sorted(secs) == sorted([(gp[0], "left"), (gp[2], "context"), (gp[1], "right")]), secs, "L is written as 'left', K as 'context', R as 'right'")


# ------------------------------------------------------------------ O10.3
def mol_graph(rep):
    w_keys = set()
    for rel, q in ((M2G, "MolToGraph._gather_atom_properties"), (AF, None)):
        if q:
            fi = rep.f(rel, q)
            for n in walk_local(fi.node):
                if isinstance(n, ast.Dict):
                    w_keys |= {k.value for k in n.keys if isinstance(k, ast.Constant)}
    bond_keys = set()
    fb = rep.f(M2G, "MolToGraph._gather_bond_properties")
    for n in walk_local(fb.node):
        if isinstance(n, ast.Dict):
            bond_keys |= {k.value for k in n.keys if isinstance(k, ast.Constant)}
    af = rep.repo.module(AF)
    af_keys = set()
    for n in ast.walk(af.tree):
        if isinstance(n, ast.Dict):
            af_keys |= {k.value for k in n.keys if isinstance(k, ast.Constant) and isinstance(k.value, str)}
    init = rep.f(G2M, "GraphToMol.__init__")
    na = default_of(init, "node_attributes")
    ea = default_of(init, "edge_attributes")
    try:
        r_node = set(const(v) for v in na.values)
        r_edge = set(const(v) for v in ea.values)
    except Exception:
        raise AnalysisError("GraphToMol attribute defaults are not literal")
    need = r_node | {"hcount"}
    rep.ob("O10.3", "R3b", init, need <= w_keys and need <= af_keys, f"reader {sorted(need)}", "every node key GraphToMol reads is written by MolToGraph (both extractors)",
           {"legacy_writer": sorted(w_keys), "extractor_writer_has": sorted(need & af_keys)})
    rep.ob("O10.3", "R3b", init, r_edge <= bond_keys, f"reader {sorted(r_edge)}", "every bond key GraphToMol reads is written by MolToGraph", {"writer": sorted(bond_keys)})
    g = rep.f(G2M, "GraphToMol.graph_to_mol")
    d = local_defs(g.node)
    sets = {call_name(c): c.args[0] for c in walk_local(g.node) if isinstance(c, ast.Call) and call_name(c) in ("SetFormalCharge", "SetAtomMapNum", "SetNumExplicitHs", "Atom") and c.args}
    nl = [l for l in walk_local(g.node) if isinstance(l, ast.For) and pmatch(f"{g.params[1]}.nodes(data=True)", l.iter) is not None]
    DATA = norm(nl[0].target.elts[1]) if nl and isinstance(nl[0].target, ast.Tuple) else "?"

    def reads(callname, key_text, unwrap=None):
        e = sets.get(callname)
        if e is None:
            return False
        if unwrap:
            m_ = pmatch(f"{unwrap}($x)", e)
            if not m_:
                return False
            e = ast.Name(id=m_["x"], ctx=ast.Load())
        # the value is looked up in the node's data under exactly this key: data.get(key[, default]) or data[key]
        looked_up = set()
        for x in ast.walk(origin(d, e)):
            if isinstance(x, ast.Call) and isinstance(x.func, ast.Attribute) and x.func.attr == "get" and norm(x.func.value) == DATA and x.args:
                looked_up.add(norm(x.args[0]))
            elif isinstance(x, ast.Subscript) and norm(x.value) == DATA:
                looked_up.add(norm(x.slice))
        return looked_up == {key_text}
    ok = reads("Atom", "self.node_attributes['element']") and reads("SetFormalCharge", "self.node_attributes['charge']") \
        and reads("SetAtomMapNum", "self.node_attributes['atom_map']") and reads("SetNumExplicitHs", "'hcount'", unwrap="int")
    rep.ob("O10.3", "R3b", g, ok, "Atom(element) / SetFormalCharge(charge) / SetAtomMapNum(atom_map) / SetNumExplicitHs(int(hcount))",
           "element, charge, atom map and hydrogen count are each read from their own key and applied to the matching RDKit atom property")
    # an atom that carries no 'hcount' keeps RDKit's own hydrogen perception: the count is applied only when the key is present
    # (read with a None default and tested, or guarded by a membership test); `data.get('hcount', 0)` alone pins such atoms to zero hydrogens
    he = sets.get("SetNumExplicitHs")
    hsrc = origin(d, he.args[0]) if isinstance(he, ast.Call) and call_name(he) == "int" and he.args else (origin(d, he) if he is not None else None)
    okp = None
    if hsrc is not None:
        gets = [x for x in ast.walk(hsrc) if isinstance(x, ast.Call) and isinstance(x.func, ast.Attribute) and x.func.attr == "get" and norm(x.func.value) == DATA
                and x.args and is_const(x.args[0], "hcount")]
        subs = [x for x in ast.walk(hsrc) if isinstance(x, ast.Subscript) and norm(x.value) == DATA and is_const(x.slice, "hcount")]
        member = any(isinstance(x, ast.Compare) and len(x.ops) == 1 and isinstance(x.ops[0], ast.In) and is_const(x.left, "hcount")
                     and norm(x.comparators[0]) in (DATA, f"{DATA}.keys()") for x in ast.walk(hsrc))
        setter = [c for c in walk_local(g.node) if isinstance(c, ast.Call) and call_name(c) == "SetNumExplicitHs"]
        member = member or any(isinstance(t_, ast.Compare) and len(t_.ops) == 1 and isinstance(t_.ops[0], ast.In) and is_const(t_.left, "hcount") and s_
                               for c_ in setter for t_, s_ in guards_of(parent_map(g.node), c_, g.node))
        none_default = bool(gets) and all(len(x.args) == 1 or is_const(x.args[1], None) for x in gets)
        if gets or subs:
            okp = bool(member or (none_default and not subs))
    rep.ob("O10.3", "R3b", g, okp, alpha(hsrc, g.node) if hsrc is not None else "hcount", "an atom without an 'hcount' entry is left to RDKit's hydrogen perception (the count is only applied when the key is present)")
    ni = [c for c in walk_local(g.node) if isinstance(c, ast.Call) and call_name(c) == "SetNoImplicit"]
    rep.ob("O10.3", "R3b", g, bool(ni) and is_const(ni[0].args[0], True), ni[0] if ni else "SetNoImplicit", "with explicit hydrogen counts RDKit must not add implicit ones")
    bt = rep.f(G2M, "GraphToMol.get_bond_type_from_order")
    env = {f"Chem.BondType.{k}": k for k in ("SINGLE", "DOUBLE", "TRIPLE", "AROMATIC")}
    from ..absval import module_resolver
    env["__resolve__"] = module_resolver(bt.module.tree)   # a module-level table of bond types is read through its definition
    try:
        got = {o: eval_function(bt.node, dict(env, **{bt.params[0]: o})) for o in (1, 2, 3, 1.5, 1.0, 2.0, 3.0)}
        want = {1: "SINGLE", 2: "DOUBLE", 3: "TRIPLE", 1.5: "AROMATIC", 1.0: "SINGLE", 2.0: "DOUBLE", 3.0: "TRIPLE"}
        rep.ob("O10.3", "R3c", bt, got == want, got, "bond order -> RDKit bond type inverts GetBondTypeAsDouble (1, 2, 3, 1.5)")
    except Undecided as exc:
        rep.ob("O10.3", "R3c", bt, None, "get_bond_type_from_order", str(exc))
    ab = [c for c in walk_local(g.node) if isinstance(c, ast.Call) and call_name(c) == "AddBond"]
    okb = ok = False
    if ab and len(ab[0].args) == 3:
        bl = enclosing_loops(parent_map(g.node), ab[0], g.node)
        bt_src = origin(d, ab[0].args[2])
        m_ = pmatch("self.get_bond_type_from_order($o)", bt_src)
        if bl and m_ and isinstance(bl[0].target, ast.Tuple) and len(bl[0].target.elts) == 3:
            u_, v_, ed_ = [norm(e) for e in bl[0].target.elts]
            okb = f"{ed_}.get(self.edge_attributes['order']" in norm(origin(d, ast.Name(id=m_["o"], ctx=ast.Load())))
            ma, mb = pmatch(f"$m[{u_}]", ab[0].args[0]), pmatch(f"$m[{v_}]", ab[0].args[1])
            # the map is filled by  <m>[node] = mol.AddAtom(atom)
            if ma is not None and mb is not None and ma["m"] == mb["m"] and nl:
                ldn = local_defs(nl[0])
                stores = [(t, v) for t, v, st in assigned_subscripts(nl[0]) if norm(t.value) == ma["m"]]
                ok = len(stores) == 1 and norm(stores[0][0].slice) == norm(nl[0].target.elts[0]) \
                    and pmatch("$mol.AddAtom($$a)", origin(ldn, stores[0][1])) is not None
    rep.ob("O10.3", "R3b", g, okb, "bond_order <- data.get(self.edge_attributes['order'], 1)", "the bond order is read from the 'order' key")
    rep.ob("O10.3", "R3b", g, ok, ab[0] if ab else "AddBond", "bonds join the atoms created for their own end nodes")
    bw = rep.f(M2G, "MolToGraph._gather_bond_properties")
    ov = [v for n in walk_local(bw.node) if isinstance(n, ast.Dict) for k, v in zip(n.keys, n.values) if isinstance(k, ast.Constant) and k.value == "order"]
    od = [x for v in ov if isinstance(v, ast.Name) for x in local_defs(bw.node).get(v.id, []) if x.kind == "assign"] if ov else []
    direct = [v for v in ov if pmatch("$b.GetBondTypeAsDouble()", v) is not None]
    rep.ob("O10.3", "R3b", bw, bool(direct) or any(pmatch("$b.GetBondTypeAsDouble()", x.value) is not None for x in od), "'order': bond.GetBondTypeAsDouble()", "the writer stores RDKit's bond type as a double under 'order'")
    gs = rep.f(CONV, "graph_to_smi")
    cs = [c for c in walk_local(gs.node) if isinstance(c, ast.Call) and call_name(c) == "graph_to_mol"]
    ok = bool(cs) and all(is_const(kwarg(c, "use_h_count") or ast.Constant(False), True) for c in cs)
    rep.ob("O10.3", "R3b", gs, ok, [norm(c)[:60] for c in cs], "graph_to_smi always restores the stored hydrogen counts")
    sg = rep.f(CONV, "smiles_to_graph")
    # "sanitisable" is defined by RDKit's own pipeline: Chem.SanitizeMol(mol) with its default operations in its own order
    sans = [c for c in walk_local(sg.node) if isinstance(c, ast.Call) and call_name(c) == "SanitizeMol"]
    rep.need("R3b", len(sans), 1, "Chem.SanitizeMol in smiles_to_graph")
    for c in sans:
        ops = kwarg(c, "sanitizeOps") or (c.args[1] if len(c.args) > 1 else None)
        okops = ops is None or norm(ops) in ("Chem.SANITIZE_ALL", "Chem.SanitizeFlags.SANITIZE_ALL")
        rep.ob("O10.3", "R3b", sg, okops, c, "the molecule is sanitised by RDKit's full default pipeline in one call: running a subset of the stages, or the stages in another "
               "order (e.g. the valence check before the clean-up of hypervalent nitro / N-oxide notation), rejects molecules that are sanitisable", node=c)
    dn = default_of(sg, "node_attrs")
    keep = None
    try:
        keep = set(const(dn))
    except Exception:
        # the default is not a literal list (a sentinel resolved by a helper, a module-level constant): look for the literal the body falls back to
        from ..core import module_const as _mc
        cands = []
        for c_ in walk_local(sg.node):
            if isinstance(c_, ast.Call) and any(isinstance(a_, ast.Name) and a_.id == "node_attrs" for a_ in c_.args):
                for a_ in list(c_.args) + [k_.value for k_ in c_.keywords]:
                    try:
                        v_ = _mc(sg.module, a_)
                        if isinstance(v_, (list, tuple)) and v_ and all(isinstance(x_, str) for x_ in v_):
                            cands.append(set(v_))
                    except Exception:
                        pass
        if len(cands) == 1:
            keep = cands[0]
    need_ = {"element", "charge", "hcount", "atom_map", "aromatic"}
    rep.ob("O10.3", "R3b", sg, None if keep is None else need_ <= keep, sorted(keep) if keep is not None else "default of node_attrs",
           "smiles_to_graph keeps the attributes graph_to_smi needs")


# ------------------------------------------------------------------ O10.4
def hydrogens(rep):
    ex = rep.f(HY, "h_to_explicit")
    d = local_defs(ex.node)
    pm = parent_map(ex.node)
    for fn in (ex, rep.f(HY, "h_to_implicit")):
        p = fn.params[0]
        muts = mutations(rep.repo, fn, p)
        rep.ob("O10.4", "R9", fn, not muts, muts[0][0] if muts else f"parameter `{p}`", f"{fn.qual} works on a copy: the input graph is not modified" + (f": {muts[0][1]}" if muts else ""),
               node=muts[0][0] if muts else fn.node)
    exn = expand_node_data(ex.node)  # `x = H2.nodes[n]` aliases are spelt out
    d = local_defs(exn)
    pm = parent_map(exn)
    rets = returns_of(exn)
    H2 = norm(rets[-1].value) if rets and isinstance(rets[-1].value, ast.Name) else "?"
    # the loop that creates the hydrogens: a range loop containing add_node
    lp = [l for l in walk_local(exn) if isinstance(l, ast.For) and isinstance(origin(d, l.iter), ast.Call) and call_name(origin(d, l.iter)) == "range"
          and any(isinstance(c, ast.Call) and call_name(c) == "add_node" for c in walk_local(l))]
    rng = origin(d, lp[0].iter) if len(lp) == 1 else None
    COUNT, form = None, None
    if rng is not None and not rng.keywords:
        if len(rng.args) == 1 and isinstance(rng.args[0], ast.Name):
            COUNT, form = rng.args[0].id, "counter"
        elif len(rng.args) == 2:
            # range(lo, hi): hi - lo iterations
            try:
                cands = [nm for nm in names_in(rng.args[1]) - names_in(rng.args[0])]
                diff = linform(ast.BinOp(left=rng.args[1], op=ast.Sub(), right=rng.args[0]), lambda n: norm(n) if isinstance(n, ast.Name) else None)
                if len(cands) == 1 and diff == Lin({cands[0]: 1}):
                    COUNT, form = cands[0], "range"
            except Undecided:
                pass
    rep.ob("O10.4", "R15", ex, (COUNT is not None) if lp and rng is not None and len(rng.args) <= 2 else None, lp[0].iter if lp else "range",
           "exactly `count` hydrogen atoms are added")
    if COUNT is None:
        return
    outer = enclosing_loops(pm, lp[0], exn)
    HEAVY = norm(outer[0].target) if outer else "?"
    cnt = [x for x in d.get(COUNT, []) if x.kind == "assign"]
    ok = len(cnt) == 1 and pmatch(f"{H2}.nodes[{HEAVY}].get('hcount', 0)", cnt[0].value) is not None
    rep.ob("O10.4", "R15", ex, ok, "count = H2.nodes[heavy].get('hcount', 0)", "the number of hydrogens to add is the atom's own hcount")
    adds = [c for c in walk_local(lp[0]) if isinstance(c, ast.Call) and call_name(c) in ("add_node", "add_edge")]
    kinds = sorted(call_name(c) for c in adds)
    an = [c for c in adds if call_name(c) == "add_node"]
    ae = [c for c in adds if call_name(c) == "add_edge"]
    ok = kinds == ["add_edge", "add_node"] and is_const(kwarg(an[0], "element"), "H") and is_const(kwarg(an[0], "hcount"), 0) \
        and norm(ae[0].args[0]) == HEAVY and norm(ae[0].args[1]) == norm(an[0].args[0]) and const(kwarg(ae[0], "order")) == 1 \
        and norm(an[0].func.value) == H2 and norm(ae[0].func.value) == H2
    rep.ob("O10.4", "R15", ex, ok, "add_node(new, element='H', hcount=0, ...); add_edge(heavy, new, order=1)", "each new atom is a hydrogen with no hydrogens of its own, single-bonded to the heavy atom")
    # fresh identifiers: the counter starts at the largest existing id and every new id lies above everything handed out so far
    NEW = norm(an[0].args[0]) if an else "?"
    if form == "counter":
        CTR = NEW
    else:
        lo_names = sorted(names_in(rng.args[0]))
        CTR = lo_names[0] if len(lo_names) == 1 else "?"
    mx = sorted([x for x in d.get(CTR, []) if x.kind == "assign"], key=lambda x: x.stmt.lineno)
    src = norm(mx[0].value).replace(" ", "") if mx else ""
    ok = src in (f"max({H2}.nodes)if{H2}.nodeselse0", f"max({H2}.nodes,default=0)", f"max({H2}.nodes())if{H2}.nodes()else0", f"max({H2}.nodes(),default=0)", f"max({H2})if{H2}else0")
    rep.ob("O10.4", "R15", ex, ok if mx else None, "max_node = max(H2.nodes) if H2.nodes else 0" if ok else (alpha(mx[0].stmt, ex.node) if mx else "max_node"),
           "new hydrogen ids start above the largest existing node id (they can never overwrite an atom)")
    if form == "counter":
        inc = [n for n in lp[0].body if isinstance(n, ast.AugAssign) and norm(n.target) == CTR and isinstance(n.op, ast.Add) and is_const(n.value, 1)]
        ok = len(inc) == 1 and bool(an) and inc[0].lineno < an[0].lineno
        rep.ob("O10.4", "R15", ex, ok, "max_node += 1 before add_node(max_node, ...)", "the id counter is advanced before each new hydrogen is created")
    else:
        # for new in range(ctr + 1, ctr + count + 1): ...;  ctr = <last id>   (ids ctr+1 .. ctr+count, then the counter catches up)
        ok = None
        try:
            lo = linform(rng.args[0], lambda n: norm(n) if isinstance(n, ast.Name) else None)
            starts_above = lo == Lin({CTR: 1, 1: 1}) and NEW == norm(lp[0].target)
            after = [st for st in (outer[0].body if outer else []) if st.lineno > lp[0].lineno]
            upd = [st for st in after if (isinstance(st, ast.Assign) and norm(st.targets[0]) == CTR) or (isinstance(st, ast.AugAssign) and norm(st.target) == CTR)]
            caught_up = False
            if len(upd) == 1 and len(mx) <= 2:
                st = upd[0]
                if isinstance(st, ast.AugAssign):
                    caught_up = isinstance(st.op, ast.Add) and norm(st.value) == COUNT
                else:
                    v = origin(d, st.value)
                    if isinstance(st.value, ast.Subscript) and is_const(st.value.slice, -1) and origin(d, st.value.value) is rng:
                        caught_up = True  # range(lo, hi)[-1] == hi - 1 (the range is non-empty: count > 0 is checked before)
                    else:
                        caught_up = linform(v, lambda n: norm(n) if isinstance(n, ast.Name) else None) == Lin({CTR: 1, COUNT: 1})
            ok = starts_above and caught_up
        except Undecided:
            ok = None
        rep.ob("O10.4", "R15", ex, ok, "for new in range(max_node + 1, max_node + count + 1): ...; max_node = <last id>",
               "new ids start one above the counter and the counter is moved to the last id afterwards")
    sub = [n for n in walk_local(exn) if isinstance(n, ast.AugAssign) and pmatch(f"{H2}.nodes[{HEAVY}]['hcount']", n.target) is not None]
    ok = len(sub) == 1 and isinstance(sub[0].op, ast.Sub) and norm(sub[0].value) == COUNT and not [l for l in enclosing_loops(pm, sub[0], exn) if l in lp]
    rep.ob("O10.4", "R15", ex, ok, "H2.nodes[heavy]['hcount'] -= count" if ok else (alpha(sub[0], ex.node) if sub else "hcount -= count"),
           "the implicit count is reduced by exactly the number of hydrogens made explicit (total hydrogen count unchanged)")
    im = rep.f(HY, "h_to_implicit")
    imn = expand_node_data(im.node)
    pm = parent_map(imn)
    idefs = local_defs(imn)
    rets = returns_of(imn)
    H2 = norm(rets[-1].value) if rets and isinstance(rets[-1].value, ast.Name) else "?"
    rm = [c for c in walk_local(imn) if isinstance(c, ast.Call) and call_name(c) == "remove_node"]
    lps = enclosing_loops(pm, rm[0], imn) if rm else []
    hn = origin(idefs, lps[0].iter) if lps else None
    ok = hn is not None and pmatch(f"[$n for $n, $d in {H2}.nodes(data=True) if {H2}.nodes[$n].get('element') == 'H']", hn) is not None
    rep.ob("O10.4", "R15", im, ok, "h_nodes = [n for n, d in H2.nodes(data=True) if d.get('element') == 'H']", "all hydrogen atoms are collected")
    ok = len(rm) == 1 and len(lps) == 1 and norm(rm[0].args[0]) == norm(lps[0].target) and norm(rm[0].func.value) == H2 and not guards_of(pm, rm[0], lps[0])
    rep.ob("O10.4", "R15", im, ok, "H2.remove_node(h)", "every collected hydrogen atom is removed")
    incs = [(t, v, st) for t, v, st in assigned_subscripts(imn) if is_const(t.slice, "hcount")]
    ok = False
    if len(incs) == 1 and lps:
        t, v, st = incs[0]
        hl = enclosing_loops(pm, st, imn)
        HEAVY = norm(hl[0].target) if hl else "?"
        try:
            lf = linform(v, lambda n: "old" if norm(n).replace(" ", "") == f"{H2}.nodes[{HEAVY}].get('hcount',0)" else None)
            gs = [norm(g).replace(" ", "") for g, s_ in guards_of(pm, st, imn) if s_]
            nb = origin(idefs, hl[0].iter) if hl else None
            ok = lf == Lin({"old": 1, 1: 1}) and gs == [f"{H2}.nodes[{HEAVY}].get('element')!='H'"] and pmatch(f"{H2}.nodes[{HEAVY}]['hcount']", t) is not None \
                and len(hl) == 2 and hl[1] is lps[0] and nb is not None and norm(nb) in (f"list({H2}.neighbors({norm(lps[0].target)}))", f"{H2}.neighbors({norm(lps[0].target)})")
        except Undecided:
            ok = None
    rep.ob("O10.4", "R15", im, ok, "hcount = hcount + 1 for every heavy neighbour of a removed hydrogen" if ok else (alpha(incs[0][2], im.node) if incs else "hcount + 1"),
           "each removed hydrogen adds one to every heavy neighbour (and only to heavy neighbours)")


def implicit_h(rep, oid="O10.4"):
    """implicit_hydrogen: hcount = explicit + implicit, minus ONE per preserved hydrogen, non-preserved hydrogens removed"""
    fi = rep.f(HY, "implicit_hydrogen")
    fn = expand_node_data(fi.node)  # the attribute dict of a node is always spelt G.nodes[n]
    pm = parent_map(fn)
    defs = local_defs(fn)
    # hydrogens are not guaranteed to have exactly one neighbour (free proton / hydride on one side of a reaction, bridging H)
    from ..rules.degree import fixed_degree_assumptions
    for node_, why_ in fixed_degree_assumptions(fn):
        rep.ob(oid, "R15", fi, False, alpha(node_, fi.node), "hydrogen bookkeeping must work for a hydrogen with no (or several) bonds: " + why_ +
               "; an unbonded hydrogen of a reaction centre (protonation by a free proton, hydride transfer) makes the conversion fail", node=node_)
    decs = [n for n in walk_local(fn) if isinstance(n, ast.AugAssign) and isinstance(n.op, ast.Sub) and pmatch("$g.nodes[$x]['hcount']", n.target) is not None]
    if not decs:
        rep.ob(oid, "R15", fi, False, "no `hcount -= 1` for preserved hydrogens", "an explicit hydrogen that stays explicit must not also be counted in its heavy atom's hcount", node=fi.node)
    for d in decs:
        b = pmatch("$g.nodes[$x]['hcount']", d.target)
        lps = enclosing_loops(pm, d, fn)
        ok = None
        why = ""
        if is_const(d.value, 1) and lps:
            inner = lps[0]
            m1 = pmatch("$g.neighbors($h)", inner.iter, {"g": b["g"]})
            if m1 and norm(inner.target) == b["x"] and len(lps) >= 2 and norm(lps[1].target) == m1["h"]:
                src = origin(defs, lps[1].iter)
                ok = True
                why = f"one decrement per (preserved hydrogen, neighbour) pair: for {m1['h']} in {norm(lps[1].iter)}: for {b['x']} in neighbors({m1['h']})"
            else:
                src = origin(defs, inner.iter)
                if isinstance(src, (ast.SetComp, ast.Set)) or (isinstance(src, ast.Call) and isinstance(src.func, ast.Name) and src.func.id in ("set", "frozenset")):
                    ok = False
                    why = f"`{b['x']}` runs over a SET of heavy atoms: an atom carrying two preserved hydrogens is decremented only once"
                else:
                    ok = None
                    why = "decrement loop shape not recognised"
        rep.ob(oid, "R15", fi, ok, d, "hcount is reduced by exactly one for every preserved explicit hydrogen bonded to the atom (" + why + ")", node=d)
        gs = [norm(t).replace(" ", "") for t, s_ in guards_of(pm, d, fn) if s_]
        rep.ob(oid, "R15", fi, any("['element']!='H'" in g_ for g_ in gs) if ok else None, f"guards {gs}", "only heavy neighbours are adjusted", node=d)
    first = pfind("$g.nodes[$n]['hcount'] = $$a + $$b", fn)
    okf = False
    if first:
        st, b = first[0]
        ea = origin(defs, st.value.left)
        eb = origin(defs, st.value.right)
        texts = {norm(ea).replace(" ", ""), norm(eb).replace(" ", "")}
        okf = any(t.startswith("sum((1for") and "['element']=='H'" in t and f".neighbors({b['n']})" in t for t in texts) \
            and any(t == f"{b['g']}.nodes[{b['n']}]['hcount']" for t in texts)
    rep.ob(oid, "R15", fi, okf if first else None, first[0][0] if first else "hcount = explicit + implicit", "every heavy atom's hcount first becomes (explicit hydrogen neighbours) + (implicit count)")
    rm = pfind("$g.remove_nodes_from($l)", fn)
    okr = False
    if rm:
        src = origin(defs, ast.Name(id=rm[0][1]["l"], ctx=ast.Load()))
        t = norm(src).replace(" ", "")
        okr = isinstance(src, ast.ListComp) and "['element']=='H'" in t and "notin" in t
    rep.ob(oid, "R15", fi, okr if rm else False, rm[0][0] if rm else "remove_nodes_from", "exactly the hydrogens that are not preserved are removed")


def gml_reader(rep):
    sy = rep.f(G2N, "GMLToNX._synchronize_nodes_and_edges")
    pm = parent_map(sy.node)
    adds = [c for c in walk_local(sy.node) if isinstance(c, ast.Call) and call_name(c) in ("add_node", "add_edge")]
    sdefs = local_defs(sy.node)

    def receivers(c):
        """the graphs a call may be made on: `self.graphs['left']`, or `side = self.graphs[name]` with name running over a literal tuple of side names"""
        rv = origin(sdefs, c.func.value)
        for lp_ in enclosing_loops(pm, c, sy.node):  # a name bound once per loop: resolve it inside the innermost loop that binds it
            if isinstance(rv, ast.Name):
                rv = origin(local_defs(lp_), rv)
        m_ = pmatch("self.graphs[$n]", rv)
        if m_ is not None:
            for it_ in iterations(pm, c, sy.node):
                if isinstance(it_.target, ast.Name) and it_.target.id == m_["n"]:
                    lit = origin(sdefs, it_.iter)
                    if isinstance(lit, (ast.Tuple, ast.List)) and all(isinstance(e, ast.Constant) and isinstance(e.value, str) for e in lit.elts):
                        return [f"self.graphs['{e.value}']" for e in lit.elts]
        return [norm(rv)]
    sides = sorted(r_ + "." + call_name(c) for c in adds for r_ in receivers(c))
    want = sorted([f"self.graphs['{s}'].{m}" for s in ("left", "right") for m in ("add_node", "add_edge")])
    rep.ob("O10.1", "R3b", sy, sides == want, sides, "context atoms and bonds are restored on both the left and the right side")
    tr = rep.f(G2N, "GMLToNX.transform")
    its = [c for c in walk_local(tr.node) if isinstance(c, ast.Call) and call_name(c) == "ITSGraph"]
    ok = bool(its) and all([norm(a) for a in c.args] == ["self.graphs['left']", "self.graphs['right']"] for c in its)
    rep.ob("O10.1", "R3b", tr, ok, [norm(c)[:60] for c in its], "the ITS is rebuilt from (left, right) in this order: (before, after) bond orders keep their sides")
    rets = returns_of(tr.node)
    ok = bool(rets) and norm(rets[-1].value) == "(self.graphs['left'], self.graphs['right'], self.graphs['context'])"
    rep.ob("O10.1", "R3b", tr, ok, rets[-1] if rets else "return", "transform returns (left, right, ITS)")
    sec = [n for n in walk_local(tr.node) if isinstance(n, ast.Assign) and norm(n.targets[0]) == "current_section"]
    names = [n for n in walk_local(tr.node) if isinstance(n, (ast.List, ast.Tuple, ast.Set)) and all(isinstance(e, ast.Constant) and isinstance(e.value, str) for e in n.elts) and len(n.elts) == 3]
    ok = bool(names) and sorted(e.value for e in names[0].elts) == ["context", "left", "right"]
    rep.ob("O10.1", "R3b", tr, ok, names[0] if names else "sections", "the reader recognises the three section names the writer emits")


MUTANTS = [
    dict(name="revert F-C10 (context from the full ITS)", revert_patch="notes/fixes/C10.patch", expect="O10.2"),
    dict(name="double and triple labels swapped in the writer", file=N2G, expect="O10.1",
         old='order_to_label = {1: "-", 1.5: ":", 2: "=", 3: "#"}', new='order_to_label = {1: "-", 1.5: ":", 2: "#", 3: "="}'),
    dict(name="charge printed sign-first", file=N2G, expect="O10.1", old='            return "+" if charge == 1 else f"{charge}+"', new='            return "+" if charge == 1 else f"+{charge}"'),
    dict(name="negative charges lose their magnitude", file=N2G, expect="O10.1", old='            return "-" if charge == -1 else f"{-charge}-"', new='            return "-"'),
    dict(name="reader ignores the magnitude", file=G2N, expect="O10.1", old="            charge_val = int(num) if num else 1", new="            charge_val = 1"),
    dict(name="GraphToMol reads another charge key", file=G2M, expect="O10.3", old='            "charge": "charge",\n            "atom_map": "atom_map",\n        },', new='            "charge": "formal_charge",\n            "atom_map": "atom_map",\n        },'),
    dict(name="triple bonds written as double", file=G2M, expect="O10.3", old="        elif order == 3:\n            return Chem.BondType.TRIPLE", new="        elif order == 3:\n            return Chem.BondType.DOUBLE"),
    dict(name="hcount reduced once per added hydrogen AND by count", file=HY, expect="O10.4",
         old="            H2.add_edge(heavy, max_node, order=1.0)\n", new="            H2.add_edge(heavy, max_node, order=1.0)\n            H2.nodes[heavy][\"hcount\"] -= 1\n"),
    dict(name="one hydrogen too few", file=HY, expect="O10.4", old="        for _ in range(count):\n            max_node += 1", new="        for _ in range(count - 1):\n            max_node += 1"),
    dict(name="h_to_implicit counts hydrogens on hydrogens", file=HY, expect="O10.4",
         old='            if H2.nodes[heavy].get("element") != "H":\n                H2.nodes[heavy]["hcount"] = H2.nodes[heavy].get("hcount", 0) + 1',
         new='            if True:\n                H2.nodes[heavy]["hcount"] = H2.nodes[heavy].get("hcount", 0) + 1'),
    dict(name="h_to_implicit edits its argument", file=HY, expect="O10.4", old="    H2 = G.copy()\n    h_nodes = [", new="    H2 = G\n    h_nodes = ["),
    dict(name="smart_to_gml decomposes the full ITS but writes the centre", file=CONV, expect="O10.2",
         old="    if core:\n        its = get_rc(its)\n        r, p = its_decompose(its)\n    gml = NXToGML().transform(", new="    if core:\n        r, p = its_decompose(its)\n        its = get_rc(its)\n    gml = NXToGML().transform("),
    dict(name="GML reader rebuilds the ITS with sides swapped", file=G2N, expect="O10.1",
         old='        self.graphs["context"] = ITSConstruction().ITSGraph(\n            self.graphs["left"], self.graphs["right"]\n        )',
         new='        self.graphs["context"] = ITSConstruction().ITSGraph(\n            self.graphs["right"], self.graphs["left"]\n        )'),
    dict(name="writer passes (R, L, K) to the grammar", file=N2G, expect="O10.2",
         old="        rule_grammar = NXToGML._rule_grammar(\n            L, R, K, rule_name, changed_node_ids, explicit_hydrogen", new="        rule_grammar = NXToGML._rule_grammar(\n            R, L, K, rule_name, changed_node_ids, explicit_hydrogen"),
    dict(name="graph_to_smi forgets hydrogen counts", file=CONV, expect="O10.3",
         old="            mol = GraphToMol().graph_to_mol(graph, sanitize=sanitize, use_h_count=True)", new="            mol = GraphToMol().graph_to_mol(graph, sanitize=sanitize)"),
]

TWINS = [
    dict(name="writer table spelled with floats", file=N2G, old='order_to_label = {1: "-", 1.5: ":", 2: "=", 3: "#"}', new='order_to_label = {1.0: "-", 1.5: ":", 2.0: "=", 3.0: "#"}'),
    dict(name="its_to_gml with a conditional expression (pre-fix shape but one graph)", file=CONV,
         old="    if core:\n        its = get_rc(its)\n    r, p = its_decompose(its)\n", new="    its = get_rc(its) if core else its\n    r, p = its_decompose(its)\n"),
]
