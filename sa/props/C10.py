"""C10 - changing representation (SMILES, graph, explicit/implicit H, GML) loses nothing."""
from __future__ import annotations

import ast
import re

from ..absval import Lin, Undecided, eval_expr, eval_function, linform
from ..core import (AnalysisError, call_name, const, dotted, is_const, kwarg, local_defs, norm, origin,
                    parent_map, walk_local)
from ..facts import default_of, guards_of, returns_of, enclosing_loops, assigned_subscripts
from ..rules.nonmut import mutations
from ..shape import walk_paths
from ..pattern import pmatch, pfind

CONV = "synkit/IO/chem_converter.py"
N2G = "synkit/IO/nx_to_gml.py"
G2N = "synkit/IO/gml_to_nx.py"
M2G = "synkit/IO/mol_to_graph.py"
G2M = "synkit/IO/graph_to_mol.py"
AF = "synkit/Chem/Molecule/atom_features.py"
HY = "synkit/Graph/Hyrogen/_misc.py"

META = {
    "explanation": (
        "R3(c) table inverses: the GML writer's order->label table and the reader's label->order table are mutually "
        "inverse; the bond-order table of GraphToMol is evaluated on {1, 2, 3, 1.5}. R3(d): the charge printer is "
        "evaluated on charges -3..3 and its outputs are parsed back through the reader's extracted regex and charge "
        "arithmetic (abstract evaluation of both function bodies on sample points). R3(b): attribute keys written by "
        "MolToGraph are the keys read by GraphToMol (element, charge, atom_map, hcount, order). Sibling producers: on "
        "every path of its_to_gml / smart_to_gml the rule triple handed to NXToGML.transform is (its_decompose(K), K) or "
        "(r, p, ITSGraph(r, p)) of ONE graph K (symbolic path execution over core in {True, False}). R15/R9 hydrogen "
        "bookkeeping: h_to_explicit adds `count` hydrogens and subtracts the same `count`; h_to_implicit adds one per "
        "removed hydrogen bonded to a heavy atom; both work on G.copy()."
    ),
    "rules": {"R3c": "mutually inverse literal tables", "R3d": "printer evaluated against the parser's regex/arithmetic on sample points",
              "R3b": "attribute key agreement writer/reader", "SIB": "sibling producers build the rule from one graph on every path",
              "R15": "hydrogen count arithmetic", "R9": "parameter non-mutation"},
    "not_decided": "SMILES -> graph -> SMILES equality and molecule identity under explicit/implicit hydrogens (RDKit)",
    "trusted_base": ["CPython ast", "re", "sa/* analyser", "RDKit BondTypeAsDouble: SINGLE 1.0, DOUBLE 2.0, TRIPLE 3.0, AROMATIC 1.5"],
    "assumptions": ["element symbols are alphabetic (or '*')"],
}


def run(rep):
    rep.run(tables)
    rep.run(charges)
    rep.run(producers)
    rep.run(mol_graph)
    rep.run(hydrogens)
    rep.run(implicit_h)
    rep.run(gml_reader)


def _dict_literal(fi, name):
    for n in walk_local(fi.node):
        if isinstance(n, ast.Assign) and norm(n.targets[0]) == name and isinstance(n.value, ast.Dict):
            try:
                return {const(k): const(v) for k, v in zip(n.value.keys, n.value.values)}, n
            except ValueError:
                return None, n
    return None, None


def tables(rep):
    w = rep.f(N2G, "NXToGML._convert_graph_to_gml")
    r = rep.f(G2N, "GMLToNX._parse_element")
    o2l, n1 = _dict_literal(w, "order_to_label")
    l2o, n2 = _dict_literal(r, "label_to_order")
    if o2l is None or l2o is None:
        raise AnalysisError("GML bond tables not found as literal dicts")
    inv = {v: k for k, v in o2l.items()}
    rep.ob("O10.1", "R3c", w, inv == l2o and len(inv) == len(o2l), f"writer {o2l} / reader {l2o}", "bond order -> label and label -> bond order are mutually inverse", node=n1)
    rep.ob("O10.1", "R3c", w, set(o2l) >= {1, 1.5, 2, 3}, sorted(o2l), "single, aromatic, double and triple bonds all have a label")
    # the section writer looks the order up with this table and prints it as the label
    uses = [c for c in walk_local(w.node) if isinstance(c, ast.Call) and norm(c.func) == "order_to_label.get"]
    pm = parent_map(w.node)
    lr = [c for c in uses if any(norm(t).replace(" ", "") == "section!='context'" and s for t, s in guards_of(pm, c, w.node))]
    ok = bool(lr) and norm(lr[0].args[0]).replace(" ", "") == "edge[2].get('order',1)"
    rep.ob("O10.1", "R3c", w, ok, lr[0] if lr else "order_to_label.get", "left/right bonds are labelled by their own order")
    use_r = [c for c in walk_local(r.node) if isinstance(c, ast.Call) and norm(c.func) == "label_to_order.get"]
    add = [c for c in walk_local(r.node) if isinstance(c, ast.Call) and call_name(c) == "add_edge"]
    ok = bool(use_r) and norm(use_r[0].args[0]) == "label" and bool(add) and norm(kwarg(add[0], "order") or ast.Constant(None)) == "order" \
        and [norm(a) for a in add[0].args] == ["source", "target"]
    rep.ob("O10.1", "R3c", r, ok, add[0] if add else "add_edge", "the parsed label becomes the bond's order between the parsed end points")


def charges(rep):
    pr = rep.f(N2G, "NXToGML._charge_to_string")
    rd = rep.f(G2N, "GMLToNX._extract_element_and_charge")
    mcall = [c for c in walk_local(rd.node) if isinstance(c, ast.Call) and dotted(c.func) in ("re.match", "re.fullmatch")]
    rep.need("R3d", len(mcall), 1, "regex in _extract_element_and_charge")
    pattern = mcall[0].args[0].value
    rep.extra["charge_regex"] = pattern
    bad, n = [], 0
    try:
        rx = re.compile(pattern)
        for element in ("C", "N", "Cl", "Na", "*", "Fe"):
            for q in range(-3, 4):
                s = eval_function(pr.node, {pr.params[0]: q})
                label = f"{element}{s}"
                m = rx.match(label)
                env = {norm(mcall[0]): (m if m else None), rd.params[1]: label}
                if m:
                    for g in (1, 2, 3):
                        env[f"match.group({g})"] = m.group(g)
                got = eval_function(rd.node, env)
                n += 1
                if tuple(got) != (element, q):
                    bad.append(f"{label!r} -> {got}")
        ok = not bad
    except Undecided as exc:
        ok, bad = None, [str(exc)]
    rep.ob("O10.1", "R3d", rd, ok, f"_charge_to_string o regex {pattern!r} o charge arithmetic",
           "every (element, charge) printed by the GML writer is parsed back to the same (element, charge)", {"cases": n, "disagreements": bad[:6]}, node=mcall[0])
    # label = element + charge string on the writer side, parsed through _extract_element_and_charge on the reader side
    w = rep.f(N2G, "NXToGML._convert_graph_to_gml")
    labs = [j for j in walk_local(w.node) if isinstance(j, ast.JoinedStr) and "label" in "".join(str(v.value) for v in j.values if isinstance(v, ast.Constant))
            and any(isinstance(v, ast.FormattedValue) and norm(v.value) == "charge_str" for v in j.values)]
    ok = bool(labs)
    for j in labs:
        fv = [norm(v.value) for v in j.values if isinstance(v, ast.FormattedValue)]
        ok = ok and fv == ["node[0]", "element", "charge_str"]
    rep.ob("O10.1", "R3d", w, ok, labs[0] if labs else "node label", "node lines print id, then element immediately followed by the charge string")
    wd = local_defs(w.node, into_nested=False)
    cs = [d for d in wd.get("charge_str", []) if d.kind == "assign"]
    ok = bool(cs) and all(norm(d.value) == "NXToGML._charge_to_string(charge)" for d in cs) and \
        all(norm(d.value).replace(" ", "") == "node[1].get('charge',0)" for d in wd.get("charge", []) if d.kind == "assign")
    rep.ob("O10.1", "R3d", w, ok, [norm(d.value) for d in cs], "the charge string is computed from the node's own charge")
    p = rep.f(G2N, "GMLToNX._parse_element")
    d = local_defs(p.node)
    up = [x for x in d.get("element", []) if x.index is not None]
    ok = bool(up) and up[0].index == (0,) and norm(up[0].value) == "self._extract_element_and_charge(label)"
    na = [n_ for n_ in walk_local(p.node) if isinstance(n_, ast.Dict) and any(isinstance(k, ast.Constant) and k.value == "charge" for k in n_.keys)]
    ok2 = False
    if na:
        kv = {k.value: norm(v) for k, v in zip(na[0].keys, na[0].values)}
        ok2 = kv.get("element") == "element" and kv.get("charge") == "charge" and kv.get("atom_map") == "node_id"
    rep.ob("O10.1", "R3d", p, ok and ok2, na[0] if na else "node_attributes", "parsed element and charge are stored under 'element' and 'charge' of the parsed node id")


# ------------------------------------------------------------------ O10.2
def _wrap(val: str) -> str:
    return val if val.isidentifier() else f"<{val}>"


def _sym(expr, env, known=None):
    """normalised text of expr with local names replaced by their symbolic values;
    conditional expressions decided by the path's flag values are resolved"""
    from ..shape import tri
    known = known or {}

    class T(ast.NodeTransformer):
        def visit_IfExp(self, n):
            v = tri(n.test, known)
            if v is True:
                return self.visit(n.body)
            if v is False:
                return self.visit(n.orelse)
            return self.generic_visit(n)

        def visit_Name(self, n):
            if n.id in env:
                return ast.Name(id=_wrap(env[n.id]), ctx=n.ctx)
            return n
    import copy
    e2 = T().visit(copy.deepcopy(expr))
    return norm(e2)


def producers(rep):
    for q in ("its_to_gml", "smart_to_gml"):
        fi = rep.f(CONV, q)
        n_paths = 0
        for core in (True, False):
            known = {"core": core, "useSmiles is False": False}
            try:
                paths = walk_paths(fi.node.body, known)
            except Undecided as exc:
                rep.ob("O10.2", "SIB", fi, None, q, str(exc))
                continue
            for p in paths:
                env = {a: a for a in fi.params}
                hit = None
                for st in p.stmts:
                    if isinstance(st, ast.Assign) and len(st.targets) == 1:
                        t = st.targets[0]
                        val = _sym(st.value, env, known)
                        if isinstance(t, ast.Name):
                            env[t.id] = val
                        elif isinstance(t, ast.Tuple):
                            for i, e in enumerate(t.elts):
                                if isinstance(e, ast.Name):
                                    env[e.id] = f"{val}[{i}]"
                        for c in ast.walk(st.value):
                            if isinstance(c, ast.Call) and call_name(c) == "transform" and c.args and isinstance(c.args[0], ast.Tuple):
                                hit = [env.get(e.id, e.id) if isinstance(e, ast.Name) else _sym(e, env, known) for e in c.args[0].elts]
                if hit is None:
                    continue
                n_paths += 1
                L, R, K = hit
                k = K
                ok = (L == f"its_decompose({_wrap(k)})[0]" and R == f"its_decompose({_wrap(k)})[1]")
                if not ok:
                    # (r, p, ITSGraph(r, p)) form
                    ok = k.replace(" ", "") == f"ITSConstruction().ITSGraph({_wrap(L)},{_wrap(R)})".replace(" ", "")
                rep.ob("O10.2", "SIB", fi, ok, f"core={core}: transform((L, R, K)) with K = {k[:60]}",
                       "left/right fragments and the context written to GML come from ONE graph (its_decompose(K) with the same K, or K built from exactly (L, R))",
                       {"L": L[:80], "R": R[:80], "K": k[:80]})
                if core:
                    rep.ob("O10.2", "SIB", fi, "get_rc(" in k, f"core=True: K = {k[:60]}", "with core=True the rule is written from the reaction centre")
        rep.need("SIB", n_paths, 2, f"paths through {q} that reach NXToGML.transform")
    # both producers forward the same options
    for q in ("its_to_gml", "smart_to_gml"):
        fi = rep.f(CONV, q)
        c = [x for x in walk_local(fi.node) if isinstance(x, ast.Call) and call_name(x) == "transform"]
        kws = {k.arg: norm(k.value) for k in c[0].keywords} if c else {}
        ok = kws == {"reindex": "reindex", "rule_name": "rule_name", "explicit_hydrogen": "explicit_hydrogen"}
        rep.ob("O10.2", "SIB", fi, ok, kws, "options are forwarded unchanged to the GML writer")
    g2i = rep.f(CONV, "gml_to_its")
    d = local_defs(g2i.node)
    up = [x for x in d.get("its", []) if x.index is not None]
    ok = bool(up) and up[0].index == (2,) and "GMLToNX(gml).transform()" in norm(up[0].value)
    rep.ob("O10.2", "SIB", g2i, ok, "_, _, its = GMLToNX(gml).transform()", "gml_to_its returns the ITS member of the parsed triple")
    tr = rep.f(N2G, "NXToGML.transform")
    d = local_defs(tr.node)
    up = [x for x in d.get("L", []) if x.index is not None]
    ok = bool(up) and up[0].index == (0,) and [x.index for nm in ("R", "K") for x in d.get(nm, []) if x.index is not None][:2] == [(1,), (2,)]
    rep.ob("O10.2", "SIB", tr, ok, "L, R, K = graph_rules", "the writer unpacks (left, right, context) in the order the producers pass")
    rg = [c for c in walk_local(tr.node) if isinstance(c, ast.Call) and call_name(c) == "_rule_grammar"]
    ok = bool(rg) and [norm(a) for a in rg[0].args[:3]] == ["L", "R", "K"]
    rep.ob("O10.2", "SIB", tr, ok, rg[0] if rg else "_rule_grammar", "and hands them on in that order")
    # the ids of charge-changing atoms are computed on the SAME numbering that is written out
    for reindex in (True, False):
        known = {"reindex": reindex, "explicit_hydrogen": False}
        try:
            paths = walk_paths(tr.node.body, known)
        except Undecided as exc:
            rep.ob("O10.2", "SIB", tr, None, "transform", str(exc))
            continue
        for pth in paths:
            env = {a: a for a in tr.params}
            verdict = None
            for st in pth.stmts:
                if isinstance(st, ast.Assign) and len(st.targets) == 1:
                    t = st.targets[0]
                    val = _sym(st.value, env, known)
                    if isinstance(t, ast.Name):
                        env[t.id] = val
                    elif isinstance(t, ast.Tuple):
                        for i, e in enumerate(t.elts):
                            if isinstance(e, ast.Name):
                                env[e.id] = f"{val}[{i}]"
                    for c in ast.walk(st.value):
                        if isinstance(c, ast.Call) and call_name(c) == "_rule_grammar" and len(c.args) >= 5:
                            Ls, Rs = env.get("L", "L"), env.get("R", "R")
                            ids = env.get(norm(c.args[4]), norm(c.args[4]))
                            want = f"NXToGML._find_changed_nodes({_wrap(Ls)}, {_wrap(Rs)}, attributes)"
                            verdict = (ids.replace(" ", "") == want.replace(" ", ""), ids, want)
            if verdict is not None:
                rep.ob("O10.2", "SIB", tr, verdict[0], f"reindex={reindex}: changed ids = {verdict[1][:90]}",
                       "the list of charge-changing atoms refers to the numbering of the graphs that are written (computed after any re-indexing)",
                       {"expected": verdict[2][:120]})
    gr = rep.f(N2G, "NXToGML._rule_grammar")
    secs = [(norm(c.args[0]), const(c.args[1])) for c in walk_local(gr.node) if isinstance(c, ast.Call) and call_name(c) == "_convert_graph_to_gml"]
    rep.ob("O10.2", "SIB", gr, sorted(secs) == sorted([("L", "left"), ("K", "context"), ("R", "right")]), secs, "L is written as 'left', K as 'context', R as 'right'")


# ------------------------------------------------------------------ O10.3
def mol_graph(rep):
    w_keys = set()
    for rel, q in ((M2G, "MolToGraph._gather_atom_properties"), (AF, None)):
        if q:
            fi = rep.f(rel, q)
            for n in walk_local(fi.node):
                if isinstance(n, ast.Dict):
                    w_keys |= {k.value for k in n.keys if isinstance(k, ast.Constant)}
    bond_keys = set()
    fb = rep.f(M2G, "MolToGraph._gather_bond_properties")
    for n in walk_local(fb.node):
        if isinstance(n, ast.Dict):
            bond_keys |= {k.value for k in n.keys if isinstance(k, ast.Constant)}
    af = rep.repo.module(AF)
    af_keys = set()
    for n in ast.walk(af.tree):
        if isinstance(n, ast.Dict):
            af_keys |= {k.value for k in n.keys if isinstance(k, ast.Constant) and isinstance(k.value, str)}
    init = rep.f(G2M, "GraphToMol.__init__")
    na = default_of(init, "node_attributes")
    ea = default_of(init, "edge_attributes")
    try:
        r_node = set(const(v) for v in na.values)
        r_edge = set(const(v) for v in ea.values)
    except Exception:
        raise AnalysisError("GraphToMol attribute defaults are not literal")
    need = r_node | {"hcount"}
    rep.ob("O10.3", "R3b", init, need <= w_keys and need <= af_keys, f"reader {sorted(need)}", "every node key GraphToMol reads is written by MolToGraph (both extractors)",
           {"legacy_writer": sorted(w_keys), "extractor_writer_has": sorted(need & af_keys)})
    rep.ob("O10.3", "R3b", init, r_edge <= bond_keys, f"reader {sorted(r_edge)}", "every bond key GraphToMol reads is written by MolToGraph", {"writer": sorted(bond_keys)})
    g = rep.f(G2M, "GraphToMol.graph_to_mol")
    d = local_defs(g.node)
    src = {nm: norm(origin(d, ast.Name(id=nm, ctx=ast.Load()))) for nm in ("element", "charge", "atom_map", "hcount")}
    ok = "self.node_attributes['element']" in src["element"] and "self.node_attributes['charge']" in src["charge"] \
        and "self.node_attributes['atom_map']" in src["atom_map"] and "data.get('hcount', 0)" in src["hcount"]
    rep.ob("O10.3", "R3b", g, ok, src, "element, charge, atom map and hydrogen count are each read from their own key")
    sets = {call_name(c): norm(c.args[0]) for c in walk_local(g.node) if isinstance(c, ast.Call) and call_name(c) in ("SetFormalCharge", "SetAtomMapNum", "SetNumExplicitHs", "Atom")}
    ok = sets.get("Atom") == "element" and sets.get("SetFormalCharge") == "charge" and sets.get("SetAtomMapNum") == "atom_map" and sets.get("SetNumExplicitHs") == "int(hcount)"
    rep.ob("O10.3", "R3b", g, ok, sets, "each value is applied to the matching RDKit atom property")
    ni = [c for c in walk_local(g.node) if isinstance(c, ast.Call) and call_name(c) == "SetNoImplicit"]
    rep.ob("O10.3", "R3b", g, bool(ni) and is_const(ni[0].args[0], True), ni[0] if ni else "SetNoImplicit", "with explicit hydrogen counts RDKit must not add implicit ones")
    bt = rep.f(G2M, "GraphToMol.get_bond_type_from_order")
    env = {f"Chem.BondType.{k}": k for k in ("SINGLE", "DOUBLE", "TRIPLE", "AROMATIC")}
    try:
        got = {o: eval_function(bt.node, dict(env, **{bt.params[0]: o})) for o in (1, 2, 3, 1.5, 1.0, 2.0, 3.0)}
        want = {1: "SINGLE", 2: "DOUBLE", 3: "TRIPLE", 1.5: "AROMATIC", 1.0: "SINGLE", 2.0: "DOUBLE", 3.0: "TRIPLE"}
        rep.ob("O10.3", "R3c", bt, got == want, got, "bond order -> RDKit bond type inverts GetBondTypeAsDouble (1, 2, 3, 1.5)")
    except Undecided as exc:
        rep.ob("O10.3", "R3c", bt, None, "get_bond_type_from_order", str(exc))
    bo = origin(d, ast.Name(id="bond_order", ctx=ast.Load()))
    rep.ob("O10.3", "R3b", g, "self.edge_attributes['order']" in norm(bo), bo, "the bond order is read from the 'order' key")
    ab = [c for c in walk_local(g.node) if isinstance(c, ast.Call) and call_name(c) == "AddBond"]
    ok = bool(ab) and [norm(a) for a in ab[0].args] == ["node_to_idx[u]", "node_to_idx[v]", "bond_type"]
    rep.ob("O10.3", "R3b", g, ok, ab[0] if ab else "AddBond", "bonds join the atoms created for their own end nodes")
    bw = rep.f(M2G, "MolToGraph._gather_bond_properties")
    o = origin(local_defs(bw.node), ast.Name(id="order", ctx=ast.Load()))
    od = [x for x in local_defs(bw.node).get("order", []) if x.kind == "assign"]
    rep.ob("O10.3", "R3b", bw, any(norm(x.value) == "bond.GetBondTypeAsDouble()" for x in od), [norm(x.value) for x in od], "the writer stores RDKit's bond type as a double under 'order'")
    gs = rep.f(CONV, "graph_to_smi")
    cs = [c for c in walk_local(gs.node) if isinstance(c, ast.Call) and call_name(c) == "graph_to_mol"]
    ok = bool(cs) and all(is_const(kwarg(c, "use_h_count") or ast.Constant(False), True) for c in cs)
    rep.ob("O10.3", "R3b", gs, ok, [norm(c)[:60] for c in cs], "graph_to_smi always restores the stored hydrogen counts")
    sg = rep.f(CONV, "smiles_to_graph")
    dn = default_of(sg, "node_attrs")
    try:
        keep = set(const(dn))
    except Exception:
        keep = set()
    rep.ob("O10.3", "R3b", sg, {"element", "charge", "hcount", "atom_map", "aromatic"} <= keep, sorted(keep), "smiles_to_graph keeps the attributes graph_to_smi needs")


# ------------------------------------------------------------------ O10.4
def hydrogens(rep):
    ex = rep.f(HY, "h_to_explicit")
    d = local_defs(ex.node)
    pm = parent_map(ex.node)
    for fn, p in ((ex, "G"), (rep.f(HY, "h_to_implicit"), "G")):
        muts = mutations(rep.repo, fn, p)
        rep.ob("O10.4", "R9", fn, not muts, muts[0][0] if muts else f"parameter `{p}`", f"{fn.qual} works on a copy: the input graph is not modified" + (f": {muts[0][1]}" if muts else ""),
               node=muts[0][0] if muts else fn.node)
    cnt = [x for x in d.get("count", []) if x.kind == "assign"]
    ok = bool(cnt) and norm(cnt[0].value).replace(" ", "") == "H2.nodes[heavy].get('hcount',0)"
    rep.ob("O10.4", "R15", ex, ok, cnt[0].stmt if cnt else "count", "the number of hydrogens to add is the atom's own hcount")
    lp = [l for l in walk_local(ex.node) if isinstance(l, ast.For) and isinstance(l.iter, ast.Call) and call_name(l.iter) == "range"]
    ok = len(lp) == 1 and norm(lp[0].iter) == "range(count)"
    rep.ob("O10.4", "R15", ex, ok, lp[0].iter if lp else "range", "exactly `count` hydrogen atoms are added")
    if lp:
        adds = [c for c in walk_local(lp[0]) if isinstance(c, ast.Call) and call_name(c) in ("add_node", "add_edge")]
        kinds = sorted(call_name(c) for c in adds)
        an = [c for c in adds if call_name(c) == "add_node"]
        ae = [c for c in adds if call_name(c) == "add_edge"]
        ok = kinds == ["add_edge", "add_node"] and is_const(kwarg(an[0], "element"), "H") and is_const(kwarg(an[0], "hcount"), 0) \
            and norm(ae[0].args[0]) == "heavy" and norm(ae[0].args[1]) == norm(an[0].args[0]) and const(kwarg(ae[0], "order")) == 1
        rep.ob("O10.4", "R15", ex, ok, [norm(c)[:50] for c in adds], "each new atom is a hydrogen with no hydrogens of its own, single-bonded to the heavy atom")
    # fresh identifiers: the counter starts at the largest existing id and is advanced before every use
    mx = [x for x in d.get("max_node", []) if x.kind == "assign"]
    src = norm(mx[0].value).replace(" ", "") if mx else ""
    ok = src in ("max(H2.nodes)ifH2.nodeselse0", "max(H2.nodes,default=0)", "max(H2.nodes())ifH2.nodes()else0", "max(H2.nodes(),default=0)", "max(H2)ifH2else0")
    rep.ob("O10.4", "R15", ex, ok if mx else None, mx[0].stmt if mx else "max_node", "new hydrogen ids start above the largest existing node id (they can never overwrite an atom)")
    if lp:
        inc = [n for n in lp[0].body if isinstance(n, ast.AugAssign) and norm(n.target) == "max_node" and isinstance(n.op, ast.Add) and is_const(n.value, 1)]
        first_use = [c for c in walk_local(lp[0]) if isinstance(c, ast.Call) and call_name(c) == "add_node"]
        ok = len(inc) == 1 and bool(first_use) and inc[0].lineno < first_use[0].lineno and norm(first_use[0].args[0]) == "max_node"
        rep.ob("O10.4", "R15", ex, ok, inc[0] if inc else "max_node += 1", "the id counter is advanced before each new hydrogen is created")
    sub = [n for n in walk_local(ex.node) if isinstance(n, ast.AugAssign) and norm(n.target).replace(" ", "") == "H2.nodes[heavy]['hcount']"]
    ok = len(sub) == 1 and isinstance(sub[0].op, ast.Sub) and norm(sub[0].value) == "count" and not [l for l in enclosing_loops(pm, sub[0], ex.node) if l in lp]
    rep.ob("O10.4", "R15", ex, ok, sub[0] if sub else "hcount -= count", "the implicit count is reduced by exactly the number of hydrogens made explicit (total hydrogen count unchanged)")
    im = rep.f(HY, "h_to_implicit")
    pm = parent_map(im.node)
    hn = origin(local_defs(im.node), ast.Name(id="h_nodes", ctx=ast.Load()))
    ok = norm(hn).replace(" ", "") == "[nforn,dinH2.nodes(data=True)ifd.get('element')=='H']"
    rep.ob("O10.4", "R15", im, ok, hn, "all hydrogen atoms are collected")
    incs = [(t, v, st) for t, v, st in assigned_subscripts(im.node) if is_const(t.slice, "hcount")]
    ok = False
    if len(incs) == 1:
        t, v, st = incs[0]
        try:
            lf = linform(v, lambda n: "old" if norm(n).replace(" ", "") == "H2.nodes[heavy].get('hcount',0)" else None)
            gs = [norm(g).replace(" ", "") for g, s in guards_of(pm, st, im.node) if s]
            ok = lf == Lin({"old": 1, 1: 1}) and gs == ["H2.nodes[heavy].get('element')!='H'"]
        except Undecided:
            ok = None
    rep.ob("O10.4", "R15", im, ok, incs[0][2] if incs else "hcount + 1", "each removed hydrogen adds one to every heavy neighbour (and only to heavy neighbours)")
    rm = [c for c in walk_local(im.node) if isinstance(c, ast.Call) and call_name(c) == "remove_node"]
    lps = enclosing_loops(pm, rm[0], im.node) if rm else []
    ok = len(rm) == 1 and norm(rm[0].args[0]) == "h" and len(lps) == 1 and norm(lps[0].iter) == "h_nodes" and not guards_of(pm, rm[0], lps[0])
    rep.ob("O10.4", "R15", im, ok, rm[0] if rm else "remove_node", "every collected hydrogen atom is removed")


def implicit_h(rep, oid="O10.4"):
    """implicit_hydrogen: hcount = explicit + implicit, minus ONE per preserved hydrogen, non-preserved hydrogens removed"""
    fi = rep.f(HY, "implicit_hydrogen")
    pm = parent_map(fi.node)
    defs = local_defs(fi.node)
    decs = [n for n in walk_local(fi.node) if isinstance(n, ast.AugAssign) and isinstance(n.op, ast.Sub) and pmatch("$g.nodes[$x]['hcount']", n.target) is not None]
    if not decs:
        rep.ob(oid, "R15", fi, False, "no `hcount -= 1` for preserved hydrogens", "an explicit hydrogen that stays explicit must not also be counted in its heavy atom's hcount", node=fi.node)
    for d in decs:
        b = pmatch("$g.nodes[$x]['hcount']", d.target)
        lps = enclosing_loops(pm, d, fi.node)
        ok = None
        why = ""
        if is_const(d.value, 1) and lps:
            inner = lps[0]
            m1 = pmatch("$g.neighbors($h)", inner.iter, {"g": b["g"]})
            if m1 and norm(inner.target) == b["x"] and len(lps) >= 2 and norm(lps[1].target) == m1["h"]:
                src = origin(defs, lps[1].iter)
                ok = True
                why = f"one decrement per (preserved hydrogen, neighbour) pair: for {m1['h']} in {norm(lps[1].iter)}: for {b['x']} in neighbors({m1['h']})"
            else:
                src = origin(defs, inner.iter)
                if isinstance(src, (ast.SetComp, ast.Set)) or (isinstance(src, ast.Call) and isinstance(src.func, ast.Name) and src.func.id in ("set", "frozenset")):
                    ok = False
                    why = f"`{b['x']}` runs over a SET of heavy atoms: an atom carrying two preserved hydrogens is decremented only once"
                else:
                    ok = None
                    why = "decrement loop shape not recognised"
        rep.ob(oid, "R15", fi, ok, d, "hcount is reduced by exactly one for every preserved explicit hydrogen bonded to the atom (" + why + ")", node=d)
        gs = [norm(t).replace(" ", "") for t, s_ in guards_of(pm, d, fi.node) if s_]
        rep.ob(oid, "R15", fi, any("['element']!='H'" in g_ for g_ in gs) if ok else None, f"guards {gs}", "only heavy neighbours are adjusted", node=d)
    first = pfind("$g.nodes[$n]['hcount'] = $a + $b", fi.node)
    okf = False
    if first:
        st, b = first[0]
        ea = origin(defs, ast.Name(id=b["a"], ctx=ast.Load()))
        eb = origin(defs, ast.Name(id=b["b"], ctx=ast.Load()))
        texts = {norm(ea).replace(" ", ""), norm(eb).replace(" ", "")}
        okf = any(t.startswith("sum((1for") and "['element']=='H'" in t and f".neighbors({b['n']})" in t for t in texts) and any(t.endswith("['hcount']") for t in texts)
    rep.ob(oid, "R15", fi, okf if first else None, first[0][0] if first else "hcount = explicit + implicit", "every heavy atom's hcount first becomes (explicit hydrogen neighbours) + (implicit count)")
    rm = pfind("$g.remove_nodes_from($l)", fi.node)
    okr = False
    if rm:
        src = origin(defs, ast.Name(id=rm[0][1]["l"], ctx=ast.Load()))
        t = norm(src).replace(" ", "")
        okr = isinstance(src, ast.ListComp) and "['element']=='H'" in t and "notin" in t
    rep.ob(oid, "R15", fi, okr if rm else False, rm[0][0] if rm else "remove_nodes_from", "exactly the hydrogens that are not preserved are removed")


def gml_reader(rep):
    sy = rep.f(G2N, "GMLToNX._synchronize_nodes_and_edges")
    pm = parent_map(sy.node)
    adds = [c for c in walk_local(sy.node) if isinstance(c, ast.Call) and call_name(c) in ("add_node", "add_edge")]
    sides = sorted(norm(c.func.value) + "." + call_name(c) for c in adds)
    want = sorted([f"self.graphs['{s}'].{m}" for s in ("left", "right") for m in ("add_node", "add_edge")])
    rep.ob("O10.1", "R3b", sy, sides == want, sides, "context atoms and bonds are restored on both the left and the right side")
    tr = rep.f(G2N, "GMLToNX.transform")
    its = [c for c in walk_local(tr.node) if isinstance(c, ast.Call) and call_name(c) == "ITSGraph"]
    ok = bool(its) and all([norm(a) for a in c.args] == ["self.graphs['left']", "self.graphs['right']"] for c in its)
    rep.ob("O10.1", "R3b", tr, ok, [norm(c)[:60] for c in its], "the ITS is rebuilt from (left, right) in this order: (before, after) bond orders keep their sides")
    rets = returns_of(tr.node)
    ok = bool(rets) and norm(rets[-1].value) == "(self.graphs['left'], self.graphs['right'], self.graphs['context'])"
    rep.ob("O10.1", "R3b", tr, ok, rets[-1] if rets else "return", "transform returns (left, right, ITS)")
    sec = [n for n in walk_local(tr.node) if isinstance(n, ast.Assign) and norm(n.targets[0]) == "current_section"]
    names = [n for n in walk_local(tr.node) if isinstance(n, ast.List) and all(isinstance(e, ast.Constant) for e in n.elts) and len(n.elts) == 3]
    ok = bool(names) and sorted(e.value for e in names[0].elts) == ["context", "left", "right"]
    rep.ob("O10.1", "R3b", tr, ok, names[0] if names else "sections", "the reader recognises the three section names the writer emits")


MUTANTS = [
    dict(name="revert F-C10 (context from the full ITS)", revert_patch="notes/fixes/C10.patch", expect="O10.2"),
    dict(name="double and triple labels swapped in the writer", file=N2G, expect="O10.1",
         old='order_to_label = {1: "-", 1.5: ":", 2: "=", 3: "#"}', new='order_to_label = {1: "-", 1.5: ":", 2: "#", 3: "="}'),
    dict(name="charge printed sign-first", file=N2G, expect="O10.1", old='            return "+" if charge == 1 else f"{charge}+"', new='            return "+" if charge == 1 else f"+{charge}"'),
    dict(name="negative charges lose their magnitude", file=N2G, expect="O10.1", old='            return "-" if charge == -1 else f"{-charge}-"', new='            return "-"'),
    dict(name="reader ignores the magnitude", file=G2N, expect="O10.1", old="            charge_val = int(num) if num else 1", new="            charge_val = 1"),
    dict(name="GraphToMol reads another charge key", file=G2M, expect="O10.3", old='            "charge": "charge",\n            "atom_map": "atom_map",\n        },', new='            "charge": "formal_charge",\n            "atom_map": "atom_map",\n        },'),
    dict(name="triple bonds written as double", file=G2M, expect="O10.3", old="        elif order == 3:\n            return Chem.BondType.TRIPLE", new="        elif order == 3:\n            return Chem.BondType.DOUBLE"),
    dict(name="hcount reduced once per added hydrogen AND by count", file=HY, expect="O10.4",
         old="            H2.add_edge(heavy, max_node, order=1.0)\n", new="            H2.add_edge(heavy, max_node, order=1.0)\n            H2.nodes[heavy][\"hcount\"] -= 1\n"),
    dict(name="one hydrogen too few", file=HY, expect="O10.4", old="        for _ in range(count):\n            max_node += 1", new="        for _ in range(count - 1):\n            max_node += 1"),
    dict(name="h_to_implicit counts hydrogens on hydrogens", file=HY, expect="O10.4",
         old='            if H2.nodes[heavy].get("element") != "H":\n                H2.nodes[heavy]["hcount"] = H2.nodes[heavy].get("hcount", 0) + 1',
         new='            if True:\n                H2.nodes[heavy]["hcount"] = H2.nodes[heavy].get("hcount", 0) + 1'),
    dict(name="h_to_implicit edits its argument", file=HY, expect="O10.4", old="    H2 = G.copy()\n    h_nodes = [", new="    H2 = G\n    h_nodes = ["),
    dict(name="smart_to_gml decomposes the full ITS but writes the centre", file=CONV, expect="O10.2",
         old="    if core:\n        its = get_rc(its)\n        r, p = its_decompose(its)\n    gml = NXToGML().transform(", new="    if core:\n        r, p = its_decompose(its)\n        its = get_rc(its)\n    gml = NXToGML().transform("),
    dict(name="GML reader rebuilds the ITS with sides swapped", file=G2N, expect="O10.1",
         old='        self.graphs["context"] = ITSConstruction().ITSGraph(\n            self.graphs["left"], self.graphs["right"]\n        )',
         new='        self.graphs["context"] = ITSConstruction().ITSGraph(\n            self.graphs["right"], self.graphs["left"]\n        )'),
    dict(name="writer passes (R, L, K) to the grammar", file=N2G, expect="O10.2",
         old="        rule_grammar = NXToGML._rule_grammar(\n            L, R, K, rule_name, changed_node_ids, explicit_hydrogen", new="        rule_grammar = NXToGML._rule_grammar(\n            R, L, K, rule_name, changed_node_ids, explicit_hydrogen"),
    dict(name="graph_to_smi forgets hydrogen counts", file=CONV, expect="O10.3",
         old="            mol = GraphToMol().graph_to_mol(graph, sanitize=sanitize, use_h_count=True)", new="            mol = GraphToMol().graph_to_mol(graph, sanitize=sanitize)"),
]

TWINS = [
    dict(name="writer table spelled with floats", file=N2G, old='order_to_label = {1: "-", 1.5: ":", 2: "=", 3: "#"}', new='order_to_label = {1.0: "-", 1.5: ":", 2.0: "=", 3.0: "#"}'),
    dict(name="its_to_gml with a conditional expression (pre-fix shape but one graph)", file=CONV,
         old="    if core:\n        its = get_rc(its)\n    r, p = its_decompose(its)\n", new="    its = get_rc(its) if core else its\n    r, p = its_decompose(its)\n"),
]
