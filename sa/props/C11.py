"""C11 - automorphism groups and orbits are exact; pruning loses no distinct result."""
from __future__ import annotations

import ast

from ..core import (AnalysisError, call_name, dotted, is_const, kwarg, local_defs, norm, origin, parent_map,
                    walk_local)
from ..facts import guards_of, returns_of, enclosing_loops
from ..rules import matcher as M
from ..rules.label import analyse as label_analyse
from ..rules.select import selections

AM = "synkit/Graph/Matcher/automorphism.py"
AE = "synkit/Graph/Matcher/auto_est.py"
DD = "synkit/Graph/Matcher/dedup_matches.py"
SR = "synkit/Synthesis/Reactor/syn_reactor.py"

META = {
    "explanation": (
        "R2 + loop shape: the exact analysis matches the graph against itself with full isomorphisms_iter, counts every "
        "automorphism, unions node and image symmetrically, and multiplies per-component group orders for disconnected "
        "graphs. R12: the WL-1 label builders of the fast estimate use node ids only as lookup keys and sort the "
        "neighbour signatures, so the estimate can only merge, never split, a true orbit. R7: de-duplication is an "
        "order-preserving filter (only `append(m)` of the scanned match, first occurrence kept). Dataflow: orbits and "
        "anchor are computed on the same pattern graph that is matched. R11 on the pruning path: the anchor choice "
        "must not fall to node-id or iteration order."
    ),
    "rules": {"R2": "SELF matcher with full isomorphism enumeration", "SHAPE": "count / union / product shape",
              "R12": "invariant-label rule", "R7": "filter shape", "SRC": "same pattern graph for orbits, anchor and matching",
              "R11": "id-order selection on the pruning path"},
    "not_decided": "orbit exactness as a value (VF2); that pruning by estimated orbits never merges inequivalent matches (value)",
    "trusted_base": ["CPython ast", "sa/* analyser", "networkx GraphMatcher.isomorphisms_iter enumerates all isomorphisms"],
    "assumptions": [],
}

PATH = [(AE, "AutoEst.anchor_component"), (AM, "Automorphism._choose_anchor"), (DD, "deduplicate_matches_with_anchor"),
        (DD, "_prepare_pattern_orbits"), (DD, "_anchor_sig"), (DD, "_free_sig_from_pattern_orbits")]


def run(rep):
    rep.run(exact)
    rep.run(estimate)
    rep.run(dedup)
    rep.run(consistency)
    rep.run(anchor_selection, "O11.5")


def exact(rep):
    mk = rep.f(AM, "Automorphism._make_matcher")
    ss = M.sites(mk)
    rep.need("R2", len(ss), 1, "GraphMatcher in _make_matcher")
    s = ss[0]
    rep.ob("O11.1", "R2", mk, norm(s.g1) == norm(s.g2) == mk.params[1], s.call, "automorphisms: the graph is matched against itself", node=s.call)
    nm, em = s.node_match, s.edge_match
    ok = isinstance(nm, ast.Call) and call_name(nm) == "categorical_node_match" and norm(nm.args[0]) == "self._nkeys" \
        and isinstance(em, ast.Call) and call_name(em) == "categorical_edge_match" and norm(em.args[0]) == "self._ekeys"
    rep.ob("O11.1", "R2", mk, ok, s.call, "node and edge labels are compared on the configured keys (label-preserving automorphisms)", node=s.call)
    ac = rep.f(AM, "Automorphism._analyze_component")
    pm = parent_map(ac.node)
    loops = [l for l in walk_local(ac.node) if isinstance(l, ast.For) and isinstance(l.iter, ast.Call) and call_name(l.iter) in (M.ISO_METHODS | M.SUB_METHODS)]
    rep.need("R2", len(loops), 1, "enumeration loop in _analyze_component")
    lp = loops[0]
    rep.ob("O11.1", "R2", ac, call_name(lp.iter) == "isomorphisms_iter", lp.iter, "all isomorphisms of the graph onto itself are enumerated", node=lp)
    gm = origin(local_defs(ac.node), lp.iter.func.value)
    rep.ob("O11.1", "R2", ac, norm(gm) == "self._make_matcher(g)", gm, "the matcher is the self-matcher of this component")
    inc = [n for n in lp.body if isinstance(n, ast.AugAssign) and isinstance(n.op, ast.Add) and is_const(n.value, 1)]
    rep.ob("O11.1", "SHAPE", ac, len(inc) == 1, inc[0] if inc else "n_aut += 1", "every automorphism is counted (unconditionally)", node=lp)
    exits = [n for n in walk_local(lp) if isinstance(n, (ast.Break, ast.Continue, ast.Return))]
    rep.ob("O11.1", "SHAPE", ac, not exits, [type(e).__name__ for e in exits], "the enumeration is never cut short")
    inner = [l for l in walk_local(lp) if isinstance(l, ast.For) and l is not lp]
    ok = False
    if inner and norm(inner[0].iter).replace(" ", "") == f"{norm(lp.target)}.items()":
        u, v = [norm(e) for e in inner[0].target.elts]
        adds = sorted(norm(c).replace(" ", "") for c in walk_local(inner[0]) if isinstance(c, ast.Call) and call_name(c) == "add")
        ok = adds == sorted([f"orbit_sets[{u}].add({v})", f"orbit_sets[{v}].add({u})"])
    rep.ob("O11.1", "SHAPE", ac, ok, inner[0].iter if inner else "for u, v in auto.items()", "each node is joined with its image and vice versa (orbits = exchangeability classes)")
    rets = returns_of(ac.node)
    last = rets[-1].value if rets else None
    ok = isinstance(last, ast.Tuple) and "unique_orbits" in norm(last.elts[0]) and norm(last.elts[1]).replace(" ", "") in ("n_autifn_aut>0else1", "n_aut")
    rep.ob("O11.1", "SHAPE", ac, ok, last if last is not None else "return", "the component's orbits and its automorphism count are returned")
    uo = origin(local_defs(ac.node), ast.Name(id="unique_orbits", ctx=ast.Load()))
    rep.ob("O11.1", "SHAPE", ac, norm(uo).replace(" ", "") == "{frozenset(nodes)fornodesinorbit_sets.values()}", uo, "orbits are the distinct exchange classes")
    an = rep.f(AM, "Automorphism._analyze")
    pm = parent_map(an.node)
    lp = [l for l in walk_local(an.node) if isinstance(l, ast.For) and norm(l.iter) == "comps"]
    rep.need("SHAPE", len(lp), 1, "component loop in _analyze")
    body = " ; ".join(norm(s_) for s_ in lp[0].body)
    ok = "self._graph.subgraph(comp).copy()" in body and "self._analyze_component(sub)" in body and "all_orbits.extend(orbits)" in body and "total_aut *= int(n_aut)" in body
    rep.ob("O11.1", "SHAPE", an, ok, lp[0].iter, "disconnected graphs: orbits are collected and automorphism counts multiplied per component (component swaps excluded)")
    single = [c for c in walk_local(an.node) if isinstance(c, ast.Call) and call_name(c) == "_analyze_component" and norm(c.args[0]) == "self._graph"]
    gs = [norm(t).replace(" ", "") for c in single for t, s_ in guards_of(pm, c, an.node) if s_]
    rep.ob("O11.1", "SHAPE", an, bool(single) and "len(comps)<=1" in gs, single[0] if single else "_analyze_component(self._graph)", "connected graphs are analysed as a whole")
    cc = rep.f(AM, "Automorphism._compute_components")
    txt = " ".join(norm(r.value) for r in returns_of(cc.node))
    rep.ob("O11.1", "SHAPE", cc, "frozenset(c) for c in comps" in txt, txt[:60], "components are the connected components of the analysed graph")


def estimate(rep):
    gnames = frozenset({"self._graph"})
    for q, ids in (("AutoEst._initial_label", {"node"}), ("AutoEst._refined_label", {"node"}), ("AutoEst._neighbor_signature", {"node", "neighbor"})):
        fi = rep.f(AE, q)
        leaks, unordered, facts = label_analyse(fi, ids, set(), graph_names=gnames, safe_callees={"_neighbor_signature", "_initial_label", "_refined_label"})
        if not leaks and not unordered:
            rep.ob("O11.2", "R12", fi, True, q.split(".")[1], "the WL label uses node ids only as lookup keys and sorts per-neighbour data (the estimate never separates a true orbit)", facts, node=fi.node)
        for node, msg in leaks + unordered:
            rep.ob("O11.2", "R12", fi, False, node, msg, facts, node=node)
    rl = rep.f(AE, "AutoEst._refined_label")
    srt = [c for c in walk_local(rl.node) if isinstance(c, ast.Call) and norm(c.func) in ("sigs.sort",)] + \
          [c for c in walk_local(rl.node) if isinstance(c, ast.Call) and isinstance(c.func, ast.Name) and c.func.id == "sorted" and "sigs" in norm(c)]
    rep.ob("O11.2", "R12", rl, bool(srt), srt[0] if srt else "sigs.sort()", "neighbour signatures form a multiset (sorted before use)")
    rets = returns_of(rl.node)
    rep.ob("O11.2", "R12", rl, bool(rets) and norm(rets[-1].value) in ("(base, tuple(sigs))", "(base, tuple(sorted(sigs)))") and
           norm(origin(local_defs(rl.node), ast.Name(id="base", ctx=ast.Load()))) == "self._colors[node]", rets[-1] if rets else "return",
           "a refined label is (own colour, multiset of neighbour signatures)")
    ns = rep.f(AE, "AutoEst._neighbor_signature")
    rets = returns_of(ns.node)
    rep.ob("O11.2", "R12", ns, bool(rets) and norm(rets[-1].value) == "(self._colors[neighbor], *edge_vals)", rets[-1] if rets else "return",
           "a neighbour contributes its colour and the selected bond attributes")
    ro = rep.f(AE, "AutoEst._refine_once")
    lp = [l for l in walk_local(ro.node) if isinstance(l, ast.For)]
    body = " ; ".join(norm(s_) for s_ in lp[0].body) if lp else ""
    ok = len(lp) == 1 and norm(lp[0].iter) == "self._graph.nodes()" and "label = self._refined_label(node)" in body and "new_colors[node] = c" in body \
        and "if label not in palette:" in body
    rep.ob("O11.2", "R12", ro, ok, lp[0].iter if lp else "for", "colours are assigned per distinct label: equal labels get equal colours in one sweep")
    bo = rep.f(AE, "AutoEst._build_orbits")
    body = " ; ".join(norm(s_) for s_ in bo.node.body)
    ok = "color_to_nodes.setdefault(color, []).append(node)" in body and "frozenset(v) for v in color_to_nodes.values()" in body
    rep.ob("O11.2", "R12", bo, ok, "orbits = colour classes", "estimated orbits are exactly the final colour classes")
    ft = rep.f(AE, "AutoEst.fit")
    calls = [call_name(c) for c in walk_local(ft.node) if isinstance(c, ast.Call) and call_name(c).startswith("_")]
    order = [c for c in sorted([(c.lineno, call_name(c)) for c in walk_local(ft.node) if isinstance(c, ast.Call) and call_name(c).startswith("_")])]
    rep.ob("O11.2", "R12", ft, [c for _, c in order] == ["_initialize_colors", "_refine_colors", "_build_orbits"], [c for _, c in order], "fit = initial colours, refinement, colour classes")


def dedup(rep):
    fi = rep.f(DD, "deduplicate_matches_with_anchor")
    pm = parent_map(fi.node)
    loops = [l for l in walk_local(fi.node) if isinstance(l, ast.For) and norm(l.iter) == fi.params[0]]
    rep.need("R7", len(loops), 1, "scan loop in deduplicate_matches_with_anchor")
    lp = loops[0]
    m = norm(lp.target)
    muts = [c for c in walk_local(fi.node) if isinstance(c, ast.Call) and isinstance(c.func, ast.Attribute) and norm(c.func.value) == "unique"
            and c.func.attr in ("append", "insert", "extend", "sort", "reverse", "pop", "remove")]
    ok = len(muts) == 1 and muts[0].func.attr == "append" and norm(muts[0].args[0]) == m
    rep.ob("O11.3", "R7", fi, ok, [norm(c) for c in muts], "the result is built only by appending the scanned match itself (sub-list, original order, same objects)")
    conts = [n for n in walk_local(lp) if isinstance(n, (ast.Continue, ast.Break))]
    ok = len(conts) == 1 and isinstance(conts[0], ast.Continue) and [(norm(t), s) for t, s in guards_of(pm, conts[0], lp)] == [("sig in seen", True)]
    rep.ob("O11.3", "R7", fi, ok, [type(c).__name__ for c in conts], "a match is dropped only if an earlier match had the same signature (first occurrence kept)")
    adds = [c for c in walk_local(lp) if isinstance(c, ast.Call) and norm(c.func) == "seen.add" and norm(c.args[0]) == "sig"]
    rep.ob("O11.3", "R7", fi, len(adds) == 1, adds[0] if adds else "seen.add(sig)", "each kept signature is remembered")
    rets = returns_of(fi.node)
    ok = norm(rets[-1].value) == "unique" and any(norm(r.value) == f"list({fi.params[0]})" for r in rets[:-1])
    rep.ob("O11.3", "R7", fi, ok, [norm(r.value) for r in rets], "without orbit information the input is returned unchanged; otherwise the filtered list")
    # no re-ordering helpers on the matches themselves
    srt = [c for c in walk_local(fi.node) if isinstance(c, ast.Call) and isinstance(c.func, ast.Name) and c.func.id in ("sorted", "reversed") and fi.params[0] in norm(c)]
    rep.ob("O11.3", "R7", fi, not srt, srt[0] if srt else "no sorted(matches)", "the matches are never re-ordered")
    # mapping objects are not modified
    muts_m = [n for n in walk_local(lp) if (isinstance(n, ast.Assign) and any(isinstance(t, ast.Subscript) and norm(t.value) == m for t in n.targets))
              or (isinstance(n, ast.Call) and isinstance(n.func, ast.Attribute) and norm(n.func.value) == m and n.func.attr in ("pop", "update", "clear", "setdefault"))]
    rep.ob("O11.3", "R7", fi, not muts_m, muts_m[0] if muts_m else "no write to m", "matches are not modified")


def consistency(rep):
    fi = rep.f(SR, "SynReactor.mappings")
    calls = {}
    for c in walk_local(fi.node):
        if isinstance(c, ast.Call):
            if call_name(c) == "find_subgraph_mappings":
                calls["match"] = norm(kwarg(c, "pattern") or ast.Constant(None))
            if call_name(c) == "PartialMatcher":
                calls["partial"] = norm(kwarg(c, "pattern") or ast.Constant(None))
            if call_name(c) == "Automorphism" and c.args:
                calls["exact"] = norm(c.args[0])
            if call_name(c) == "AutoEst" and c.args:
                calls["est"] = norm(c.args[0])
    rep.ob("O11.4", "SRC", fi, len(set(calls.values())) == 1 and len(calls) == 4, calls, "orbits/anchor are computed on exactly the pattern graph that is matched")
    # no re-binding of that name between the matcher call and the orbit computation
    name = list(calls.values())[0] if calls else "pattern_graph"
    assigns = sorted(n.lineno for n in walk_local(fi.node) if isinstance(n, ast.Assign) and any(norm(t) == name for t in n.targets))
    uses = sorted(c.lineno for c in walk_local(fi.node) if isinstance(c, ast.Call) and call_name(c) in ("find_subgraph_mappings", "PartialMatcher", "Automorphism", "AutoEst"))
    rep.ob("O11.4", "SRC", fi, bool(uses) and all(a < uses[0] for a in assigns), f"assignments at {assigns}, uses at {uses}", "the pattern graph is not re-bound between matching and pruning")
    dd = [c for c in walk_local(fi.node) if isinstance(c, ast.Call) and call_name(c) == "deduplicate_matches_with_anchor"]
    rep.need("SRC", len(dd), 2, "deduplicate calls in mappings")
    for c in dd:
        ok = norm(c.args[0]) == "raw_maps" and norm(kwarg(c, "pattern_orbits") or ast.Constant(None)) == "auto.orbits" \
            and norm(kwarg(c, "pattern_anchor") or ast.Constant(None)) == "auto.anchor_component"
        rep.ob("O11.4", "SRC", fi, ok, c, "pruning receives the raw matches with the orbits and anchor of the same analysis object", node=c)
    srt = [c for c in walk_local(fi.node) if isinstance(c, ast.Call) and ((isinstance(c.func, ast.Name) and c.func.id == "sorted") or call_name(c) == "sort")]
    rep.ob("O11.4", "SRC", fi, not srt, srt[0] if srt else "no sort", "the list of matches is not re-sorted")
    ae = [c for c in walk_local(fi.node) if isinstance(c, ast.Call) and call_name(c) == "AutoEst"]
    if ae:
        from ..absval import Undecided, eval_expr, module_constants
        consts = module_constants(fi.module.tree)
        if fi.cls is not None:
            for st in fi.cls.body:  # class-level constants
                if isinstance(st, ast.Assign) and isinstance(st.targets[0], ast.Name):
                    try:
                        consts[st.targets[0].id] = eval_expr(st.value, {})
                    except Undecided:
                        pass
        vals = {}
        for kw in ("node_attrs", "edge_attrs"):
            v = kwarg(ae[0], kw)
            try:
                env = dict(consts)
                env.update({f"self.{k}": x for k, x in consts.items()})
                env.update({f"SynReactor.{k}": x for k, x in consts.items()})
                vals[kw] = set(eval_expr(origin(local_defs(fi.node), v), env)) if v is not None else set()
            except (Undecided, TypeError):
                vals[kw] = None
        need_n, need_e = {"element", "charge", "aromatic", "hcount"}, {"order"}
        ok = None if (vals["node_attrs"] is None or vals["edge_attrs"] is None) else (need_n <= vals["node_attrs"] and need_e <= vals["edge_attrs"])
        rep.ob("O11.4", "SRC", fi, ok, f"node_attrs={sorted(vals['node_attrs']) if vals['node_attrs'] is not None else '?'} edge_attrs={sorted(vals['edge_attrs']) if vals['edge_attrs'] is not None else '?'}",
               "the orbit estimate must tell apart every atom label the rule tells apart (element, charge, aromaticity, hydrogen count; bond order): "
               "atoms merged into one orbit although the rule treats them differently make the pruning drop inequivalent matches", node=ae[0])


def anchor_selection(rep, oid):
    n = 0
    for rel, q in PATH:
        fi = rep.f(rel, q)
        for node, kind, tie in selections(fi):
            n += 1
            ok = tie == "total"
            what = {"id": "among equally large candidates the choice falls to the smallest node id: results depend on the numbering of the template",
                    "iteration-order": "ties fall to container iteration order (node insertion order): results depend on how the template is written",
                    "total": "the selection is decided by a numbering-independent key"}[tie]
            rep.ob(oid, "R11", fi, ok, f"{kind}: {norm(node)[:90]}", what, {"tie_break": tie}, node=node)
    rep.need("R11", n, 2, "selections on the pruning path")


MUTANTS = [
    dict(name="subgraph enumeration instead of isomorphisms", file=AM, expect="O11.1", old="        for auto in gm.isomorphisms_iter():", new="        for auto in gm.subgraph_isomorphisms_iter():"),
    dict(name="identity not counted", file=AM, expect="O11.1",
         old="        for auto in gm.isomorphisms_iter():\n            n_aut += 1", new="        for auto in gm.isomorphisms_iter():\n            if all(u == v for u, v in auto.items()):\n                continue\n            n_aut += 1"),
    dict(name="one-sided orbit union", file=AM, expect="O11.1", old="                orbit_sets[u].add(v)\n                orbit_sets[v].add(u)", new="                orbit_sets[u].add(v)"),
    dict(name="component counts added instead of multiplied", file=AM, expect="O11.1", old="            total_aut *= int(n_aut)", new="            total_aut += int(n_aut)"),
    dict(name="matcher ignores bond labels", file=AM, expect="O11.1",
         old="            edge_match=categorical_edge_match(self._ekeys, self._edge_defaults()),", new="            edge_match=None,"),
    dict(name="refined label contains the node id", file=AE, expect="O11.2", old="        return (base, tuple(sigs))", new="        return (base, node, tuple(sigs))"),
    dict(name="neighbour signatures not sorted", file=AE, expect="O11.2", old="        sigs.sort()\n", new=""),
    dict(name="dedup reorders (insert at front)", file=DD, expect="O11.3", old="        unique.append(m)\n", new="        unique.insert(0, m)\n"),
    dict(name="dedup keeps the last occurrence", file=DD, expect="O11.3",
         old="        if sig in seen:\n            continue\n\n        seen.add(sig)\n        unique.append(m)", new="        if sig in seen:\n            unique.pop()\n\n        seen.add(sig)\n        unique.append(m)"),
    dict(name="dedup returns normalised copies", file=DD, expect="O11.3", old="        unique.append(m)\n", new="        unique.append(dict(sorted(m.items())))\n"),
    dict(name="orbits of the unprepared left graph", file=SR, expect="O11.4",
         old="                auto = AutoEst(\n                    pattern_graph,", new="                auto = AutoEst(\n                    self.rule.left.raw,"),
    dict(name="third id-ordered choice on the pruning path", file=DD, expect="O11.5",
         old="    anchored_nodes = tuple(sorted(pattern_anchor))", new="    anchored_nodes = tuple(sorted(pattern_anchor))\n    free_orbits = free_orbits[:1] + [min(free_orbits[1:])] if len(free_orbits) > 2 else free_orbits"),
    dict(name="estimate blind to charge", file=SR, expect="O11.4",
         old='                    node_attrs=["element", "charge", "aromatic", "hcount"],\n                    edge_attrs=["order"],\n                )\n                auto.fit()',
         new='                    node_attrs=["element", "aromatic", "hcount"],\n                    edge_attrs=["order"],\n                )\n                auto.fit()'),
]

TWINS = [
    dict(name="symmetric union written with update", file=AM,
         old="                orbit_sets[u].add(v)\n                orbit_sets[v].add(u)", new="                orbit_sets[v].add(u)\n                orbit_sets[u].add(v)"),
    dict(name="sigs sorted via sorted()", file=AE, old="        sigs.sort()\n        return (base, tuple(sigs))", new="        return (base, tuple(sorted(sigs)))"),
]
