"""C11 - automorphism groups and orbits are exact; pruning loses no distinct result."""
from __future__ import annotations

import ast

from ..core import (AnalysisError, alpha, call_name, dotted, is_const, kwarg, local_defs, norm, origin, parent_map,
                    walk_local)
from ..facts import default_of, guards_of, returns_of, enclosing_loops, if_leaves
from ..rules import matcher as M
from ..rules.label import analyse as label_analyse
from ..rules.select import selections
from ..pattern import pmatch, pfind, pall

AM = "synkit/Graph/Matcher/automorphism.py"
AE = "synkit/Graph/Matcher/auto_est.py"
DD = "synkit/Graph/Matcher/dedup_matches.py"
SR = "synkit/Synthesis/Reactor/syn_reactor.py"

META = {
    "explanation": (
        "R2 + loop shape: the exact analysis matches the graph against itself with full isomorphisms_iter, counts every "
        "automorphism, unions node and image symmetrically, and multiplies per-component group orders for disconnected "
        "graphs. R12: the WL-1 label builders of the fast estimate use node ids only as lookup keys and sort the "
        "neighbour signatures, so the estimate can only merge, never split, a true orbit. R7: de-duplication is an "
        "order-preserving filter (only `append(m)` of the scanned match, first occurrence kept). Dataflow: orbits and "
        "anchor are computed on the same pattern graph that is matched. R11 on the pruning path: the anchor choice "
        "must not fall to node-id or iteration order."
    ),
    "rules": {"R2": "SELF matcher with full isomorphism enumeration", "SHAPE": "count / union / product shape",
              "R12": "invariant-label rule", "R7": "filter shape", "SRC": "same pattern graph for orbits, anchor and matching",
              "R11": "id-order selection on the pruning path"},
    "not_decided": "orbit exactness as a value (VF2); that pruning by estimated orbits never merges inequivalent matches (value)",
    "trusted_base": ["CPython ast", "sa/* analyser", "networkx GraphMatcher.isomorphisms_iter enumerates all isomorphisms"],
    "assumptions": [],
}

PATH = [(AE, "AutoEst.anchor_component"), (AM, "Automorphism._choose_anchor"), (DD, "deduplicate_matches_with_anchor"),
        (DD, "_prepare_pattern_orbits"), (DD, "_anchor_sig"), (DD, "_free_sig_from_pattern_orbits")]


def run(rep):
    rep.run(exact)
    rep.run(estimate)
    rep.run(dedup)
    rep.run(dedup_key)
    rep.run(consistency)
    rep.run(anchor_selection, "O11.5")


def exact(rep):
    # networkx's VF2++ entry points compare ONE node label and no edge attribute at all: whatever is folded into that label, a permutation that
    # keeps every atom's multiset of incident bond labels but maps a single bond onto a double bond is accepted as an automorphism
    for q_, f_ in sorted(rep.repo.module(AM).funcs.items()):
        if not q_.startswith("Automorphism."):
            continue
        for c_ in walk_local(f_.node, into_nested=True):
            if isinstance(c_, ast.Call) and (call_name(c_) or "").startswith("vf2pp_"):
                rep.ob("O11.1", "R2", f_, False, c_, "node and edge labels are compared on the configured keys (label-preserving automorphisms): VF2++ has no edge-label "
                       "comparison, so bond orders do not constrain the enumerated permutations", node=c_)
    mk = rep.f(AM, "Automorphism._make_matcher")
    ss = M.sites(mk)
    rep.need("R2", len(ss), 1, "GraphMatcher in _make_matcher")
    s = ss[0]
    rep.ob("O11.1", "R2", mk, norm(s.g1) == norm(s.g2) == mk.params[1], s.call, "automorphisms: the graph is matched against itself", node=s.call)
    nm, em = s.node_match, s.edge_match
    ok = isinstance(nm, ast.Call) and call_name(nm) == "categorical_node_match" and norm(nm.args[0]) == "self._nkeys" \
        and isinstance(em, ast.Call) and call_name(em) == "categorical_edge_match" and norm(em.args[0]) == "self._ekeys"
    rep.ob("O11.1", "R2", mk, ok, s.call, "node and edge labels are compared on the configured keys (label-preserving automorphisms)", node=s.call)
    # the defaults handed to categorical_*_match are zipped with the keys: a list built over the OTHER key set is silently truncated to the shorter
    # one, and the trailing labels drop out of the comparison
    mdefs = local_defs(mk.node)

    def _keysets(e, depth=0):
        out = {n_.attr for n_ in ast.walk(e) if isinstance(n_, ast.Attribute) and n_.attr in ("_nkeys", "_ekeys")}
        for c_ in ast.walk(e):
            if depth < 2 and isinstance(c_, ast.Call) and isinstance(c_.func, ast.Attribute) and norm(c_.func.value) == "self":
                hf = rep.repo.maybe_func(AM, "Automorphism." + c_.func.attr)
                if hf is not None:
                    out |= _keysets(hf.node, depth + 1)
        return out
    for call_, own, other, what_ in ((nm, "_nkeys", "_ekeys", "node"), (em, "_ekeys", "_nkeys", "edge")):
        if not (isinstance(call_, ast.Call) and len(call_.args) >= 2):
            continue
        ks = _keysets(origin(mdefs, call_.args[1]))
        okd = True if ks == {own} else (False if ks == {other} else None)
        rep.ob("O11.1", "R2", mk, okd, call_, f"the {what_} defaults are built over the {what_} keys they are zipped with (one default per compared label)",
               {"key_sets_read": sorted(ks)}, node=call_)
    ac = rep.f(AM, "Automorphism._analyze_component")
    gp = ac.params[1]
    adefs = local_defs(ac.node)
    def _enum(l):
        """(enumeration call, counter bound by enumerate(.., 1) or None, loop variable holding the mapping)"""
        it = l.iter
        if isinstance(it, ast.Call) and call_name(it) in (M.ISO_METHODS | M.SUB_METHODS):
            return it, None, norm(l.target)
        em = isinstance(it, ast.Call) and call_name(it) == "enumerate" and it.args and isinstance(it.args[0], ast.Call) and call_name(it.args[0]) in (M.ISO_METHODS | M.SUB_METHODS)
        if em and isinstance(l.target, ast.Tuple) and len(l.target.elts) == 2:
            start = it.args[1] if len(it.args) > 1 else kwarg(it, "start")
            if start is not None and is_const(start, 1):
                return it.args[0], norm(l.target.elts[0]), norm(l.target.elts[1])
        return None
    loops = [l for l in walk_local(ac.node) if isinstance(l, ast.For) and _enum(l) is not None]
    rep.need("R2", len(loops), 1, "enumeration loop in _analyze_component")
    lp = loops[0]
    ecall, ecount, evar = _enum(lp)
    rep.ob("O11.1", "R2", ac, call_name(ecall) == "isomorphisms_iter", ecall, "all isomorphisms of the graph onto itself are enumerated", node=lp)
    gm = origin(adefs, ecall.func.value)
    rep.ob("O11.1", "R2", ac, norm(gm) == f"self._make_matcher({gp})", gm, "the matcher is the self-matcher of this component")
    inc = [(n, pmatch("$c += 1", n)) for n in lp.body if pmatch("$c += 1", n) is not None]
    # counted either by `c += 1` in the body or by enumerate(..., 1) (then c starts at 0 before the loop)
    by_enum = ecount is not None and not inc and any(d_.kind == "assign" and is_const(d_.value, 0) for d_ in adefs.get(ecount, []))
    rep.ob("O11.1", "SHAPE", ac, len(inc) == 1 or by_enum, inc[0][0] if inc else "enumerate(<isomorphisms>, 1)", "every automorphism is counted (unconditionally)", node=lp)
    counter = inc[0][1]["c"] if inc else (ecount if by_enum else None)
    exits = [n for n in walk_local(lp) if isinstance(n, (ast.Break, ast.Continue, ast.Return))]
    rep.ob("O11.1", "SHAPE", ac, not exits, [type(e).__name__ for e in exits], "the enumeration is never cut short")
    inner = [l for l in walk_local(lp) if isinstance(l, ast.For) and l is not lp]
    ok = False
    store = None
    if inner and pmatch(f"{evar}.items()", inner[0].iter) is not None and isinstance(inner[0].target, ast.Tuple) and len(inner[0].target.elts) == 2:
        u, v = [norm(e) for e in inner[0].target.elts]
        b = pall(["$o.setdefault($u, set()).add($v)", "$o.setdefault($v, set()).add($u)"], inner[0], {"u": u, "v": v})
        nadd = [c for c in walk_local(inner[0]) if isinstance(c, ast.Call) and call_name(c) == "add"]
        ok = b is not None and len(nadd) == 2
        store = b["o"] if b else None
    rep.ob("O11.1", "SHAPE", ac, ok, inner[0].iter if inner else "for u, v in auto.items()", "each node is joined with its image and vice versa (orbits = exchangeability classes)")
    rets = returns_of(ac.node)
    last = rets[-1].value if rets else None
    ok = False
    uo = None
    if isinstance(last, ast.Tuple) and len(last.elts) == 2 and counter and store:
        cnt_ok = norm(last.elts[1]) == counter or pmatch(f"{counter} if {counter} > 0 else 1", last.elts[1]) is not None \
            or pmatch(f"max({counter}, 1)", last.elts[1]) is not None or pmatch(f"max(1, {counter})", last.elts[1]) is not None
        e0 = last.elts[0]
        inner0 = e0.args[0] if isinstance(e0, ast.Call) and call_name(e0) in ("list", "sorted") and e0.args else e0
        uo = origin(adefs, inner0)
        ok = cnt_ok
    rep.ob("O11.1", "SHAPE", ac, ok, last if last is not None else "return", "the component's orbits and its automorphism count are returned")
    rep.ob("O11.1", "SHAPE", ac, uo is not None and store is not None and pmatch(f"{{frozenset($n) for $n in {store}.values()}}", uo) is not None,
           uo if uo is not None else "unique orbits", "orbits are the distinct exchange classes")
    an = rep.f(AM, "Automorphism._analyze")
    pm = parent_map(an.node)
    ndefs = local_defs(an.node)
    # the units analysed one by one are the connected components themselves: a unit that is a union of several components lets VF2 swap
    # isomorphic fragments inside it (counted as automorphisms, their atoms merged into one orbit)
    from ..rules import provenance as PVa
    from ..facts import iterations as _iters
    for lp_ in [l for l in walk_local(an.node) if isinstance(l, (ast.For, ast.comprehension))]:
        body_ = lp_.body if isinstance(lp_, ast.For) else [pm.get(lp_)]
        if not any(isinstance(c_, ast.Call) and call_name(c_) == "_analyze_component" for b_ in body_ if b_ is not None for c_ in ast.walk(b_)):
            continue
        roots_ = PVa.all_roots(ndefs, lp_.iter)
        merged_ = [r_ for r_ in roots_ for c_ in ast.walk(r_) if isinstance(c_, ast.Call) and call_name(c_) in ("union", "update", "chain") or (isinstance(c_, ast.BinOp) and isinstance(c_.op, ast.BitOr))]
        if merged_:
            rep.ob("O11.1", "SHAPE", an, False, merged_[0], "disconnected graphs: each connected component is analysed on its own (here a unit is a union of components: swaps of "
                   "isomorphic fragments inside it are enumerated as automorphisms)", node=lp_ if isinstance(lp_, ast.For) else pm.get(lp_))
    comps = [nm_ for nm_, ds in ndefs.items() for d_ in ds if d_.kind == "assign" and norm(d_.value) == "self.components"]
    # normal form N24 reads a local that merely names `self.components` as the attribute itself
    direct = [n_ for n_ in walk_local(an.node) if isinstance(n_, ast.Attribute) and norm(n_) == "self.components"]
    rep.need("SHAPE", len(comps) + (1 if direct else 0), 1, "self.components in _analyze")
    cv = comps[0] if comps else "self.components"
    lp = [l for l in walk_local(an.node) if isinstance(l, ast.For) and norm(l.iter) == cv]
    if not lp:
        # comprehension form: per = [self._analyze_component(self._graph.subgraph(c).copy()) for c in comps]; orbits chained, counts multiplied
        okc = False
        per = [nm for nm, ds in ndefs.items() for d_ in ds if d_.kind == "assign" and d_.value is not None
               and pmatch(f"[self._analyze_component(self._graph.subgraph($c).copy()) for $c in {cv}]", d_.value) is not None]
        if len(per) == 1:
            PCn = per[0]
            orb = [nm for nm, ds in ndefs.items() for d_ in ds if d_.value is not None and (
                pmatch(f"chain.from_iterable(($o for $o, $u in {PCn}))", d_.value) is not None or pmatch(f"[$x for $o, $u in {PCn} for $x in $o]", d_.value) is not None)]
            tot = [nm for nm, ds in ndefs.items() for d_ in ds if d_.value is not None and (
                pmatch(f"prod((int($n) for $u, $n in {PCn}))", d_.value) is not None or pmatch(f"math.prod((int($n) for $u, $n in {PCn}))", d_.value) is not None
                or pmatch(f"prod(($n for $u, $n in {PCn}))", d_.value) is not None or pmatch(f"math.prod(($n for $u, $n in {PCn}))", d_.value) is not None)]
            if orb and tot:
                st_n = [n for n in walk_local(an.node) if isinstance(n, ast.Assign) and norm(n.targets[0]) == "self._n_automorphisms" and tot[0] in {x.id for x in ast.walk(n.value) if isinstance(x, ast.Name)}]
                st_o = [n for n in walk_local(an.node) if isinstance(n, ast.Assign) and norm(n.targets[0]) == "self._orbits" and orb[0] in {x.id for x in ast.walk(n.value) if isinstance(x, ast.Name)}]
                okc = bool(st_n) and bool(st_o)
        rep.ob("O11.1", "SHAPE", an, okc if per else None, "per-component analysis (comprehension form)",
               "disconnected graphs: orbits are collected and automorphism counts multiplied per component (component swaps excluded)")
        single = [c for c in walk_local(an.node) if isinstance(c, ast.Call) and call_name(c) == "_analyze_component" and norm(c.args[0]) == "self._graph"]
        gs = [t for c in single for t, s_ in guards_of(pm, c, an.node) if s_]
        rep.ob("O11.1", "SHAPE", an, bool(single) and any(pmatch(f"len({cv}) <= 1", t) is not None for t in gs), single[0] if single else "_analyze_component(self._graph)", "connected graphs are analysed as a whole")
        lp = None
    if lp is None:
        _components_check(rep)
        return
    rep.need("SHAPE", len(lp), 1, "component loop in _analyze")
    b = pall(["$sub = self._graph.subgraph($c).copy()", "$orb, $n = self._analyze_component($sub)", "$all.extend($orb)", "$tot *= int($n)"], lp[0], {"c": norm(lp[0].target)}) \
        or pall(["$sub = self._graph.subgraph($c).copy()", "$orb, $n = self._analyze_component($sub)", "$all.extend($orb)", "$tot *= $n"], lp[0], {"c": norm(lp[0].target)})
    ok = b is not None and not [n for n in walk_local(lp[0]) if isinstance(n, (ast.Break, ast.Continue, ast.Return))]
    if ok:
        # the product and the collected orbits are what is stored
        st_n = [n for n in walk_local(an.node) if isinstance(n, ast.Assign) and norm(n.targets[0]) == "self._n_automorphisms" and n.lineno > lp[0].lineno]
        st_o = [n for n in walk_local(an.node) if isinstance(n, ast.Assign) and norm(n.targets[0]) == "self._orbits" and n.lineno > lp[0].lineno]
        ok = bool(st_n) and b["tot"] in {x.id for x in ast.walk(st_n[0].value) if isinstance(x, ast.Name)} and \
            bool(st_o) and b["all"] in {x.id for x in ast.walk(st_o[0].value) if isinstance(x, ast.Name)} and \
            any(d_.kind == "assign" and is_const(d_.value, 1) for d_ in ndefs.get(b["tot"], []))
    rep.ob("O11.1", "SHAPE", an, ok, lp[0].iter, "disconnected graphs: orbits are collected and automorphism counts multiplied per component (component swaps excluded)")
    single = [c for c in walk_local(an.node) if isinstance(c, ast.Call) and call_name(c) == "_analyze_component" and norm(c.args[0]) == "self._graph"]
    gs = [t for c in single for t, s_ in guards_of(pm, c, an.node) if s_]
    rep.ob("O11.1", "SHAPE", an, bool(single) and any(pmatch(f"len({cv}) <= 1", t) is not None for t in gs), single[0] if single else "_analyze_component(self._graph)", "connected graphs are analysed as a whole")
    _components_check(rep)


def _components_check(rep):
    cc = rep.f(AM, "Automorphism._compute_components")
    rets = returns_of(cc.node)
    ok = False
    for r in rets:
        m = pmatch("[frozenset($c) for $c in $comps]", r.value)
        if m:
            srcs = [norm(leaf) for d_ in local_defs(cc.node).get(m["comps"], []) if d_.kind == "assign" for leaf in if_leaves(d_.value)]
            ok = sorted(srcs) == ["nx.connected_components(self._graph)", "nx.weakly_connected_components(self._graph)"]
    rep.ob("O11.1", "SHAPE", cc, ok, rets[-1] if rets else "return", "components are the connected components of the analysed graph")


def estimate(rep):
    gnames = frozenset({"self._graph"})
    for q, npar in (("AutoEst._initial_label", 1), ("AutoEst._refined_label", 1), ("AutoEst._neighbor_signature", 2)):
        fi = rep.f(AE, q)
        ids = set(fi.params[1:1 + npar])
        leaks, unordered, facts = label_analyse(fi, ids, set(), graph_names=gnames, safe_callees={"_neighbor_signature", "_initial_label", "_refined_label"})
        if not leaks and not unordered:
            rep.ob("O11.2", "R12", fi, True, q.split(".")[1], "the WL label uses node ids only as lookup keys and sorts per-neighbour data (the estimate never separates a true orbit)", facts, node=fi.node)
        for node, msg in leaks + unordered:
            rep.ob("O11.2", "R12", fi, False, node, msg, facts, node=node)
    rl = rep.f(AE, "AutoEst._refined_label")
    node_p = rl.params[1]
    rets = returns_of(rl.node)
    rdefs = local_defs(rl.node)
    ok_sorted = ok_shape = False
    construct = rets[-1] if rets else "return"
    if rets:
        m = pmatch("($$base, tuple($sigs))", rets[-1].value) or pmatch("($$base, tuple(sorted($sigs)))", rets[-1].value)
        if m:
            base_node = rets[-1].value.elts[0]
            sg = m["sigs"]
            in_place = pfind(f"{sg}.sort()", rl.node)
            sg_src = origin(rdefs, ast.Name(id=sg, ctx=ast.Load()))
            gen = f"(self._neighbor_signature({node_p}, $n) for $n in self._graph.neighbors({node_p}))"
            built_sorted = pmatch(f"sorted({gen})", sg_src) is not None or pmatch(f"sorted([self._neighbor_signature({node_p}, $n) for $n in self._graph.neighbors({node_p})])", sg_src) is not None
            ok_sorted = bool(in_place) or built_sorted or pmatch("($$base, tuple(sorted($sigs)))", rets[-1].value) is not None
            fill = pall([f"for $n in self._graph.neighbors({node_p}):\n    {sg}.append(self._neighbor_signature({node_p}, $n))"], rl.node)
            comp_fill = built_sorted or pmatch(f"[self._neighbor_signature({node_p}, $n) for $n in self._graph.neighbors({node_p})]", sg_src) is not None
            ok_shape = norm(origin(rdefs, base_node)) == f"self._colors[{node_p}]" and (fill is not None or comp_fill)
    rep.ob("O11.2", "R12", rl, ok_sorted, "sigs.sort()" if ok_sorted else construct, "neighbour signatures form a multiset (sorted before use)")
    rep.ob("O11.2", "R12", rl, ok_shape, construct, "a refined label is (own colour, multiset of neighbour signatures)")
    ns = rep.f(AE, "AutoEst._neighbor_signature")
    rets = returns_of(ns.node)
    ok = False
    if rets:
        m = pmatch(f"(self._colors[{ns.params[2]}], *$ev)", rets[-1].value)
        if m:
            ev = origin(local_defs(ns.node), ast.Name(id=m["ev"], ctx=ast.Load()))
            m2 = pmatch("[$ed.get($k) for $k in self._cfg.edge_attrs]", ev)
            ok = m2 is not None and pmatch(f"self._graph.get_edge_data({ns.params[1]}, {ns.params[2]}, default={{}})", origin(local_defs(ns.node), ast.Name(id=m2["ed"], ctx=ast.Load()))) is not None
    if not ok and rets and isinstance(rets[-1].value, ast.Tuple) and rets[-1].value.elts and norm(rets[-1].value.elts[0]) == f"self._colors[{ns.params[2]}]" \
            and any(isinstance(e_, ast.Starred) for e_ in rets[-1].value.elts[1:]):
        ok = None   # colour first, then some bond values: how those are read is not one of the forms this rule knows - no evidence of a wrong signature
    rep.ob("O11.2", "R12", ns, ok, rets[-1] if rets else "return", "a neighbour contributes its colour and the selected bond attributes")
    ro = rep.f(AE, "AutoEst._refine_once")
    lp = [l for l in walk_local(ro.node) if isinstance(l, ast.For)]
    ok = False
    if len(lp) == 1 and norm(lp[0].iter) in ("self._graph.nodes()", "self._graph.nodes", "self._graph"):
        nd = norm(lp[0].target)
        b = pall([f"$label = self._refined_label({nd})", "if $label not in $pal:\n    $pal[$label] = $next\n    $next += 1", f"$c = $pal[$label]", f"$new[{nd}] = $c"], lp[0]) \
            or pall([f"$label = self._refined_label({nd})", "if $label not in $pal:\n    $pal[$label] = $next\n    $next += 1", f"$new[{nd}] = $pal[$label]"], lp[0]) \
            or pall([f"$new[{nd}] = $pal.setdefault(self._refined_label({nd}), len($pal))"], lp[0]) \
            or pall([f"$label = self._refined_label({nd})", f"$new[{nd}] = $pal.setdefault($label, len($pal))"], lp[0])
        rr = returns_of(ro.node)
        ok = b is not None and bool(rr) and isinstance(rr[-1].value, ast.Tuple) and (b["new"] == norm(rr[-1].value.elts[0]) or any(d_.kind == "assign" and d_.value is not None and norm(d_.value) == b["new"]
                                                                          for d_ in local_defs(ro.node).get(norm(rr[-1].value.elts[0]), [])))
        if b is None:
            # not one of the palette idioms: wrong only on positive evidence - a colour store that does not go through a palette keyed by the label
            stores_ = [n_ for n_ in walk_local(lp[0]) if isinstance(n_, ast.Assign) and isinstance(n_.targets[0], ast.Subscript) and norm(n_.targets[0].slice) == nd]
            pal_ok = [n_ for n_ in stores_ if any(isinstance(x, ast.Subscript) and isinstance(x.ctx, ast.Load) for x in ast.walk(n_.value))
                      or any(isinstance(x, ast.Call) and call_name(x) in ("setdefault", "get") for x in ast.walk(n_.value)) or isinstance(n_.value, ast.Name)]
            ok = None if (stores_ and len(pal_ok) == len(stores_)) else False
    rep.ob("O11.2", "R12", ro, ok, lp[0].iter if lp else "for", "colours are assigned per distinct label: equal labels get equal colours in one sweep")
    bo = rep.f(AE, "AutoEst._build_orbits")
    b = pall(["for $n, $c in self._colors.items():\n    $m.setdefault($c, []).append($n)", "$orbs = [frozenset($v) for $v in $m.values()]"], bo.node)
    ok = b is not None and any(isinstance(n, ast.Assign) and norm(n.targets[0]) == "self._orbits" and b["orbs"] in {x.id for x in ast.walk(n.value) if isinstance(x, ast.Name)}
                               for n in walk_local(bo.node))
    rep.ob("O11.2", "R12", bo, ok, "orbits = colour classes", "estimated orbits are exactly the final colour classes")
    ft = rep.f(AE, "AutoEst.fit")
    from ..cfg import CFG, ENTRY, EXIT
    cfg = CFG(ft.node)
    steps = {}
    for c in walk_local(ft.node):
        if isinstance(c, ast.Call) and norm(c.func) in ("self._initialize_colors", "self._refine_colors", "self._build_orbits"):
            steps.setdefault(call_name(c), []).append(cfg.stmt_of(c))
    okf = set(steps) == {"_initialize_colors", "_refine_colors", "_build_orbits"} and all(len(v) == 1 and v[0] is not None for v in steps.values())
    if okf:
        a, b_, c_ = steps["_initialize_colors"][0], steps["_refine_colors"][0], steps["_build_orbits"][0]
        # every run of fit() goes through all three, in this order: colours are always computed from THIS graph
        okf = all(cfg.all_paths_pass(ENTRY, r, [a]) and cfg.all_paths_pass(ENTRY, r, [b_]) and cfg.all_paths_pass(ENTRY, r, [c_]) for r in returns_of(ft.node)) \
            and cfg.all_paths_pass(ENTRY, b_, [a]) and cfg.all_paths_pass(ENTRY, c_, [b_])
    rep.ob("O11.2", "R12", ft, okf, sorted(steps), "every run of fit() computes initial colours, refines them and builds the colour classes, in this order, from this graph "
           "(a path that skips the computation - e.g. a memo hit - hands out colours that belong to another graph)")


def dedup(rep):
    fi = rep.f(DD, "deduplicate_matches_with_anchor")
    pm = parent_map(fi.node)
    # last-wins idioms: {key(m): m for m in matches} / d[key] = m without a "not seen yet" guard keep the LAST match of every class in the
    # position of the first - the result is no longer a sub-list of the input in its original order
    last_wins = []
    for n in walk_local(fi.node):
        if isinstance(n, ast.DictComp) and len(n.generators) == 1 and norm(n.generators[0].iter) == fi.params[0] and norm(n.value) == norm(n.generators[0].target):
            last_wins.append(n)
    for l_ in [l for l in walk_local(fi.node) if isinstance(l, ast.For) and norm(l.iter) == fi.params[0]]:
        for st_ in walk_local(l_):
            if isinstance(st_, ast.Assign) and isinstance(st_.targets[0], ast.Subscript) and norm(st_.value) == norm(l_.target) \
                    and not any(isinstance(t_, ast.Compare) and isinstance(t_.ops[0], (ast.In, ast.NotIn)) for t_, s_ in guards_of(pm, st_, l_, early=True)):
                last_wins.append(st_)
    if last_wins:
        rep.ob("O11.3", "R7", fi, False, alpha(last_wins[0], fi.node), "a match is dropped only if an earlier match had the same signature (first occurrence kept): "
               "a mapping keyed by the signature and overwritten by every later match keeps the last one instead", node=last_wins[0])
    loops = [l for l in walk_local(fi.node) if isinstance(l, ast.For) and norm(l.iter) == fi.params[0]]
    rep.need("R7", len(loops), 1, "scan loop in deduplicate_matches_with_anchor")
    lp = loops[0]
    m = norm(lp.target)
    rets = returns_of(fi.node)
    res = norm(rets[-1].value) if rets else None
    muts = [c for c in walk_local(fi.node) if isinstance(c, ast.Call) and isinstance(c.func, ast.Attribute) and norm(c.func.value) == res
            and c.func.attr in ("append", "insert", "extend", "sort", "reverse", "pop", "remove")]
    rebinds = [d_ for d_ in local_defs(fi.node).get(res or "", []) if not (d_.kind == "assign" and isinstance(d_.value, ast.List) and not d_.value.elts)]
    ok = len(muts) == 1 and muts[0].func.attr == "append" and norm(muts[0].args[0]) == m and not rebinds
    rep.ob("O11.3", "R7", fi, ok, [norm(c) for c in muts], "the result is built only by appending the scanned match itself (sub-list, original order, same objects)")
    conts = [n for n in walk_local(lp) if isinstance(n, (ast.Continue, ast.Break))]
    ok = False
    seen = sig = None
    if len(conts) == 1 and isinstance(conts[0], ast.Continue):
        gs = guards_of(pm, conts[0], lp)
        if len(gs) == 1 and gs[0][1]:
            mm = pmatch("$sig in $seen", gs[0][0])
            if mm:
                seen, sig = mm["seen"], mm["sig"]
                ok = True
            else:
                # dictionary form: first = seen.get(sig) ; if first is not None: continue   (the stored values are positions, never None)
                mg = pmatch("$f is not None", gs[0][0])
                fsrc = origin(local_defs(lp), ast.Name(id=mg["f"], ctx=ast.Load())) if mg else None
                mm2 = pmatch("$seen.get($sig)", fsrc) if fsrc is not None else None
                if mm2:
                    seen, sig = mm2["seen"], mm2["sig"]
                    ok = True
    rep.ob("O11.3", "R7", fi, ok, [type(c).__name__ for c in conts], "a match is dropped only if an earlier match had the same signature (first occurrence kept)")
    adds = [c for c in walk_local(lp) if seen and isinstance(c, ast.Call) and pmatch(f"{seen}.add({sig})", c) is not None]
    adds += [st_ for st_ in walk_local(lp) if seen and isinstance(st_, ast.Assign) and pmatch(f"{seen}[{sig}] = $$v", st_) is not None
             and not is_const(st_.value, None)]
    rep.ob("O11.3", "R7", fi, len(adds) == 1, adds[0] if adds else "seen.add(sig)", "each kept signature is remembered")
    ok = bool(rets) and isinstance(rets[-1].value, ast.Name) and any(norm(r.value) == f"list({fi.params[0]})" for r in rets[:-1])
    rep.ob("O11.3", "R7", fi, ok, [norm(r.value) for r in rets], "without orbit information the input is returned unchanged; otherwise the filtered list")
    # no re-ordering helpers on the matches themselves
    srt = [c for c in walk_local(fi.node) if isinstance(c, ast.Call) and isinstance(c.func, ast.Name) and c.func.id in ("sorted", "reversed") and fi.params[0] in norm(c)]
    rep.ob("O11.3", "R7", fi, not srt, srt[0] if srt else "no sorted(matches)", "the matches are never re-ordered")
    # mapping objects are not modified
    muts_m = [n for n in walk_local(lp) if (isinstance(n, ast.Assign) and any(isinstance(t, ast.Subscript) and norm(t.value) == m for t in n.targets))
              or (isinstance(n, ast.Call) and isinstance(n.func, ast.Attribute) and norm(n.func.value) == m and n.func.attr in ("pop", "update", "clear", "setdefault"))]
    rep.ob("O11.3", "R7", fi, not muts_m, muts_m[0] if muts_m else "no write to m", "matches are not modified")


def consistency(rep):
    fi = rep.f(SR, "SynReactor.mappings")
    calls = {}
    for c in walk_local(fi.node):
        if isinstance(c, ast.Call):
            if call_name(c) == "find_subgraph_mappings":
                calls["match"] = norm(kwarg(c, "pattern") or ast.Constant(None))
            if call_name(c) == "PartialMatcher":
                calls["partial"] = norm(kwarg(c, "pattern") or ast.Constant(None))
            if call_name(c) == "Automorphism" and c.args:
                calls["exact"] = norm(c.args[0])
            if call_name(c) == "AutoEst" and c.args:
                calls["est"] = norm(c.args[0])
    rep.ob("O11.4", "SRC", fi, len(set(calls.values())) == 1 and len(calls) == 4, calls, "orbits/anchor are computed on exactly the pattern graph that is matched")
    # no re-binding of that name between the matcher call and the orbit computation
    name = list(calls.values())[0] if calls else "pattern_graph"
    assigns = sorted(n.lineno for n in walk_local(fi.node) if isinstance(n, ast.Assign) and any(norm(t) == name for t in n.targets))
    uses = sorted(c.lineno for c in walk_local(fi.node) if isinstance(c, ast.Call) and call_name(c) in ("find_subgraph_mappings", "PartialMatcher", "Automorphism", "AutoEst"))
    rep.ob("O11.4", "SRC", fi, bool(uses) and all(a < uses[0] for a in assigns), f"assignments at {assigns}, uses at {uses}", "the pattern graph is not re-bound between matching and pruning")
    # which analysis prunes is the caller's choice (`automorphism`, default False): the exact orbits use fewer labels and no anchor for a connected
    # pattern, so switching to them by any other criterion (pattern size, ...) changes which matches are merged
    from ..rules import provenance as PV
    pm_c = parent_map(fi.node)
    cdefs = local_defs(fi.node)
    for c in [c for c in walk_local(fi.node) if isinstance(c, ast.Call) and call_name(c) == "Automorphism"]:
        gs = [(t, sn) for t, sn in guards_of(pm_c, c, fi.node) if sn]
        flags = []
        def _conjuncts(e, depth=4):
            """conjuncts of a test, through single-assigned flags and bool(..)"""
            if depth <= 0:
                return [e]
            if isinstance(e, ast.Name) and len(cdefs.get(e.id, [])) == 1 and cdefs[e.id][0].kind == "assign" and cdefs[e.id][0].value is not None:
                return _conjuncts(cdefs[e.id][0].value, depth - 1)
            if isinstance(e, ast.Call) and isinstance(e.func, ast.Name) and e.func.id == "bool" and len(e.args) == 1:
                return _conjuncts(e.args[0], depth - 1)
            if isinstance(e, ast.BoolOp) and isinstance(e.op, ast.And):
                return [x for v in e.values for x in _conjuncts(v, depth - 1)]
            return [e]
        for t, sn in gs:
            for conj in _conjuncts(t):
                roots = PV.all_roots(cdefs, conj)
                if any(norm(r) == "self.automorphism" for r in roots):
                    flags.append((conj, roots))
        okf = bool(flags) and all(all(norm(r) == "self.automorphism" or (isinstance(r, ast.Constant) and r.value is None) for r in roots) for _, roots in flags)
        rep.ob("O11.4", "SRC", fi, okf if flags else None, flags[0][0] if flags else c, "the exact-orbit pruning is used exactly when the caller asked for it (`automorphism`), "
               "not by a criterion of its own" + ("" if okf or not flags else f" (also decided by `{[norm(r)[:50] for r in flags[0][1] if norm(r) != 'self.automorphism'][0]}`)"), node=c)
    d_auto = default_of(fi, "automorphism") if "automorphism" in fi.params else None
    dd = [c for c in walk_local(fi.node) if isinstance(c, ast.Call) and call_name(c) == "deduplicate_matches_with_anchor"]
    rep.need("SRC", len(dd), 1, "deduplicate calls in mappings")
    fdefs = local_defs(fi.node)
    for c in dd:
        ok = False
        a0 = c.args[0] if c.args else None
        po, pa = kwarg(c, "pattern_orbits"), kwarg(c, "pattern_anchor")
        mo, ma = pmatch("$a.orbits", po), pmatch("$a.anchor_component", pa)
        if isinstance(a0, ast.Name) and mo and ma and mo["a"] == ma["a"]:
            def _producers(name, depth=4):
                """names of the calls that can produce the value of a local (through aliases, result variables of substituted helpers, conditional expressions)"""
                out_, unknown = [], False
                for d_ in fdefs.get(name, []):
                    if d_.kind != "assign" or d_.value is None:
                        unknown = True
                        continue
                    for leaf in if_leaves(d_.value):
                        if isinstance(leaf, ast.Call):
                            out_.append(call_name(leaf))
                        elif isinstance(leaf, ast.Name) and depth > 0 and leaf.id != name:
                            sub_, unk_ = _producers(leaf.id, depth - 1)
                            out_ += sub_
                            unknown = unknown or unk_
                        else:
                            unknown = True
                return out_, unknown
            raw_src, raw_unknown = _producers(a0.id)
            def _ctor(e):
                # Automorphism(g) / AutoEst(g, ...) / AutoEst(g, ...).fit(), possibly as alternatives of a conditional expression
                out_ = []
                for leaf in if_leaves(e):
                    if isinstance(leaf, ast.Call) and call_name(leaf) == "fit" and isinstance(leaf.func, ast.Attribute) and isinstance(leaf.func.value, ast.Call):
                        leaf = leaf.func.value
                    out_.append(call_name(leaf) if isinstance(leaf, ast.Call) else "?")
                return out_
            an_src = [n_ for d_ in fdefs.get(mo["a"], []) if d_.kind == "assign" and d_.value is not None for n_ in _ctor(d_.value)]
            ok = bool(raw_src) and set(raw_src) <= {"get_mappings", "find_subgraph_mappings"} and not raw_unknown \
                and bool(an_src) and set(an_src) <= {"Automorphism", "AutoEst"}
        rep.ob("O11.4", "SRC", fi, ok, c, "pruning receives the raw matches with the orbits and anchor of the same analysis object", node=c)
    srt = [c for c in walk_local(fi.node) if isinstance(c, ast.Call) and ((isinstance(c.func, ast.Name) and c.func.id == "sorted") or call_name(c) == "sort")]
    rep.ob("O11.4", "SRC", fi, not srt, srt[0] if srt else "no sort", "the list of matches is not re-sorted")
    ae = [c for c in walk_local(fi.node) if isinstance(c, ast.Call) and call_name(c) == "AutoEst"]
    if ae:
        from ..absval import Undecided, eval_expr, module_constants
        consts = module_constants(fi.module.tree)
        if fi.cls is not None:
            for st in fi.cls.body:  # class-level constants
                if isinstance(st, ast.Assign) and isinstance(st.targets[0], ast.Name):
                    try:
                        consts[st.targets[0].id] = eval_expr(st.value, {})
                    except Undecided:
                        pass
        vals = {}
        for kw in ("node_attrs", "edge_attrs"):
            v = kwarg(ae[0], kw)
            try:
                env = dict(consts)
                env.update({f"self.{k}": x for k, x in consts.items()})
                env.update({f"SynReactor.{k}": x for k, x in consts.items()})
                vals[kw] = set(eval_expr(origin(local_defs(fi.node), v), env)) if v is not None else set()
            except (Undecided, TypeError):
                vals[kw] = None
        need_n, need_e = {"element", "charge", "aromatic", "hcount"}, {"order"}
        ok = None if (vals["node_attrs"] is None or vals["edge_attrs"] is None) else (need_n <= vals["node_attrs"] and need_e <= vals["edge_attrs"])
        rep.ob("O11.4", "SRC", fi, ok, f"node_attrs={sorted(vals['node_attrs']) if vals['node_attrs'] is not None else '?'} edge_attrs={sorted(vals['edge_attrs']) if vals['edge_attrs'] is not None else '?'}",
               "the orbit estimate must tell apart every atom label the rule tells apart (element, charge, aromaticity, hydrogen count; bond order): "
               "atoms merged into one orbit although the rule treats them differently make the pruning drop inequivalent matches", node=ae[0])


def anchor_selection(rep, oid):
    n = 0
    for rel, q in PATH:
        fi = rep.f(rel, q)
        for node, kind, tie, txt in selections(fi):
            n += 1
            ok = tie == "total"
            what = {"id": "among equally large candidates the choice falls to the smallest node id: results depend on the numbering of the template",
                    "iteration-order": "ties fall to container iteration order (node insertion order): results depend on how the template is written",
                    "total": "the selection is decided by a numbering-independent key"}[tie]
            rep.ob(oid, "R11", fi, ok, txt[:140], what, {"tie_break": tie}, node=node)
    rep.need("R11", n, 2, "selections on the pruning path")


MUTANTS = [
    dict(name="subgraph enumeration instead of isomorphisms", file=AM, expect="O11.1", old="        for auto in gm.isomorphisms_iter():", new="        for auto in gm.subgraph_isomorphisms_iter():"),
    dict(name="identity not counted", file=AM, expect="O11.1",
         old="        for auto in gm.isomorphisms_iter():\n            n_aut += 1", new="        for auto in gm.isomorphisms_iter():\n            if all(u == v for u, v in auto.items()):\n                continue\n            n_aut += 1"),
    dict(name="one-sided orbit union", file=AM, expect="O11.1", old="                orbit_sets[u].add(v)\n                orbit_sets[v].add(u)", new="                orbit_sets[u].add(v)"),
    dict(name="component counts added instead of multiplied", file=AM, expect="O11.1", old="            total_aut *= int(n_aut)", new="            total_aut += int(n_aut)"),
    dict(name="matcher ignores bond labels", file=AM, expect="O11.1",
         old="            edge_match=categorical_edge_match(self._ekeys, self._edge_defaults()),", new="            edge_match=None,"),
    dict(name="refined label contains the node id", file=AE, expect="O11.2", old="        return (base, tuple(sigs))", new="        return (base, node, tuple(sigs))"),
    dict(name="neighbour signatures not sorted", file=AE, expect="O11.2", old="        sigs.sort()\n", new=""),
    dict(name="dedup reorders (insert at front)", file=DD, expect="O11.3", old="        unique.append(m)\n", new="        unique.insert(0, m)\n"),
    dict(name="dedup keeps the last occurrence", file=DD, expect="O11.3",
         old="        if sig in seen:\n            continue\n\n        seen.add(sig)\n        unique.append(m)", new="        if sig in seen:\n            unique.pop()\n\n        seen.add(sig)\n        unique.append(m)"),
    dict(name="dedup returns normalised copies", file=DD, expect="O11.3", old="        unique.append(m)\n", new="        unique.append(dict(sorted(m.items())))\n"),
    dict(name="orbits of the unprepared left graph", file=SR, expect="O11.4",
         old="                auto = AutoEst(\n                    pattern_graph,", new="                auto = AutoEst(\n                    self.rule.left.raw,"),
    dict(name="third id-ordered choice on the pruning path", file=DD, expect="O11.5",
         old="    anchored_nodes = tuple(sorted(pattern_anchor))", new="    anchored_nodes = tuple(sorted(pattern_anchor))\n    free_orbits = free_orbits[:1] + [min(free_orbits[1:])] if len(free_orbits) > 2 else free_orbits"),
    dict(name="estimate blind to charge", file=SR, expect="O11.4",
         old='                    node_attrs=["element", "charge", "aromatic", "hcount"],\n                    edge_attrs=["order"],\n                )\n                auto.fit()',
         new='                    node_attrs=["element", "aromatic", "hcount"],\n                    edge_attrs=["order"],\n                )\n                auto.fit()'),
]

TWINS = [
    dict(name="symmetric union written with update", file=AM,
         old="                orbit_sets[u].add(v)\n                orbit_sets[v].add(u)", new="                orbit_sets[v].add(u)\n                orbit_sets[u].add(v)"),
    dict(name="sigs sorted via sorted()", file=AE, old="        sigs.sort()\n        return (base, tuple(sigs))", new="        return (base, tuple(sorted(sigs)))"),
]


# ------------------------------------------------------------------ the de-duplication key
def dedup_key(rep):
    """Two matches may be merged only if they differ by a permutation inside pattern orbits.  The key therefore has to record, for
    every pattern node of a match, WHICH orbit (or which anchored node) it belongs to and where it went: (anchored node, image) pairs,
    and per free orbit (its present nodes, sorted images).  A key that forgets the orbit's identity, or skips some orbits, merges
    inequivalent matches and loses reactions."""
    pp = rep.f(DD, "_prepare_pattern_orbits")
    PO, PA = pp.params[0], pp.params[1]
    defs = local_defs(pp.node)
    rets = [r for r in returns_of(pp.node) if isinstance(r.value, ast.Tuple) and len(r.value.elts) == 2 and not (isinstance(r.value.elts[0], ast.List) and not r.value.elts[0].elts)]
    rep.need("R7", len(rets), 1, "return (free_orbits, anchored_nodes) in _prepare_pattern_orbits")
    free, anch = rets[0].value.elts
    fsrc = origin(defs, free)
    ok = False
    if isinstance(fsrc, ast.ListComp) and len(fsrc.generators) == 1:
        g = fsrc.generators[0]
        o = norm(g.target)
        base = origin(defs, g.iter)
        base_ok = pmatch(f"[tuple(sorted($o)) for $o in {PO}]", base) is not None or norm(base) == PO
        only_disjoint = len(g.ifs) == 1 and (pmatch(f"not set({o}) & {PA}", g.ifs[0]) is not None or pmatch(f"not {PA} & set({o})", g.ifs[0]) is not None
                                             or pmatch(f"set({o}).isdisjoint({PA})", g.ifs[0]) is not None)
        ok = base_ok and only_disjoint and norm(fsrc.elt) == o
    rep.ob("O11.3", "R7", pp, ok, alpha(fsrc, pp.node), "the free orbits are ALL pattern orbits disjoint from the anchor (no further filter: a dropped orbit's images vanish from the key)")
    asrc = origin(defs, anch)
    rep.ob("O11.3", "R7", pp, pmatch(f"tuple(sorted({PA}))", asrc) is not None, alpha(asrc, pp.node), "every anchored pattern node is pinned individually")
    fs = rep.f(DD, "_free_sig_from_pattern_orbits")
    M_, FO, HR = fs.params
    fdefs = local_defs(fs.node)
    pm = parent_map(fs.node)
    loops = [l for l in walk_local(fs.node) if isinstance(l, ast.For) and norm(l.iter) == FO]
    rep.need("R7", len(loops), 1, "loop over the free orbits")
    lp = loops[0]
    orb = norm(lp.target)
    apps = [(n, b) for n, b in pfind("$parts.append(($$ident, $$image))", lp)]
    rep.need("R7", len(apps), 1, "<parts>.append((orbit identity, images))")
    n0, b0 = apps[0]
    e_ident, e_image = n0.args[0].elts
    ldefs = local_defs(lp)
    isrc = origin(ldefs, e_ident)
    fsd = local_defs(fs.node)

    def _keys_of_match(k):
        """is k the match itself or its key set?"""
        t = norm(origin(fsd, k))
        return t in (M_, f"set({M_}.keys())", f"set({M_})", f"{M_}.keys()", f"frozenset({M_})", f"frozenset({M_}.keys())")

    def _present(e, depth=0):
        """is e the collection of this orbit's nodes that occur in the match (possibly sorted / turned into a tuple)?"""
        if depth > 6:
            return False
        if isinstance(e, ast.Name):
            if e.id == orb:
                return True
            return any(d_.kind == "assign" and d_.value is not None and _present(d_.value, depth + 1) for d_ in ldefs.get(e.id, []))
        if isinstance(e, ast.Call) and isinstance(e.func, ast.Name) and e.func.id in ("tuple", "sorted", "list", "frozenset") and len(e.args) == 1:
            return _present(e.args[0], depth + 1)
        if isinstance(e, (ast.ListComp, ast.GeneratorExp, ast.SetComp)) and len(e.generators) == 1:
            g = e.generators[0]
            return norm(e.elt) == norm(g.target) and norm(g.iter) == orb and len(g.ifs) == 1 and isinstance(g.ifs[0], ast.Compare) \
                and isinstance(g.ifs[0].ops[0], ast.In) and norm(g.ifs[0].left) == norm(g.target) and _keys_of_match(g.ifs[0].comparators[0])
        return False
    rep.ob("O11.3", "R7", fs, _present(e_ident), alpha(isrc, fs.node),
           "each part of the key names the orbit's own pattern nodes (not just how many there are): equally large orbits must not become interchangeable")
    imsrc = origin(ldefs, e_image)
    im = pmatch(f"tuple(sorted(({HR}({M_}[$p]) for $p in $$src)))", imsrc)
    okim = False
    if im is not None:
        src_node = imsrc.args[0].args[0].generators[0].iter
        okim = _present(src_node)
    rep.ob("O11.3", "R7", fs, okim, alpha(imsrc, fs.node), "and the images of exactly those nodes, as a multiset (permutations inside the orbit are the only thing forgotten)")
    skips = [x for x in walk_local(lp) if isinstance(x, (ast.Continue, ast.Break))]
    oks = all(isinstance(x, ast.Continue) and len(guards_of(pm, x, lp)) == 1 and not guards_of(pm, x, lp)[0][1] and _present(guards_of(pm, x, lp)[0][0]) for x in skips)
    rep.ob("O11.3", "R7", fs, oks, [type(x).__name__ for x in skips], "an orbit is skipped only when none of its nodes occurs in the (partial) match")
    rets = [r for r in returns_of(fs.node) if not (isinstance(r.value, ast.Tuple) and not r.value.elts)]
    okr = len(rets) == 1 and (pmatch(f"tuple({b0['parts']})", rets[0].value) is not None or pmatch(f"tuple(sorted({b0['parts']}))", rets[0].value) is not None)
    rep.ob("O11.3", "R7", fs, okr, rets[0] if rets else "return", "the key lists every part")
    an = rep.f(DD, "_anchor_sig")
    AM_, AN = an.params
    rets = [r for r in returns_of(an.node) if not (isinstance(r.value, ast.Tuple) and not r.value.elts)]
    oka = False
    if len(rets) == 1:
        m = pmatch(f"tuple((($p, {AM_}[$p]) for $p in $src))", rets[0].value)
        if m:
            s_ = origin(local_defs(an.node), ast.Name(id=m["src"], ctx=ast.Load()))
            oka = pmatch(f"[$x for $x in {AN} if $x in {AM_}]", s_) is not None or m["src"] == AN
    rep.ob("O11.3", "R7", an, oka, rets[0] if rets else "return", "anchored nodes contribute their exact (node, image) pairs")
    # the key used by the filter is (free part, anchor part) of THIS match
    fi = rep.f(DD, "deduplicate_matches_with_anchor")
    loops = [l for l in walk_local(fi.node) if isinstance(l, ast.For) and norm(l.iter) == fi.params[0]]
    if loops:
        mv = norm(loops[0].target)
        b = pall(["$sig = ($$free, $$anc)", "$seen.add($sig)"], loops[0]) or pall(["$sig = ($$free, $$anc)", "$seen[$sig] = $$pos"], loops[0])
        okk = False
        if b is not None:
            ld_ = local_defs(loops[0])
            sig_stmt = [n for n, _b in pfind("$sig = ($$free, $$anc)", loops[0], {"sig": b["sig"]})][0]
            e_free, e_anc = sig_stmt.value.elts
            am = pmatch(f"_anchor_sig({mv}, $an)", origin(ld_, e_anc))
            # the free part: _free_sig_from_pattern_orbits(m, free orbits, host repr), possibly as one alternative of a conditional (host-only fallback)
            fsrcs = [e_free] if not isinstance(e_free, ast.Name) else [d_.value for d_ in ld_.get(e_free.id, []) if d_.value is not None]
            for fsrc in fsrcs:
                for leaf in if_leaves(fsrc):
                    mm = pmatch(f"_free_sig_from_pattern_orbits({mv}, $fo, $hr)", leaf)
                    if mm is None and isinstance(leaf, ast.Call) and isinstance(leaf.func, ast.Name) and len(leaf.args) == 1 and norm(leaf.args[0]) == mv:
                        # a local closure chosen before the loop: look at what its definitions return
                        for fdef in [n for n in ast.walk(fi.node) if isinstance(n, ast.FunctionDef) and n.name == leaf.func.id and len(n.args.args) == 1]:
                            for r_ in [x for x in ast.walk(fdef) if isinstance(x, ast.Return) and x.value is not None]:
                                mm = mm or pmatch(f"_free_sig_from_pattern_orbits({fdef.args.args[0].arg}, $fo, $hr)", r_.value)
                    if mm and am:
                        b.update(mm)
                        b.update(am)
                        okk = True
        if okk:
            d2 = local_defs(fi.node)
            up = {x.index: nm for nm, xs in d2.items() for x in xs if x.index is not None and isinstance(x.value, ast.Call) and call_name(x.value) == "_prepare_pattern_orbits"}
            okk = up.get((0,)) == b["fo"] and up.get((1,)) == b["an"]
        rep.ob("O11.3", "R7", fi, okk, "sig = (free signature, anchor signature)", "the key of a match combines its free-orbit part and its anchor part, built from the prepared orbits")
