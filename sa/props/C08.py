"""C08 - graph canonicalisation is faithful and sound; the exact back-end is invariant."""
from __future__ import annotations

import ast

from ..core import (AnalysisError, call_name, const, module_const, dotted, is_const, kwarg, local_defs, norm, origin,
                    parent_map, walk_local)
from ..facts import default_of, guards_of, returns_of, enclosing_loops
from ..rules import canon as C
from ..rules.label import analyse as label_analyse
from ..pattern import pmatch, pfind
from ..rules.memo import local_memo_sites
from ..rules.unionfind import check_merge
from ..rules.label import _total_key

TWINS_FILES = ["synkit/Graph/canon_graph.py", "synkit/Graph/Canon/canon_graph.py"]
NA = "synkit/Graph/Canon/nauty.py"
ALG = "synkit/Graph/Canon/canon_algs.py"
SG = "synkit/Graph/syn_graph.py"
SRL = "synkit/Rule/syn_rule.py"
GC = "GraphCanonicaliser."
N = "NautyCanonicalizer."

META = {
    "explanation": (
        "R14 relabelling bijection at every back-end (generic, wl, morgan, nauty; both canon_graph twins): the "
        "numbering source is classified in a small order domain (sorted(nodes) / flatten of a discrete partition / "
        "dict.fromkeys(...) are duplicate-free and covering; prefix + flatten is a proven duplicate), numbers are "
        "position + 1, and the rebuild carries the unfiltered attribute dict of every node and edge. R4 digest "
        "determinism of _serialise: the node sort key must include every field the text prints (the node id is the "
        "final tie-breaker) and undirected edge end points are printed in normalised order; coverage: every node and "
        "edge contributes id + key to the digest text. R12/R16/R1 on the exact back-end: id-free, sorted refinement "
        "signatures and labels, exhaustive individualisation-refinement search whose only pruning is justified by a "
        "strict lower bound (partial label), per-round signature cache. Value objects compare and hash on the same "
        "signature field."
    ),
    "rules": {"R14": "relabelling bijection onto 1..N + full attribute carry-over", "R4": "digest determinism (total, id-covering sort keys; normalised end points)",
              "COVER": "digest text covers ids and keys of all nodes and edges", "R12": "invariant-label rule", "R16": "exhaustive IR search shape / pruning bound",
              "R1": "memo-key rule (per-round cache)", "EQHASH": "__eq__/__hash__ read the same signature field"},
    "not_decided": "that equal signatures imply isomorphism for the WL/Morgan back-ends beyond the coverage argument; SHA collisions",
    "trusted_base": ["CPython ast", "sa/* analyser", "nx.relabel_nodes(copy=True) keeps all attributes", "sorted() is stable and total on tuples of comparable fields"],
    "assumptions": ["node ids of one graph are mutually comparable (integers in all producers of this package)"],
}


def run(rep):
    for rel in TWINS_FILES:
        rep.run(relabel_generic, rel)
        rep.run(relabel_wl, rel)
        rep.run(serialise, rel)
        rep.run(value_object, rel, "CanonicalGraph")
        rep.run(value_object, rel, "CanonicalRule")
        rep.run(dispatch, rel)
    rep.run(no_salted_hash)
    rep.run(relabel_morgan)
    rep.run(nauty)
    rep.run(value_object, SG, "SynGraph")
    rep.run(value_object, SRL, "SynRule")


# ------------------------------------------------------------------ O8.1
def _names(fi):
    """(rebuilt graph variable, numbering variable): `<G2> = type(g)()` and `<mapping> = {old: i + 1 for ...}`"""
    g2 = [b["x"] for n, b in pfind("$x = type(g)()", fi.node, into_nested=False)]
    mp = None
    pm = parent_map(fi.node)
    for dc, src in C.mapping_sites(fi):
        par = pm.get(dc)
        if isinstance(par, (ast.Assign, ast.AnnAssign)):
            t = par.targets[0] if isinstance(par, ast.Assign) else par.target
            if isinstance(t, ast.Name):
                mp = t.id
    return (g2[0] if len(g2) == 1 else None), mp


def _rebuild(rep, fi):
    """G2.add_node(mapping[x], **full_dict) and G2.add_edge(mapping[u], mapping[v], **full_dict)"""
    pm = parent_map(fi.node)
    defs = local_defs(fi.node)
    G2, mapping_name = _names(fi)
    fresh = True if G2 is not None else None
    if G2 is None:
        # the graph that is rebuilt is the receiver of the add_node calls: built by something else than type(g)() -> violated; no rebuild visible -> not decided
        recv = {norm(c.func.value) for c in walk_local(fi.node) if isinstance(c, ast.Call) and isinstance(c.func, ast.Attribute) and c.func.attr == "add_node"}
        if len(recv) == 1:
            src_ = origin(defs, ast.Name(id=recv.pop(), ctx=ast.Load()))
            fresh = False if isinstance(src_, ast.Call) else None
    rep.ob("O8.1", "R14", fi, fresh, f"{G2} = type(g)()", "the canonical graph is a fresh graph of the class of the input", node=fi.node)
    if G2 is None or mapping_name is None:
        return
    for meth, n_ids in (("add_node", 1), ("add_edge", 2)):
        calls = [c for c in walk_local(fi.node) if isinstance(c, ast.Call) and call_name(c) == meth and norm(c.func.value) == G2]
        if len(calls) != 1:
            rep.ob("O8.1", "R14", fi, None if calls else False, f"{G2}.{meth}", f"the canonical graph is rebuilt with one {meth} per {'node' if n_ids == 1 else 'edge'}", node=fi.node)
            continue
        c = calls[0]
        ids_ok = len(c.args) == n_ids and all(isinstance(a, ast.Subscript) and norm(a.value) == mapping_name for a in c.args)
        rep.ob("O8.1", "R14", fi, ids_ok, c.func, f"{meth}: identifiers are translated through the numbering", node=c)
        star = [k.value for k in c.keywords if k.arg is None]
        named = [k.arg for k in c.keywords if k.arg is not None]
        lp = enclosing_loops(pm, c, fi.node)
        full = False
        why = ""
        if len(star) == 1 and not named and lp:
            sv = star[0]
            it = origin(defs, lp[0].iter)
            itxt = norm(it).replace(" ", "")
            tgt_names = [norm(e) for e in (lp[0].target.elts if isinstance(lp[0].target, ast.Tuple) else [lp[0].target])]
            if isinstance(sv, ast.Name):
                # loop target member of g.nodes(data=True) / g.edges(data=True) (possibly sorted)
                full = sv.id == tgt_names[-1] and (f"g.{'nodes' if n_ids == 1 else 'edges'}(data=True)" in itxt)
                why = f"**{sv.id} from {itxt[:50]}"
                # the ids passed through the numbering are the other members of the same loop target
                full = full and [norm(a.slice) for a in c.args] == tgt_names[:n_ids]
            elif isinstance(sv, ast.Subscript):
                full = norm(sv.value) == "g.nodes" and norm(sv.slice) == norm(c.args[0].slice) and norm(sv.slice) == tgt_names[0]
                why = f"**{norm(sv)}"
        rep.ob("O8.1", "R14", fi, full, f"{meth}(..., {', '.join('**' + norm(s_) for s_ in star)}{''.join(', ' + n_ + '=' for n_ in named)})",
               f"every {'node' if n_ids == 1 else 'edge'} keeps its complete attribute dict ({why})", node=c)
        if lp:
            exits = [n for n in walk_local(lp[0]) if isinstance(n, (ast.Continue, ast.Break))]
            gs = guards_of(pm, c, lp[0])
            rep.ob("O8.1", "R14", fi, not exits and not gs, lp[0].iter, f"every {'node' if n_ids == 1 else 'edge'} is copied", node=lp[0])


def _order_key(fi):
    """sort key (Lambda) of the sequence that is numbered"""
    defs = local_defs(fi.node)
    ms = C.mapping_sites(fi)
    if not ms:
        return None, None
    order = origin(defs, ms[0][1])
    key = kwarg(order, "key") if isinstance(order, ast.Call) else None
    return order, key


def _mapping(rep, fi, want_offset=1, resolver=None):
    defs = local_defs(fi.node)
    ms = C.mapping_sites(fi)
    if len(ms) != 1:
        rep.ob("O8.1", "R14", fi, None, "mapping", "exactly one numbering comprehension expected", node=fi.node)
        return
    dc, src = ms[0]
    off = C.offset_of(dc)
    rep.ob("O8.1", "R14", fi, off == want_offset, dc.value, "numbers are position + 1 (onto 1..N)", {"offset": off}, node=dc)
    cls, why = C.classify_order(defs, src)
    if cls == "LOOKUP" and resolver:
        cls, why = resolver(why)
    # the key of the comprehension is the enumerated element (possibly the first member of a (node, data) pair)
    g = dc.generators[0]
    el = g.target.elts[1] if isinstance(g.target, ast.Tuple) and len(g.target.elts) == 2 else None
    key_ok = el is not None and (norm(dc.key) == norm(el) or (isinstance(el, ast.Tuple) and norm(dc.key) == norm(el.elts[0])))
    rep.ob("O8.1", "R14", fi, key_ok, dc, "each listed node receives the number of its own position", node=dc)
    ok = True if cls == "BIJECTIVE" else (False if cls == "DUPLICATE" else None)
    rep.ob("O8.1", "R14", fi, ok, f"order = {norm(origin(defs, src))[:70]}", "the numbered sequence lists every node exactly once (bijection onto 1..N)",
           {"class": cls, "why": why}, node=dc)


def relabel_generic(rep, rel):
    fi = rep.f(rel, GC + "_canon_generic")
    _mapping(rep, fi)
    _rebuild(rep, fi)


def relabel_wl(rep, rel):
    fi = rep.f(rel, GC + "_canon_wl")
    _mapping(rep, fi)
    _rebuild(rep, fi)
    defs = local_defs(fi.node)
    order, key = _order_key(fi)
    ok = isinstance(key, ast.Lambda) and isinstance(key.body, ast.Tuple) and norm(key.body.elts[-1]) == key.args.args[0].arg
    rep.ob("O8.2", "R4", fi, ok, key if key is not None else order, "the WL ordering is total: the node id is the final tie-breaker (result independent of insertion order)")
    # the seed label is written through the data dicts of a *copy*
    seeds = [n for n, b in pfind("$d['_wl_init'] = $$v", fi.node)]
    okc = False
    if seeds:
        from ..rules.nonmut import mutations
        okc = not mutations(rep.repo, fi, "g", depth=0)
    rep.ob("O8.1", "R14", fi, okc, seeds[0] if seeds else "_wl_init", "the temporary seed label is written to a copy, never to the caller's graph")


def relabel_morgan(rep):
    fi = rep.f(ALG, "canon_morgan")
    _mapping(rep, fi)
    _rebuild(rep, fi)
    order, key = _order_key(fi)
    if order is None:
        # the numbering step is not in this function (moved into a helper the rule cannot follow): look for the one sorted(.., key=lambda ..) over the nodes
        cands = [c for c in walk_local(fi.node) if isinstance(c, ast.Call) and norm(c.func) == "sorted" and kwarg(c, "key") is not None
                 and c.args and norm(c.args[0]) in ("g.nodes()", "g.nodes", "g", "labels", "labels.keys()")]
        if len(cands) == 1:
            order, key = cands[0], kwarg(cands[0], "key")
    ok = None if order is None else (isinstance(key, ast.Lambda) and isinstance(key.body, ast.Tuple) and norm(key.body.elts[-1]) == key.args.args[0].arg)
    rep.ob("O8.2", "R4", fi, ok, key if key is not None else (order if order is not None else "order"), "the Morgan ordering is total (node id as final tie-breaker)")


def origin_of_list(mi, node):
    """the literal an argument denotes: itself, or the module-level literal a Name is bound to"""
    if isinstance(node, ast.Name):
        for st in mi.tree.body:
            tg = st.targets[0] if isinstance(st, ast.Assign) and len(st.targets) == 1 else (st.target if isinstance(st, ast.AnnAssign) and st.value is not None else None)
            if isinstance(tg, ast.Name) and tg.id == node.id:
                return st.value
    return node


def dispatch(rep, rel):
    # the exact back-end is configured with the bond attribute(s) the signature covers: a LIST of names containing 'order'
    # (a bare string is iterated character by character by the back-end, which then ignores every bond label)
    init = rep.f(rel, GC + "__init__")
    ctor = [c for c in walk_local(init.node) if isinstance(c, ast.Call) and call_name(c) == "NautyCanonicalizer"]
    for c in ctor:
        ea = kwarg(c, "edge_attrs") or (c.args[1] if len(c.args) > 1 else None)
        ok = None
        val = None
        if ea is not None:
            try:
                val = module_const(init.module, ea)
                ok = isinstance(val, tuple) and "order" in val and all(isinstance(x, str) for x in val) and isinstance(origin_of_list(init.module, ea), (ast.List, ast.Tuple))
                if isinstance(val, str):
                    ok = False
            except ValueError:
                ok = None
        rep.ob("O8.4", "R12", init, ok, c, "the exact back-end compares bonds on a list of attribute names that contains 'order'", {"edge_attrs": repr(val)}, node=c)
    fi = rep.f(rel, GC + "_make_canonical_graph")
    pm = parent_map(fi.node)
    want = {"'generic'": "_canon_generic", "'wl'": "_canon_wl", "'nauty'": "_canon_nauty"}
    got = {}
    from ..rules import provenance as PV
    fdefs = local_defs(fi.node)
    ret_roots = [x for r in returns_of(fi.node) if r.value is not None for x in PV.all_roots(fdefs, r.value)]
    for c in [c for c in walk_local(fi.node) if isinstance(c, ast.Call) and (call_name(c) or "").startswith(("_canon_", "canon_"))]:
        if not any(c is x for x in ret_roots):
            continue   # not what is returned
        gs = [norm(t) for t, s in guards_of(pm, c, fi.node) if s]
        for g in gs:
            if g.startswith("self.backend == "):
                got[g.split("== ")[1]] = call_name(c)
    rep.ob("O8.1", "R14", fi, all(got.get(k) == v for k, v in want.items()), got, "each back-end name dispatches to its own canonicaliser")
    # what comes back is always the output of a back-end: the input graph itself is never handed back (whatever it claims to be - graph-level
    # attributes travel with copy(), relabel_nodes() and subgraph().copy(), so a mark on the graph says nothing about its current numbering)
    params = [p_ for p_ in fi.params if p_ != "self"]
    passthrough = [x for x in ret_roots if isinstance(x, ast.Name) and x.id in params]
    rep.ob("O8.1", "R14", fi, not passthrough, passthrough[0] if passthrough else f"{len(ret_roots)} returned values",
           "the canonical graph is computed from the graph given in this call on every path (the input is never returned as it came)")
    cs = rep.f(rel, GC + "canonical_signature")
    rets = returns_of(cs.node)
    ok = bool(rets) and norm(rets[-1].value) == "_digest(self._serialise(self._make_canonical_graph(graph)))"
    rep.ob("O8.3", "COVER", cs, ok, rets[-1] if rets else "return", "signature = digest(serialise(canonical graph))")
    dg = rep.f(rel, "_digest")
    rets = returns_of(dg.node)
    ok = bool(rets) and "hashlib.sha256(text.encode())" in norm(rets[-1].value)
    rep.ob("O8.2", "R4", dg, ok, rets[-1] if rets else "return", "the digest is a cryptographic hash of the text (no builtin hash(): independent of PYTHONHASHSEED)")
    hs = [c for c in walk_local(rep.f(rel, GC + "_serialise").node) if isinstance(c, ast.Call) and isinstance(c.func, ast.Name) and c.func.id == "hash"]
    rep.ob("O8.2", "R4", rep.f(rel, GC + "_serialise"), not hs, hs[0] if hs else "no hash()", "no process-dependent hash() enters the digest text")


# ------------------------------------------------------------------ O8.2 / O8.3
def serialise(rep, rel):
    fi = rep.f(rel, GC + "_serialise")
    defs = local_defs(fi.node)
    # discover the locals from the returned text: f"N[{<node part>}]|E[{<edge part>}]"
    rets0 = returns_of(fi.node)
    parts = [v.value for v in rets0[-1].value.values if isinstance(v, ast.FormattedValue)] if rets0 and isinstance(rets0[-1].value, ast.JoinedStr) else []
    lits = [v.value for v in rets0[-1].value.values if isinstance(v, ast.Constant)] if rets0 and isinstance(rets0[-1].value, ast.JoinedStr) else []
    if len(parts) != 2 or not all(isinstance(x, ast.Name) for x in parts):
        rep.ob("O8.3", "COVER", fi, False if (rets0 and len(parts) < 2) else None, rets0[-1] if rets0 else "return",
               "the text is the node part followed by the edge part (nothing dropped)")
        return
    ns_name, es_name = parts[0].id, parts[1].id
    ns = origin(defs, parts[0])
    es = origin(defs, parts[1])
    ngen = [g for g in ast.walk(ns) if isinstance(g, ast.comprehension)]
    egen = [g for g in ast.walk(es) if isinstance(g, ast.comprehension)]
    nodes_name = norm(ngen[0].iter) if ngen else "nodes"
    edges_name = norm(egen[0].iter) if egen else "edges"
    nodes = origin(defs, ast.Name(id=nodes_name, ctx=ast.Load()))
    edges = origin(defs, ast.Name(id=edges_name, ctx=ast.Load()))
    # (a) node order is total and covers the printed id
    key = kwarg(nodes, "key") if isinstance(nodes, ast.Call) else None
    ok = None
    facts = {}
    if isinstance(nodes, ast.Call) and call_name(nodes) == "sorted" and norm(nodes.args[0]).replace(" ", "") == "g.nodes(data=True)":
        if key is None:
            ok = True  # (id, data) pairs: id first
        elif isinstance(key, ast.Lambda):
            a = key.args.args[0].arg
            body = key.body
            elts = body.elts if isinstance(body, ast.Tuple) else [body]
            has_id = any(norm(e).replace(" ", "") == f"{a}[0]" for e in elts)
            has_key = any("self._node_key" in norm(e) for e in elts)
            facts = {"sort_key": norm(body), "orders_on_node_id": has_id, "orders_on_node_key": has_key}
            ok = has_id and has_key
    rep.ob("O8.2", "R4", fi, ok, key if key is not None else nodes,
           "the node sort key covers every field the text prints per node (key AND id): ties must not fall back to insertion order", facts)
    # (b) edge order: the edge key starts with normalised end points
    ekey = kwarg(edges, "key") if isinstance(edges, ast.Call) else None
    ok = isinstance(edges, ast.Call) and call_name(edges) == "sorted" and isinstance(ekey, ast.Lambda) and "self._edge_key(*" in norm(ekey.body)
    rep.ob("O8.2", "R4", fi, ok, ekey if ekey is not None else edges, "edges are sorted by the edge key")
    dk = rep.f(rel, "_default_edge_key")
    rets = returns_of(dk.node)
    ok = bool(rets) and isinstance(rets[-1].value, ast.Tuple) and norm(origin(local_defs(dk.node), rets[-1].value.elts[0])).replace(" ", "") == \
        f"tuple(sorted(({dk.params[0]},{dk.params[1]})))"
    rep.ob("O8.2", "R4", dk, ok, rets[-1] if rets else "return", "the default edge key orders on the end points in normalised (sorted) order")
    init = rep.f(rel, GC + "__init__")
    d = default_of(init, "edge_sort_key")
    d2 = default_of(init, "node_sort_key")
    rep.ob("O8.2", "R4", init, d is not None and norm(d) == "_default_edge_key" and d2 is not None and norm(d2) == "_default_node_key", "default sort keys", "the default keys are the module's own key functions")
    # (c) printed edge end points are normalised
    fv = [v for j in ast.walk(es) if isinstance(j, ast.JoinedStr) for v in j.values if isinstance(v, ast.FormattedValue)]
    raw = [v for v in fv if isinstance(v.value, ast.Tuple) and all(isinstance(e, ast.Name) for e in v.value.elts)]
    normed = [v for v in fv if "sorted(" in norm(v.value) or "frozenset(" in norm(v.value)]
    rep.ob("O8.2", "R4", fi, bool(normed) and not raw, fv[0].value if fv else es,
           "an undirected edge is printed with its end points in normalised order (the raw (u, v) orientation depends on insertion order)")
    # coverage
    gen = [g for g in ast.walk(es) if isinstance(g, ast.comprehension)]
    ok = bool(gen) and norm(gen[0].iter) == edges_name and not gen[0].ifs and any("self._edge_key(" in norm(v.value) for v in fv)
    rep.ob("O8.3", "COVER", fi, ok, es, "every edge contributes its end points and its key to the text")
    nfv = [v for j in ast.walk(ns) if isinstance(j, ast.JoinedStr) for v in j.values if isinstance(v, ast.FormattedValue)]
    gen = [g for g in ast.walk(ns) if isinstance(g, ast.comprehension)]
    tgt = norm(gen[0].target.elts[0]) if gen and isinstance(gen[0].target, ast.Tuple) else "?"
    ok = bool(gen) and norm(gen[0].iter) == nodes_name and not gen[0].ifs and any(norm(v.value) == tgt for v in nfv) and any("self._node_key(" in norm(v.value) for v in nfv)
    rep.ob("O8.3", "COVER", fi, ok, ns, "every node contributes its id and its key to the text")
    rets = returns_of(fi.node)
    vals = [norm(v.value) for v in rets[-1].value.values if isinstance(v, ast.FormattedValue)] if rets and isinstance(rets[-1].value, ast.JoinedStr) else []
    rep.ob("O8.3", "COVER", fi, vals == [ns_name, es_name] and lits[:2] == ["N[", "]|E["], rets[-1] if rets else "return", "the text is the node part followed by the edge part (nothing dropped)")
    # node key covers the matched attributes
    nk = rep.f(rel, "_default_node_key")
    rets = returns_of(nk.node)
    keys = [module_const(nk.module, c.args[0]) for c in ast.walk(rets[-1].value) if isinstance(c, ast.Call) and call_name(c) == "get"] if rets else []
    rep.ob("O8.3", "COVER", nk, {"element", "charge", "aromatic", "hcount"} <= set(keys), keys, "the node key covers element, charge, aromaticity and hydrogen count")
    ek = rep.f(rel, "_default_edge_key")
    rets = returns_of(ek.node)
    keys = [module_const(ek.module, c.args[0]) for c in ast.walk(rets[-1].value) if isinstance(c, ast.Call) and call_name(c) == "get"] if rets else []
    rep.ob("O8.3", "COVER", ek, {"order", "standard_order"} <= set(keys), keys, "the edge key covers order and standard_order")


# ------------------------------------------------------------------ O8.4
def nauty(rep):
    cf = rep.f(NA, N + "canonical_form")
    se = rep.f(NA, N + "_search")
    best_p = se.params[4]  # _search(self, G, partition, prefix, best, aut_perms, ...)
    G_se = se.params[1]

    def resolver(_lookup):
        sdefs = local_defs(se.node)
        for st in walk_local(se.node):
            if not isinstance(st, ast.Assign):
                continue
            t, val = st.targets[0], st.value
            tg = t.elts if isinstance(t, ast.Tuple) else [t]
            vs = val.elts if isinstance(t, ast.Tuple) and isinstance(val, ast.Tuple) and len(val.elts) == len(tg) else [val] * len(tg)
            for tt, vv in zip(tg, vs):
                if pmatch(f"{best_p}['perm']", tt) is not None:
                    return C.classify_order(sdefs, vv)
        return "UNKNOWN", f"no store into {best_p}['perm']"

    # numbering: order = list(dict.fromkeys(perm)) ... the raw perm is prefix + flatten
    defs = local_defs(cf.node)
    Gp = cf.params[1]
    ms = C.mapping_sites(cf)
    rep.need("R14", len(ms), 1, "numbering comprehension in canonical_form")
    dc, src = ms[0]
    rep.ob("O8.1", "R14", cf, C.offset_of(dc) == 1, dc.value, "numbers are position + 1 (onto 1..N)", node=dc)
    o = origin(defs, src)
    m = pmatch("list(dict.fromkeys($$inner))", o)
    if m is not None:
        inner = o.args[0].args[0]
        cls, why = C.classify_order(defs, inner)
        if cls == "LOOKUP":
            cls, why = resolver(why)
        ok = cls in ("BIJECTIVE", "DUPLICATE")
        why = f"dict.fromkeys removes the duplicates of: {why}"
    else:
        cls, why = C.classify_order(defs, src)
        if cls == "LOOKUP":
            cls, why = resolver(why)
        ok = True if cls == "BIJECTIVE" else (False if cls == "DUPLICATE" else None)
    rep.ob("O8.1", "R14", cf, ok, f"order = {norm(o)[:60]}", "the numbered sequence lists every node exactly once (bijection onto 1..N)", {"class": cls, "why": why}, node=dc)
    # the mapping that is applied is the numbering comprehension
    map_names = [nm for nm, ds in defs.items() for d_ in ds if d_.kind == "assign" and d_.value is dc]
    rl = [c for c in walk_local(cf.node) if isinstance(c, ast.Call) and call_name(c) == "relabel_nodes"]
    ok = bool(rl) and bool(map_names) and len(rl[0].args) >= 2 and norm(rl[0].args[0]) == Gp and norm(rl[0].args[1]) == map_names[0] \
        and is_const(kwarg(rl[0], "copy") or ast.Constant(True), True)
    rep.ob("O8.1", "R14", cf, ok, rl[0] if rl else "relabel_nodes", "the canonical graph is a relabelled copy with all node and edge attributes")
    # labels
    sig = rep.f(NA, N + "_node_signature")
    leaks, unordered, facts = label_analyse(sig, {sig.params[2]}, {sig.params[3]})
    if not leaks and not unordered:
        rep.ob("O8.4", "R12", sig, True, "_node_signature(G, v, partition)", "refinement signatures use node ids only as lookup keys and sort every per-neighbour list", facts, node=sig.node)
    for node, msg in leaks + unordered:
        rep.ob("O8.4", "R12", sig, False, node, msg, facts, node=node)
    bl = rep.f(NA, N + "_build_label")
    leaks, unordered, facts = label_analyse(bl, set(), {bl.params[2]})
    if not leaks and not unordered:
        rep.ob("O8.4", "R12", bl, True, "_build_label(G, perm)", "the canonical label depends on attributes at positions, not on node ids", facts, node=bl.node)
    for node, msg in leaks + unordered:
        rep.ob("O8.4", "R12", bl, False, node, msg, facts, node=node)
    ip = rep.f(NA, N + "_initial_partition")
    ok, construct = C.initial_partition_sorted(ip, "node_attrs")
    rep.ob("O8.4", "R12", ip, ok, construct, "initial cells are ordered by their attribute key (not by insertion order)")
    # label coverage
    shape_obs = C.label_builder_shape(bl, "node_attrs", "edge_attrs", directed=False)
    for tag, ok, construct, what, node in shape_obs:
        rep.ob("O8.4", "R12", bl, ok, construct, what, node=node)
    # pruning bound: the partial label is <node segment of the prefix> + <char>*k with char < the separator that follows a node segment
    pb = rep.f(NA, N + "_build_partial_label")
    pdefs = local_defs(pb.node)
    pre = pb.params[2]
    rets = returns_of(pb.node)
    same = shape = False
    ch = sep = None
    bdefs = local_defs(bl.node)
    full_ret = returns_of(bl.node)
    from ..facts import concat_parts
    fm = concat_parts(full_ret[-1].value) if full_ret else None     # `ns + sep + es`, or the f-string spelling of it
    if fm and len(fm) == 3:
        sep_node = fm[1]
        if isinstance(sep_node, ast.Constant) and isinstance(sep_node.value, str) and sep_node.value:
            sep = sep_node.value[0]
        nseg = origin(bdefs, fm[0])
    else:
        nseg = None
    if rets:
        rm = concat_parts(rets[-1].value)
        if rm and len(rm) == 2 and nseg is not None:
            shape = True
            pseg = origin(pdefs, rm[0])
            # same construction as the full label's node segment, over the prefix instead of the whole permutation
            pat = f"'|'.join((':'.join((str(self._freeze({pb.params[1]}.nodes[$v].get($a, ''))) for $a in self.node_attrs)) for $v in {pre}))"
            same = pmatch(pat, pseg) is not None
            suf = origin(pdefs, rm[1])
            if isinstance(suf, ast.BinOp) and isinstance(suf.op, ast.Mult) and isinstance(suf.left, ast.Constant) and isinstance(suf.left.value, str) and len(suf.left.value) == 1:
                ch = suf.left.value
    # a non-final node segment is followed by '|' (inside the join) — the prefix' segment is followed by '|' or by the first char of sep
    follow = {"|"} | ({sep} if sep else set())
    bound_ok = same and shape and ch is not None and sep is not None and all(ord(ch) < ord(f) for f in follow)
    rep.ob("O8.4", "R16", pb, bound_ok, f"node_segment(prefix) + {ch!r}*k  vs separator {sep!r}",
           "the partial label is a strict lower bound of every label below the branch (same node segment, then a character smaller than the separator that follows in any full label)",
           {"same_node_segment": same, "suffix_char": ch, "separator": sep})
    for name, ok, construct, what, node in C.ir_search_shape(se, partial_bound_ok=bool(bound_ok)):
        rep.ob("O8.4", "R16", se, ok, construct, what, node=node)
    # the bound is computed for the branch that is about to be entered: partial = self._build_partial_label(G, cand); cand = prefix + [v]; recursive call gets cand
    sdefs = local_defs(se.node)
    pls = pfind(f"$pl = self._build_partial_label({G_se}, $cand)", se.node)
    ok = False
    if len(pls) == 1:
        cand = pls[0][1]["cand"]
        csrc = origin(sdefs, ast.Name(id=cand, ctx=ast.Load()))
        loops = enclosing_loops(parent_map(se.node), pls[0][0], se.node)
        cm = pmatch(f"{se.params[3]} + [$v]", csrc)
        rec = [c for c in walk_local(se.node) if isinstance(c, ast.Call) and norm(c.func) == "self._search"]
        ok = bool(cm) and bool(loops) and norm(loops[0].target) == cm["v"] and len(rec) == 1 and len(rec[0].args) >= 3 \
            and (norm(rec[0].args[2]) == cand or norm(origin(sdefs, rec[0].args[2])) == norm(csrc))
    rep.ob("O8.4", "R16", se, ok, pls[0][0] if pls else "partial label", "the bound is computed for the branch that is about to be entered")
    # refinement cache
    rf = rep.f(NA, N + "_refine")
    ss = local_memo_sites(rep.repo, rf)
    rep.need("R1", len(ss), 1, "signature cache in nauty _refine")
    for s in ss:
        if not s.problems:
            rep.ob("O8.4", "R1", rf, True, f"key=({', '.join(norm(k) for k in s.key_parts)})", "cached signatures never outlive the partition they were computed for",
                   {"covered": s.covered}, node=s.store)
        for kind, node, msg in s.problems:
            rep.ob("O8.4", "R1", rf, False, f"[{kind}] {norm(node)[:50]}", msg, node=node)
    ok, construct, _g = C.split_sorted(rf)
    rep.ob("O8.4", "R12", rf, ok, construct, "split cells are ordered by their full signatures")
    uo = rep.f(NA, N + "compute_orbits.<locals>.union_orbits")
    for ok_, msg_, facts_ in check_merge(uo.node):
        rep.ob("O8.4", "R12", uo, ok_, msg_, "merging two orbit slots keeps orbit_map exact (union at the surviving slot, members of the emptied slot re-pointed)", facts_, node=uo.node)
    gs = rep.f(NA, N + "graph_signature")
    gd = local_defs(gs.node)
    ok = False
    lab = pfind("$l = self._build_label($gc, sorted($gc.nodes()))", gs.node)
    if len(lab) == 1:
        gsrc = origin(gd, ast.Name(id=lab[0][1]["gc"], ctx=ast.Load()))
        ok = pmatch(f"self.canonical_form({gs.params[1]})", gsrc) is not None
        # and the label is what gets hashed / returned
        used = [n for n in walk_local(gs.node) if isinstance(n, ast.Name) and n.id == lab[0][1]["l"] and isinstance(n.ctx, ast.Load)]
        ok = ok and bool(used)
    rep.ob("O8.3", "COVER", gs, ok, lab[0][0] if lab else "label = self._build_label(G_canon, sorted(G_canon.nodes()))", "the exact signature is the label of the canonical graph in canonical node order")
    for rel in TWINS_FILES:
        cn = rep.f(rel, GC + "_canon_nauty")
        rets = returns_of(cn.node)
        okn = False
        if rets and isinstance(rets[-1].value, ast.Call) and norm(rets[-1].value.func) == "self.nauty.canonical_form" and [norm(a_) for a_ in rets[-1].value.args] == [cn.params[1]]:
            # the search is exact only when it is unbounded: no depth budget (or the explicit "no budget" None); any other argument changes what comes back
            kws_ = {k_.arg: k_.value for k_ in rets[-1].value.keywords}
            okn = set(kws_) <= {"max_depth"} and all(is_const(v_, None) for v_ in kws_.values())
            if not okn and set(kws_) <= {"max_depth"} and not any(isinstance(v_, ast.Constant) for v_ in kws_.values()):
                okn = None   # a budget that is not a literal: cannot tell whether it is ever set
        rep.ob("O8.1", "R14", cn, okn, rets[-1] if rets else "return", "the nauty back-end returns the exact canonical form (unbounded search)")


# ------------------------------------------------------------------ O8.5
def _underlying(rep, rel, cls, attr):
    """`canonical_hash` property returning self._canonical_hash -> '_canonical_hash'"""
    fi = rep.repo.maybe_func(rel, f"{cls}.{attr}")
    if fi is not None and any(dotted(d) == "property" for d in fi.node.decorator_list):
        rets = returns_of(fi.node)
        if len(rets) == 1 and isinstance(rets[0].value, ast.Attribute) and norm(rets[0].value.value) == "self":
            return rets[0].value.attr
        if len(rets) == 1:
            return norm(rets[0].value)
    return attr


def value_object(rep, rel, cls):
    eq = rep.f(rel, f"{cls}.__eq__")
    hs = rep.f(rel, f"{cls}.__hash__")
    eq_attrs = set()
    for c in [n for n in walk_local(eq.node) if isinstance(n, ast.Compare) and isinstance(n.ops[0], ast.Eq)]:
        l, r = c.left, c.comparators[0]
        if isinstance(l, ast.Attribute) and isinstance(r, ast.Attribute) and l.attr == r.attr and {norm(l.value), norm(r.value)} == {"self", "other"}:
            eq_attrs.add(_underlying(rep, rel, cls, l.attr))
    hcalls = [c for c in walk_local(hs.node) if isinstance(c, ast.Call) and isinstance(c.func, ast.Name) and c.func.id == "hash"]
    h_attrs = set()
    for c in hcalls:
        a = c.args[0]
        if isinstance(a, ast.Attribute) and norm(a.value) == "self":
            h_attrs.add(_underlying(rep, rel, cls, a.attr))
        else:
            h_attrs.add(norm(a))
    ok = bool(eq_attrs) and eq_attrs == h_attrs
    rep.ob("O8.5", "EQHASH", eq, ok, f"__eq__ on {sorted(eq_attrs)} / __hash__ on {sorted(h_attrs)}",
           f"{cls} compares and hashes on the same signature field (equal objects hash equal; no identity-based hash)")
    ids = [c for c in walk_local(hs.node) if isinstance(c, ast.Call) and isinstance(c.func, ast.Name) and c.func.id == "id"]
    rep.ob("O8.5", "EQHASH", hs, not ids, ids[0] if ids else "no id()", f"{cls}.__hash__ does not use object identity")
    tc = [c for c in walk_local(eq.node) if isinstance(c, ast.Call) and call_name(c) == "isinstance" and norm(c.args[1]) == cls]
    rep.ob("O8.5", "EQHASH", eq, bool(tc), tc[0] if tc else "isinstance", f"{cls} is only equal to objects of its own kind")


MUTANTS = [
    dict(name="morgan seeds node labels from builtin hash()", file=ALG, expect="O8.2",
         old="            attr_hash = int(_digest(attr_text), 16)", new="            attr_hash = hash(attr_text) | 1"),
    dict(name="revert F-C08a (nauty numbering with duplicates)", revert_patch="notes/fixes/C08a.patch", expect="O8.1"),
    dict(name="revert F-C08b (serialisation ties / raw end points)", revert_patch="notes/fixes/C08b.patch", expect="O8.2"),
    dict(name="node sort without id in the Canon twin only", file=TWINS_FILES[1], expect="O8.2",
         old="nodes = sorted(g.nodes(data=True), key=lambda x: (self._node_key(*x), x[0]))", new="nodes = sorted(g.nodes(data=True), key=lambda x: self._node_key(*x))"),
    dict(name="generic rebuild keeps only the element", file=TWINS_FILES[0], expect="O8.1",
         old="            G2.add_node(mapping[old], **data)", new='            G2.add_node(mapping[old], element=data.get("element"))'),
    dict(name="wl numbering starts at 0", file=TWINS_FILES[0], expect="O8.1",
         old="mapping: Dict[NodeId, int] = {old: i + 1 for i, old in enumerate(order)}", new="mapping: Dict[NodeId, int] = {old: i for i, old in enumerate(order)}"),
    dict(name="wl drops edge attributes", file=TWINS_FILES[0], expect="O8.1",
         old="            G2.add_edge(mapping[u], mapping[v], **e_attrs)", new="            G2.add_edge(mapping[u], mapping[v])"),
    dict(name="serialise drops the edge part", file=TWINS_FILES[0], expect="O8.3",
         old='        return f"N[{node_str}]|E[{edge_str}]"', new='        return f"N[{node_str}]"'),
    dict(name="node text prints keys without ids", file=TWINS_FILES[0], expect="O8.3",
         old='node_str = ";".join(f"{n}:{self._node_key(n,d)}" for n, d in nodes)', new='node_str = ";".join(f"{self._node_key(n,d)}" for n, d in nodes)'),
    dict(name="nauty signature leaks neighbour ids", file=NA, expect="O8.4",
         old="        nbr_part_counts = tuple(nbr_part_counts)", new="        nbr_part_counts = tuple(nbr_part_counts) + tuple(G.neighbors(v))"),
    dict(name="nauty edge multiset unsorted", file=NA, expect="O8.4",
         old="        edge_attr_multiset = tuple(sorted(edge_attr_multiset))", new="        edge_attr_multiset = tuple(edge_attr_multiset)"),
    dict(name="SynGraph hashes by identity", file=SG, expect="O8.5", old="        return hash(self.signature)", new="        return hash(id(self))"),
    dict(name="CanonicalGraph eq on the original graph", file=TWINS_FILES[0], expect="O8.5",
         old="            isinstance(other, CanonicalGraph)\n            and self.canonical_hash == other.canonical_hash", new="            isinstance(other, CanonicalGraph)\n            and self._original == other._original"),
    dict(name="pruning bound larger than the separator", file=NA, expect="O8.4", old='suffix = "{" * 1000', new='suffix = "~" * 1000'),
    dict(name="nauty prunes on >=", file=NA, expect="O8.4",
         old='if best["label"] is not None and partial_label > best["label"]:', new='if best["label"] is not None and partial_label >= best["label"][: len(partial_label)]:'),
    dict(name="wl order without id tie-break", file=TWINS_FILES[0], expect="O8.2",
         old="order: List[NodeId] = sorted(g, key=lambda n: (colour[n], g.degree[n], n))", new="order: List[NodeId] = sorted(g, key=lambda n: (colour[n], g.degree[n]))"),
    dict(name="digest via builtin hash", file=TWINS_FILES[0], expect="O8.2",
         old="    return hashlib.sha256(text.encode()).hexdigest()[:32]", new='    return format(hash(text) & ((1 << 128) - 1), "032x")'),
    dict(name="nauty label skips the last node pair", file=NA, expect="O8.4",
         old="        for i in range(n):\n            vi = perm[i]\n            for j in range(i + 1, n):", new="        for i in range(n):\n            vi = perm[i]\n            for j in range(i + 1, n - 1):"),
    dict(name="nauty ties replace instead of append", file=NA, expect="O8.4",
         old='            elif label == best["label"]:\n                aut_perms.append(perm)', new='            elif label == best["label"]:\n                aut_perms[:] = [perm]'),
]

TWINS = [
    dict(name="nauty numbering de-duplicated with an explicit loop-free idiom", file=NA,
         old="        order = list(dict.fromkeys(perm))", new="        order = list(dict.fromkeys(list(perm)))"),
    dict(name="edge end points printed as a sorted list", file=TWINS_FILES[0],
         old='f"{tuple(sorted((u, v)))}:{self._edge_key(u,v,d)}" for u, v, d in edges', new='f"{sorted((u, v))}:{self._edge_key(u,v,d)}" for u, v, d in edges'),
]


# ------------------------------------------------------------------ O8.2 determinism across interpreter runs
def no_salted_hash(rep):
    """Python salts hash() of str / bytes (and of anything containing them) per interpreter run (PYTHONHASHSEED).  A label, an order
    or a digest derived from it is not a function of the graph.  The canonicaliser modules use hashlib digests of text instead;
    the only legitimate builtin hash() is inside __hash__ (a per-process value by definition)."""
    n_funcs, bad = 0, []
    for rel in (ALG, NA) + tuple(TWINS_FILES):
        mi = rep.repo.module(rel)
        for fi in mi.funcs.values():
            if fi.qual.endswith("__hash__"):
                continue
            n_funcs += 1
            for c in walk_local(fi.node):
                if isinstance(c, ast.Call) and isinstance(c.func, ast.Name) and c.func.id == "hash" and c.args:
                    # hash() of a plain int expression is the int itself: not salted
                    a = c.args[0]
                    intish = isinstance(a, ast.Constant) and isinstance(a.value, int) or (isinstance(a, ast.Call) and call_name(a) in ("int", "len"))
                    if not intish:
                        bad.append((fi, c))
    for fi, c in bad:
        rep.ob("O8.2", "R4", fi, False, c, "builtin hash() of attribute data feeds a label / order / digest: the result changes with PYTHONHASHSEED, so the canonical "
               "numbering and the signature are not a deterministic function of the graph", node=c)
    if not bad:
        rep.ob("O8.2", "R4", f"{ALG}:<module>", True, f"no builtin hash() outside __hash__ in {n_funcs} canonicaliser functions",
               "labels, orders and digests never depend on Python's per-process string hashing")
    rep.need("R4", n_funcs, 20, "functions of the canonicaliser modules scanned for builtin hash()")
