"""C01 - ITS encoding of a mapped reaction is lossless and invertible.

Decides the clauses of DESIGN.md section 4/C01 (O1.1 .. O1.6); does not decide
anything that passes through RDKit.
"""
from __future__ import annotations

import ast

from ..absval import Undecided, linform, truth_table, Lin
from ..core import (AnalysisError, alpha, call_name, const, dotted, is_const, kwarg, local_defs,
                    norm, origin, parent_map, walk_local, arg, bound)
from ..pattern import pmatch, pfind
from ..facts import (param_default, default_of, guards_of, list_literal_strs, mentions, recv_calls,
                     returns_of, unpack_of, enclosing_loops)

ITSC = "synkit/Graph/ITS/its_construction.py"
ITSD = "synkit/Graph/ITS/its_decompose.py"
CONV = "synkit/IO/chem_converter.py"
REQUIRED = ["element", "aromatic", "hcount", "charge"]
BOND_ORDERS = (1, 1.5, 2, 3)

META = {
    "explanation": (
        "Static schema/dataflow analysis of the ITS writer (ITSConstruction.construct/ITSGraph) and "
        "reader (its_decompose): positional typesGH schema agreement, side fidelity (reactant data only "
        "from G, product data only from H), order pair orientation, presence predicate on the cmp domain, "
        "standard_order as a linear form, exact union of nodes/edges, and reactant/product orientation "
        "of the rsmi<->its pipeline. Each obligation is a necessary condition of the round trip."
    ),
    "rules": {
        "R3a": "writer/reader positional schema agreement of typesGH",
        "R3b": "attribute key agreement (typesGH / order keys, defaults)",
        "SIDE": "side fidelity by def-use: G-side values mention only G, H-side only H",
        "CMP": "presence predicate evaluated on the sample points {0} U bond orders",
        "R15": "symbolic arithmetic: standard_order == order[0] - order[1]",
        "UNION": "node/edge sets are unfiltered unions of both sides",
        "PIPE": "reactant/product orientation through rsmi_to_graph, rsmi_to_its, its_to_rsmi, graph_to_rsmi",
    },
    "not_decided": "everything through RDKit: sanitisation, SMILES writing, atom-map equivalence of the emitted string",
    "trusted_base": ["CPython ast", "sa/* analyser", "networkx Graph.add_node/add_edge keyword semantics"],
    "assumptions": ["no monkey-patching of ITSConstruction / its_decompose at run time"],
}


def run(rep):
    order = writer_schema(rep)
    rep.run(fresh_results)
    rep.run(reader_schema, order)
    rep.run(writer_sides)
    rep.run(reader_edges)
    rep.run(standard_order)
    rep.run(unions)
    rep.run(other_readers, order)
    rep.run(pipeline)
    from . import C10
    rep.run(C10.implicit_h, "O1.6")  # its_to_rsmi folds non-centre hydrogens through implicit_hydrogen
    # ... and writes both sides through GraphToMol (atom properties, bond-type table): the same structural facts C10 needs for its SMILES round trip
    rep.alias = {"O10.3": "O1.6"}
    rep.run(C10.mol_graph)
    rep.alias = {}


# ------------------------------------------------------------------ O1.1
def writer_schema(rep):
    wrap = rep.f(ITSC, "ITSConstruction.ITSGraph")
    cons = rep.f(ITSC, "ITSConstruction.construct")
    # legacy wrapper
    calls = [c for c in walk_local(wrap.node) if isinstance(c, ast.Call) and call_name(c) == "construct"]
    rep.need("R3a", len(calls), 1, "ITSGraph -> construct delegation")
    wdefs = local_defs(wrap.node)
    na = kwarg(calls[0], "node_attrs")
    wl = list_literal_strs(origin(wdefs, na)) if na is not None else None
    # default inside construct
    dv_ = param_default(cons.node, "node_attrs")
    cl = list_literal_strs(dv_) if dv_ is not None else None
    if cl is None and dv_ is not None:
        # a computed default (e.g. derived from a class-level table): evaluate it over the module's / class's constant tables
        from ..absval import eval_expr as _ev, module_constants as _mc
        env = dict(_mc(cons.module.tree))
        if cons.cls is not None:
            for st in cons.cls.body:
                tg = st.targets[0] if isinstance(st, ast.Assign) and len(st.targets) == 1 else (st.target if isinstance(st, ast.AnnAssign) and st.value is not None else None)
                if isinstance(tg, ast.Name):
                    try:
                        try:
                            val = _ev(st.value, {})
                        except Undecided:
                            # a table whose values are not all evaluable (a lambda default): its KEYS and their order are what matters here
                            if isinstance(st.value, ast.Dict) and all(isinstance(k_, ast.Constant) for k_ in st.value.keys):
                                val = {k_.value: "<opaque>" for k_ in st.value.keys}
                            else:
                                raise
                        env[tg.id] = val
                        env[f"{cons.cls.name}.{tg.id}"] = val
                        env[f"self.{tg.id}"] = val
                        env[f"cls.{tg.id}"] = val
                    except Undecided:
                        pass
        try:
            got = _ev(dv_, env)
            if isinstance(got, (list, tuple)) and all(isinstance(x, str) for x in got):
                cl = list(got)
        except (Undecided, TypeError):
            pass
    if cl is None:
        rep.ob("O1.1", "R3a", cons, None, "node_attrs default", "cannot find the default typesGH attribute order in construct")
        raise AnalysisError("typesGH writer order not found")
    if na is None:
        wl = cl  # wrapper relies on the default
    if wl is None:
        rep.ob("O1.1", "R3a", wrap, None, na, "ITSGraph passes a node_attrs value that is not a literal list")
        raise AnalysisError("typesGH writer order not literal")
    rep.ob("O1.1", "R3a", wrap, wl == cl, na if na is not None else "node_attrs",
           "ITSGraph's typesGH order equals construct's default order", {"ITSGraph": wl, "construct": cl})
    missing = [k for k in REQUIRED if k not in wl]
    rep.ob("O1.1", "R3a", wrap, not missing, f"node_attrs={wl}",
           "typesGH carries element, aromatic, hcount and charge", {"missing": missing})
    # flags of the legacy entry point
    for fi in (wrap, cons):
        d = default_of(fi, "ignore_aromaticity")
        rep.ob("O1.3", "R3b", fi, d is not None and is_const(d, False), d if d is not None else "ignore_aromaticity",
               "ignore_aromaticity defaults to False (no thresholding of standard_order by default)")
    fwd = kwarg(calls[0], "ignore_aromaticity")
    rep.ob("O1.3", "R3b", wrap, fwd is not None and norm(fwd) == "ignore_aromaticity", calls[0].func,
           "ITSGraph forwards ignore_aromaticity unchanged")
    return wl


def fresh_results(rep):
    """the two graphs its_decompose returns are built for this call: its_to_rsmi hands them to routines that fold hydrogens into them in place, so a
    pair served from a process-wide store (a memo keyed by the ITS object) comes back modified on the next call"""
    from ..rules import provenance as PV
    fi = rep.f(ITSD, "its_decompose")
    d = local_defs(fi.node)
    rets = [r for r in returns_of(fi.node) if r.value is not None]
    rep.need("R9", len(rets), 1, "returns of its_decompose")
    lk = PV.persistent_lookups(fi, [x for r in rets for x in PV.all_roots(d, r.value, through_copies=False)], d)
    for r, cont, key in lk:
        rep.ob("O1.5", "R9", fi, False, r, f"the reactant / product graphs are built in this call (here they are taken out of `{cont}` and handed out without a copy: "
               "a caller that edits them changes every later decomposition of the same ITS)", node=r)
    if not lk:
        rep.ob("O1.5", "R9", fi, True, f"{len(rets)} return(s)", "the reactant / product graphs are built in this call")


def _graphs_returned(fi):
    rets = returns_of(fi.node)
    if len(rets) != 1 or not isinstance(rets[0].value, ast.Tuple) or len(rets[0].value.elts) != 2 \
            or not all(isinstance(e, ast.Name) for e in rets[0].value.elts):
        raise AnalysisError(f"{fi.key}: expected a single `return G, H`")
    return [e.id for e in rets[0].value.elts]


def reader_schema(rep, order):
    fi = rep.f(ITSD, "its_decompose")
    defs = local_defs(fi.node)
    gname, hname = _graphs_returned(fi)
    ns = default_of(fi, "nodes_share")
    rep.ob("O1.1", "R3b", fi, ns is not None and is_const(ns, "typesGH"), ns if ns is not None else "nodes_share",
           "reader's node key default is the writer's key 'typesGH'")
    # writer key
    cons = rep.f(ITSC, "ITSConstruction.construct")
    wkeys = [t for n in walk_local(cons.node) if isinstance(n, ast.Assign) for t in n.targets
             if isinstance(t, ast.Subscript) and is_const(t.slice, "typesGH")]
    rep.need("R3b", len(wkeys), 1, "assignment to nodes[n]['typesGH'] in construct")
    n_calls = 0
    for side, gname_ in ((0, gname), (1, hname)):
        calls = recv_calls(fi.node, gname_, "add_node")
        if len(calls) != 1:
            rep.ob("O1.1", "R3a", fi, None, f"{gname_}.add_node", "expected exactly one add_node per side")
            continue
        c = calls[0]
        n_calls += 1
        if any(k.arg is None for k in c.keywords):
            rep.ob("O1.1", "R3a", fi, None, c, "add_node uses **kwargs; schema not extractable")
            continue
        seen = {}
        for k in c.keywords:
            v = k.value
            if isinstance(v, ast.Subscript) and isinstance(v.value, ast.Name):
                try:
                    idx = const(v.slice)
                except ValueError:
                    rep.ob("O1.1", "R3a", fi, None, v, "non-constant index into a typesGH member")
                    continue
                up = unpack_of(defs, v.value.id)
                if up is None:
                    rep.ob("O1.1", "R3a", fi, None, v, "cannot trace the tuple this subscript reads")
                    continue
                src, path = up
                seen[k.arg] = idx
                ok_side = path == (side,)
                rep.ob("O1.2", "SIDE", fi, ok_side, f"{gname_}.add_node({k.arg}={norm(v)})",
                       f"{'reactant' if side == 0 else 'product'} graph reads member {side} of the typesGH pair",
                       {"reads_member": list(path), "source": norm(src)})
                ok = isinstance(idx, int) and 0 <= idx < len(order) and order[idx] == k.arg
                rep.ob("O1.1", "R3a", fi, ok, f"{gname_}.add_node({k.arg}={norm(v)})",
                       f"index {idx} of the writer order is '{order[idx] if isinstance(idx, int) and 0 <= idx < len(order) else '?'}', "
                       f"stored as '{k.arg}'", {"writer_order": order})
        missing = [k for k in REQUIRED if k not in seen]
        rep.ob("O1.1", "R3a", fi, not missing, f"{gname_}.add_node(...)",
               f"side {side}: element, aromatic, hcount, charge are all restored", {"missing": missing})
        # the add_node must not be filtered by anything except key presence / non-empty member
        pm = parent_map(fi.node)
        for test, sense in guards_of(pm, c, fi.node):
            t = norm(test)
            ok = sense and (pmatch("nodes_share in $d", test) is not None or _is_nonempty_test(test))
            rep.ob("O1.4", "UNION", fi, True if ok else False, f"{gname_}.add_node under `{t}`",
                   "node restoration is filtered only by key presence")
    rep.need("R3a", n_calls, 2, "add_node calls in its_decompose")


# ------------------------------------------------------------------ O1.2
def _is_nonempty_test(test) -> bool:
    """`len(x) > 0`, `len(x) != 0`, `len(x) >= 1`, `x` ... : true exactly for non-empty x"""
    from ..absval import eval_expr
    lens = [c for c in ast.walk(test) if isinstance(c, ast.Call) and isinstance(c.func, ast.Name) and c.func.id == "len" and len(c.args) == 1]
    if isinstance(test, ast.Name):
        return True
    if len(lens) != 1:
        return False
    try:
        return all(bool(eval_expr(test, {norm(lens[0]): n_})) == (n_ > 0) for n_ in (0, 1, 2, 5))
    except Undecided:
        return False


def _mentions_closure(defs, expr, names, depth=4):
    """which of `names` the value of expr can depend on, following locals through all their definitions (loop targets -> the iterable)"""
    out, seen, work = set(), set(), [(expr, depth)]
    while work:
        e, d = work.pop()
        for n in ast.walk(e):
            if isinstance(n, ast.Name):
                if n.id in names:
                    out.add(n.id)
                elif d > 0 and n.id not in seen and n.id in defs:
                    seen.add(n.id)
                    for df in defs[n.id]:
                        if df.value is not None and df.kind in ("assign", "unpack", "aug", "walrus"):
                            work.append((df.value, d - 1))
    return out


def writer_sides(rep):
    fi = rep.f(ITSC, "ITSConstruction.construct")
    defs = local_defs(fi.node)
    G, H = fi.params[0], fi.params[1]
    # node side
    found = 0
    for n in walk_local(fi.node):
        if isinstance(n, ast.Assign):
            for t in n.targets:
                if isinstance(t, ast.Subscript) and is_const(t.slice, "typesGH"):
                    found += 1
                    v = n.value
                    if not (isinstance(v, ast.Tuple) and len(v.elts) == 2):
                        rep.ob("O1.2", "SIDE", fi, None, n, "typesGH value is not a literal pair")
                        continue
                    for side, (e, own, other) in enumerate(((v.elts[0], G, H), (v.elts[1], H, G))):
                        src = origin(defs, e)
                        m = _mentions_closure(defs, src, [G, H])
                        ok = own in m and other not in m
                        rep.ob("O1.2", "SIDE", fi, ok, f"typesGH[{side}] = {norm(e)}",
                               f"member {side} of typesGH is computed from {own} only", {"mentions": sorted(m)})
                        gens = [g for g in ast.walk(src) if isinstance(g, ast.comprehension)]
                        # one generator, or one per branch when the "node present?" test sits outside the tuple
                        ok2 = bool(gens) and all(not g.ifs and norm(g.iter) == "node_attrs" for g in gens)
                        rep.ob("O1.1", "R3a", fi, True if ok2 else (False if any(g.ifs for g in gens) else None),
                               f"typesGH[{side}] iteration", "tuple is built over node_attrs in order, unfiltered",
                               {"generator": [norm(g.iter) for g in gens]})
    rep.need("SIDE", found, 1, "typesGH assignment in construct")
    # edge side
    calls = [c for c in recv_calls(fi.node, None, "add_edge") if kwarg(c, "order") is not None]
    rep.need("SIDE", len(calls), 1, "add_edge(order=(..,..)) in construct")
    for c in calls:
        v = kwarg(c, "order")
        if not (isinstance(v, ast.Tuple) and len(v.elts) == 2):
            rep.ob("O1.2", "SIDE", fi, None, c, "order= is not a literal pair")
            continue
        for side, (e, own, other) in enumerate(((v.elts[0], G, H), (v.elts[1], H, G))):
            src = origin(defs, e)
            m = _mentions_closure(defs, src, [G, H])
            rep.ob("O1.2", "SIDE", fi, own in m and other not in m, f"order[{side}] = {norm(src)}",
                   f"component {side} of the order pair is read from {own} only", {"mentions": sorted(m)})
            if isinstance(src, ast.IfExp):
                present, absent = src.body, src.orelse
                ok_test = (isinstance(src.test, ast.Call) and call_name(src.test) == "has_edge"
                           and dotted(src.test.func.value) == own)
                if not ok_test:
                    # data = X.get_edge_data(u, v) ... `<absent> if data is None else data.get('order', ..)`
                    mt = pmatch("$d is None", src.test)
                    dsrc = origin(defs, ast.Name(id=mt["d"], ctx=ast.Load())) if mt else None
                    if isinstance(dsrc, ast.Call) and call_name(dsrc) == "get_edge_data" and dotted(dsrc.func.value) == own and len(dsrc.args) >= 2 \
                            and (len(dsrc.args) < 3 or is_const(dsrc.args[2], None)) and (kwarg(dsrc, "default") is None or is_const(kwarg(dsrc, "default"), None)):
                        ok_test = True
                        present, absent = src.orelse, src.body
                rep.ob("O1.2", "SIDE", fi, ok_test, f"order[{side}] presence test {norm(src.test)}",
                       f"bond presence is tested on {own}")
                try:
                    z = const(absent)
                    okz = z == 0
                except ValueError:
                    okz = None
                rep.ob("O1.2", "CMP", fi, okz, f"order[{side}] absent value {norm(absent)}",
                       "a bond absent on this side is encoded as order 0")
                getk = [g for g in ast.walk(present) if isinstance(g, ast.Call) and call_name(g) == "get"]
                okk = bool(getk) and getk[0].args and is_const(getk[0].args[0], "order")
                rep.ob("O1.2", "R3b", fi, okk, f"order[{side}] key", "bond order is read from the 'order' attribute")
            else:
                rep.ob("O1.2", "SIDE", fi, None, src, "order component is not `X[u][v].get('order') if X.has_edge(u, v) else 0`")


def reader_edges(rep):
    fi = rep.f(ITSD, "its_decompose")
    defs = local_defs(fi.node)
    pm = parent_map(fi.node)
    gname, hname = _graphs_returned(fi)
    es = default_of(fi, "edges_share")
    rep.ob("O1.2", "R3b", fi, es is not None and is_const(es, "order"), es if es is not None else "edges_share",
           "reader's edge key default is the writer's key 'order'")
    n = 0
    for side, g in ((0, gname), (1, hname)):
        calls = recv_calls(fi.node, g, "add_edge")
        if len(calls) != 1:
            rep.ob("O1.2", "SIDE", fi, None, f"{g}.add_edge", "expected exactly one add_edge per side")
            continue
        c = calls[0]
        n += 1
        v = kwarg(c, "order")
        if v is None or not isinstance(v, ast.Name):
            rep.ob("O1.2", "SIDE", fi, None if v is not None else False, c, "restored bond carries order=<component>")
            continue
        up = unpack_of(defs, v.id)
        if up is None:
            rep.ob("O1.2", "SIDE", fi, None, v, "cannot trace the order component")
            continue
        rep.ob("O1.2", "SIDE", fi, up[1] == (side,), f"{g}.add_edge(order={v.id})",
               f"{'reactant' if side == 0 else 'product'} bonds take component {side} of the order pair",
               {"component": list(up[1]), "source": norm(up[0])})
        # presence predicate on the cmp domain
        guards = [(t, s) for t, s in guards_of(pm, c, fi.node) if v.id in {x.id for x in ast.walk(t) if isinstance(x, ast.Name)}]
        try:
            table = {}
            for p in (0, 0.0) + BOND_ORDERS:
                val = True
                for t, s in guards:
                    r = truth_table(t, v.id, [p])[p]
                    val = val and (r if s else not r)
                table[p] = val
            ok = (not table[0]) and (not table[0.0]) and all(table[p] for p in BOND_ORDERS)
        except Undecided:
            table, ok = {}, None
        rep.ob("O1.2", "CMP", fi, ok, f"{g}.add_edge guard: " + " and ".join(norm(t) for t, _ in guards),
               "a bond is restored on this side iff its order component is a real bond order (>0)",
               {"truth_on_sample_points": {str(k): v_ for k, v_ in table.items()}})
        # endpoints
        ep = [norm(a) for a in c.args[:2]]
        loops = enclosing_loops(pm, c, fi.node)
        tgt = norm(loops[0].target) if loops else ""
        rep.ob("O1.2", "SIDE", fi, len(ep) == 2 and all(e in tgt for e in ep), f"{g}.add_edge({', '.join(ep)})",
               "restored bond joins the ITS edge's own end points")
    rep.need("SIDE", n, 2, "add_edge calls in its_decompose")


# ------------------------------------------------------------------ O1.3
def standard_order(rep):
    fi = rep.f(ITSC, "ITSConstruction._compute_standard_order")
    defs = local_defs(fi.node)
    pm = parent_map(fi.node)
    writes = [(t, n) for n in walk_local(fi.node) if isinstance(n, ast.Assign) for t in n.targets
              if isinstance(t, ast.Subscript) and is_const(t.slice, "standard_order")]
    rep.need("R15", len(writes), 1, "assignment to ['standard_order']")

    def atom(node):
        if isinstance(node, ast.Name):
            ds = [d for d in defs.get(node.id, []) if d.index is not None]
            live = [d for d in ds if not (isinstance(d.value, ast.Tuple) and all(isinstance(e, ast.Constant) for e in d.value.elts))]
            idx = {d.index for d in live}
            if live and len(idx) == 1:
                src = origin(defs, live[0].value)
                if "order" in norm(src):
                    return f"order[{list(idx)[0][0]}]"
        return None

    for t, st in writes:
        v = st.value
        wrappers = []
        while isinstance(v, ast.Call) and isinstance(v.func, ast.Name) and v.func.id in ("int", "round", "float", "abs") and v.args:
            wrappers.append(v.func.id)
            v = v.args[0]
        lossy = [w for w in wrappers if w in ("int", "round", "abs")]
        if lossy:
            rep.ob("O1.3", "R15", fi, False, st, f"standard_order must be the exact difference: `{lossy[0]}()` truncates half-order changes (aromatic 1.5 <-> 1 / 2) or drops the sign")
        if not isinstance(v, ast.Name):
            rep.ob("O1.3", "R15", fi, None, st, "standard_order written from a non-variable")
            continue
        for d in defs.get(v.id, []):
            gs = guards_of(pm, d.stmt, fi.node)
            flagged = any("ignore_aromaticity" in norm(t_) for t_, _ in gs)
            if flagged:
                rep.ob("O1.3", "R15", fi, True, d.stmt, "thresholding of standard_order happens only under ignore_aromaticity")
                continue
            try:
                wr = []
                lf = linform(d.value, atom, wr)
                lossy_ = [w_ for w_ in wr if w_ in ("int", "round")]
                ok = lf == Lin({"order[0]": 1, "order[1]": -1}) and not lossy_
                rep.ob("O1.3", "R15", fi, ok, d.stmt, "standard_order == order[0] - order[1], exactly (bond orders are reals: `int()` / `round()` turn the half-order "
                       "change of an aromatic bond, 1.5 <-> 1 or 2, into 0 and the bond drops out of the reaction centre)", {"linear_form": lf.pretty(), "wrappers": wr})
            except Undecided as exc:
                rep.ob("O1.3", "R15", fi, False if gs == [] and isinstance(d.value, ast.Constant) else None, d.stmt,
                       f"standard_order is not the plain difference ({exc})")
    # the write must cover every edge
    loops = [n for n in walk_local(fi.node) if isinstance(n, ast.For)]
    ok = len(loops) == 1 and norm(loops[0].iter).replace(" ", "") in ("its.edges(data=True)", "its.edges()")
    rep.ob("O1.3", "UNION", fi, True if ok else None, loops[0].iter if loops else "for", "standard_order is written for every ITS edge")
    for t, st in writes:
        gs = guards_of(pm, st, fi.node)
        rep.ob("O1.3", "UNION", fi, not gs, st, "the standard_order write is unconditional", {"guards": [norm(g) for g, _ in gs]})
    # construct calls it
    cons = rep.f(ITSC, "ITSConstruction.construct")
    cc = [c for c in walk_local(cons.node) if isinstance(c, ast.Call) and call_name(c) == "_compute_standard_order"]
    rep.ob("O1.3", "R15", cons, len(cc) >= 1 and not guards_of(parent_map(cons.node), cc[0], cons.node) if cc else False,
           cc[0] if cc else "_compute_standard_order", "construct always derives standard_order from the order pairs")


# ------------------------------------------------------------------ O1.4
def unions(rep):
    fi = rep.f(ITSC, "ITSConstruction.construct")
    defs = local_defs(fi.node)
    pm = parent_map(fi.node)
    G, H = fi.params[0], fi.params[1]
    loops = [n for n in walk_local(fi.node) if isinstance(n, ast.For)]
    node_loop = edge_loop = None
    for lp in loops:
        body_calls = [c for c in walk_local(lp) if isinstance(c, ast.Call)]
        if any(call_name(c) == "add_edge" for c in body_calls):
            edge_loop = lp
        elif any(call_name(c) == "add_node" for c in body_calls):
            node_loop = lp
    for lp, what, meth in ((node_loop, "nodes", "add_node"), (edge_loop, "edges", "add_edge")):
        if lp is None:
            rep.ob("O1.4", "UNION", fi, None, what, f"loop that adds the union of {what} not found")
            continue
        src = origin(defs, lp.iter)
        m = mentions(src, [G, H])
        is_union = (isinstance(src, ast.BinOp) and isinstance(src.op, ast.BitOr)) or \
                   (isinstance(src, ast.Call) and call_name(src) == "union")
        if not is_union and m == {G, H}:
            rep.ob("O1.4", "UNION", fi, None, src, f"{what}: expression mentions both sides but is not a recognised union")
        else:
            rep.ob("O1.4", "UNION", fi, is_union and m == {G, H}, src,
                   f"ITS {what} are the union of both sides", {"mentions": sorted(m)})
        filt = [norm(i) for g in ast.walk(src) if isinstance(g, ast.comprehension) for i in g.ifs]
        rep.ob("O1.4", "UNION", fi, not filt, f"{what} union filters {filt}", f"no element of the {what} union is filtered out")
        for c in [c for c in walk_local(lp) if isinstance(c, ast.Call) and call_name(c) == meth]:
            gs = [(t, s) for t, s in guards_of(pm, c, lp)]
            allowed = all((pmatch("$n not in $its", t, {"n": norm(lp.target)}) is not None and s) for t, s in gs) if what == "nodes" else not gs
            rep.ob("O1.4", "UNION", fi, allowed, f"{norm(c.func)} under {[norm(t) for t, _ in gs]}",
                   f"every member of the {what} union is added to the ITS")


# ------------------------------------------------------------------ O1.5
def other_readers(rep, order):
    # charge comparison on typesGH members
    fi = rep.f(ITSD, "_add_charge_change_nodes")
    hits = 0
    for cmp_ in [n for n in walk_local(fi.node) if isinstance(n, ast.Compare)]:
        subs = [cmp_.left] + list(cmp_.comparators)
        if len(subs) == 2 and all(isinstance(s, ast.Subscript) and isinstance(s.value, ast.Subscript) for s in subs):
            try:
                inner = [const(s.slice) for s in subs]
                outer = [const(s.value.slice) for s in subs]
            except ValueError:
                continue
            hits += 1
            ok = all(isinstance(i, int) and 0 <= i < len(order) and order[i] == "charge" for i in inner) and sorted(outer) == [0, 1]
            rep.ob("O1.5", "R3a", fi, ok, cmp_, "charge-change test reads the writer's 'charge' position on both sides",
                   {"inner_indices": inner, "outer": outer, "writer_order": order})
    rep.need("R3a", hits, 1, "typesGH charge comparison in _add_charge_change_nodes")
    # H-H fallback tuple
    fi = rep.f(ITSD, "_ensure_node_hh")
    lits = [n for n in walk_local(fi.node) if isinstance(n, ast.Tuple) and len(n.elts) == 2
            and all(isinstance(e, ast.Tuple) for e in n.elts)]
    rep.need("R3a", len(lits), 1, "fallback typesGH literal in _ensure_node_hh")
    types = {"element": str, "aromatic": bool, "hcount": int, "charge": int}
    for lit in lits:
        for side, e in enumerate(lit.elts):
            ok = len(e.elts) == len(order)
            if ok:
                for i, name in enumerate(order):
                    if name in types:
                        el = e.elts[i]
                        ok = ok and isinstance(el, ast.Constant) and type(el.value) is types[name]
            rep.ob("O1.5", "R3a", fi, ok, e, f"fallback typesGH member {side} has the writer's shape", {"writer_order": order})


# ------------------------------------------------------------------ O1.6
def pipeline(rep):
    # its_to_rsmi
    fi = rep.f(CONV, "its_to_rsmi")
    defs = local_defs(fi.node)
    _pair_flow(rep, fi, defs, producer="its_decompose", consumer="graph_to_rsmi")
    dec = [c for c in walk_local(fi.node) if isinstance(c, ast.Call) and call_name(c) == "its_decompose"]
    if dec:
        rep.ob("O1.6", "PIPE", fi, bool(dec[0].args) and norm(dec[0].args[0]) == fi.params[0], dec[0],
               "its_to_rsmi decomposes the ITS it was given")
    # rsmi_to_its
    fi = rep.f(CONV, "rsmi_to_its")
    defs = local_defs(fi.node)
    _pair_flow(rep, fi, defs, producer="rsmi_to_graph", consumer="ITSGraph")
    # rsmi_to_graph
    fi = rep.f(CONV, "rsmi_to_graph")
    defs = local_defs(fi.node)
    rets = [r for r in returns_of(fi.node) if isinstance(r.value, ast.Tuple) and len(r.value.elts) == 2
            and not all(is_const(e, None) for e in r.value.elts)]
    rep.need("PIPE", len(rets), 1, "return (r_graph, p_graph) in rsmi_to_graph")
    for r in rets:
        sides = []
        for e in r.value.elts:
            src = origin(defs, e)
            a0 = src.args[0] if isinstance(src, ast.Call) and src.args else None
            up = unpack_of(defs, a0.id) if isinstance(a0, ast.Name) else None
            sides.append((up[1], norm(up[0])) if up else None)
        ok = None
        if all(sides):
            ok = sides[0][0] == (0,) and sides[1][0] == (1,) and sides[0][1] == sides[1][1] and "split('>>')" in sides[0][1]
        rep.ob("O1.6", "PIPE", fi, ok, r, "reactant graph comes from the text before '>>', product graph from the text after",
               {"sources": [list(s[0]) if s else None for s in sides]})
    # graph_to_rsmi
    fi = rep.f(CONV, "graph_to_rsmi")
    defs = local_defs(fi.node)
    rp = fi.params[0], fi.params[1]
    rets = [r for r in returns_of(fi.node) if isinstance(r.value, ast.JoinedStr)]
    rep.need("PIPE", len(rets), 1, "f-string return in graph_to_rsmi")
    for r in rets:
        vals = [v.value for v in r.value.values if isinstance(v, ast.FormattedValue)]
        lits = [v.value for v in r.value.values if isinstance(v, ast.Constant)]
        ok_shape = len(vals) == 2 and lits == [">>"]
        rep.ob("O1.6", "PIPE", fi, ok_shape, r, "result is '<reactants>>><products>'")
        if ok_shape:
            for side, v in enumerate(vals):
                ds = defs.get(v.id, []) if isinstance(v, ast.Name) else []
                firsts = set()
                for d in ds:
                    if isinstance(d.value, ast.Call) and d.value.args:
                        firsts.add(norm(d.value.args[0]))
                    else:
                        firsts.add("?")
                rep.ob("O1.6", "PIPE", fi, firsts == {rp[side]}, f"{norm(v)} <- {sorted(firsts)}",
                       f"{'reactant' if side == 0 else 'product'} SMILES is written from parameter '{rp[side]}' on every path")
    # which hydrogens stay explicit: exactly the hydrogens of the reaction centre of the SAME ITS, the same list on both sides
    keep = [c for c in walk_local(fi.node) if isinstance(c, ast.Call) and call_name(c) == "graph_to_smi" and bound(fi, c, "preserve_atom_maps") is not None]
    rep.need("PIPE", len(keep), 2, "graph_to_smi(..., preserve_atom_maps=...) calls in graph_to_rsmi")
    lists = {norm(bound(fi, c, "preserve_atom_maps")) for c in keep}
    ok = len(lists) == 1
    kp = bound(fi, keep[0], "preserve_atom_maps")
    cands = [d_.value for d_ in defs.get(kp.id, []) if d_.kind == "assign" and not is_const(d_.value, None)] if isinstance(kp, ast.Name) else [kp]
    src = cands[0] if len(cands) == 1 else origin(defs, kp)   # `None` (everything stays explicit) may be the other binding
    m = pmatch("[$d['atom_map'] for $u, $d in $rc.nodes(data=True) if $d.get('element') == 'H']", src)
    ok_rc = False
    if m:
        rcsrc = origin(defs, ast.Name(id=m["rc"], ctx=ast.Load()))
        its_p = fi.params[2]
        ok_rc = pmatch(f"get_rc({its_p})", rcsrc) is not None
        built = [d_ for d_ in defs.get(its_p, []) if d_.kind == "assign"]
        # the only re-binding of `its` is its default: the ITS of these two graphs when the caller passed none
        dv_ = param_default(fi.node, its_p)
        ok_rc = ok_rc and all(pmatch(f"ITSConstruction().ITSGraph({rp[0]}, {rp[1]})", d_.value) is not None
                              or (dv_ is not None and pmatch(f"ITSConstruction().ITSGraph({rp[0]}, {rp[1]})", dv_) is not None
                                  and pmatch(f"$$v if {its_p} is None else {its_p}", d_.value) is not None) for d_ in built)
    rep.ob("O1.6", "PIPE", fi, ok and ok_rc, alpha(src, fi.node),
           "the hydrogens kept explicit are the hydrogens of get_rc(its) for this reaction's own ITS (the one definition of the reaction centre, "
           "including unchanged H-H bonds), and both sides receive the same list")


def _pair_flow(rep, fi, defs, producer, consumer):
    cons = [c for c in walk_local(fi.node) if isinstance(c, ast.Call) and call_name(c) == consumer]
    if not cons:
        rep.ob("O1.6", "PIPE", fi, None, consumer, f"call to {consumer} not found")
        return
    c = cons[0]
    info = []
    for i in (0, 1):
        a = c.args[i] if i < len(c.args) else None
        up = unpack_of(defs, a.id) if isinstance(a, ast.Name) else None
        info.append(up)
    ok = None
    if all(info):
        ok = (info[0][1] == (0,) and info[1][1] == (1,) and info[0][0] is info[1][0]
              and isinstance(info[0][0], ast.Call) and call_name(info[0][0]) == producer)
    rep.ob("O1.6", "PIPE", fi, ok, c, f"{consumer}(reactant, product) receives {producer}'s pair in order",
           {"argument_sources": [[list(u[1]), norm(u[0])] if u else None for u in info]})


# ------------------------------------------------------------------ self-test
MUTANTS = [
    dict(name="order pair swapped in construct", file=ITSC, expect="O1.2",
         old="ITS.add_edge(u, v, order=(order_G, order_H))", new="ITS.add_edge(u, v, order=(order_H, order_G))"),
    dict(name="H loses charge in its_decompose", file=ITSD, expect="O1.1",
         old="                    charge=node_attr_h[3],\n", new=""),
    dict(name="hcount/charge indices swapped for G", file=ITSD, expect="O1.1",
         old="                hcount=node_attr_g[2],\n                charge=node_attr_g[3],",
         new="                hcount=node_attr_g[3],\n                charge=node_attr_g[2],"),
    dict(name="order_H presence tested on G", file=ITSC, expect="O1.2",
         old='order_H = H[u][v].get("order", 0.0) if H.has_edge(u, v) else 0.0',
         new='order_H = H[u][v].get("order", 0.0) if G.has_edge(u, v) else 0.0'),
    dict(name="edge union from G only", file=ITSC, expect="O1.4",
         old="edge_keys = {frozenset((u, v)) for u, v in G.edges()} | {\n            frozenset((u, v)) for u, v in H.edges()\n        }",
         new="edge_keys = {frozenset((u, v)) for u, v in G.edges()}"),
    dict(name="standard_order sign flipped", file=ITSC, expect="O1.3",
         old="standard_order = o_g - o_h", new="standard_order = o_h - o_g"),
    dict(name="presence test > 1 on H", file=ITSD, expect="O1.2",
         old="if order_h > 0:  # Assuming 0 means no edge in H", new="if order_h > 1:"),
    dict(name="ITSGraph reorders node_attrs", file=ITSC, expect="O1.1",
         old='        node_attrs = ["element", "aromatic", "hcount", "charge", "neighbors"]\n        edge_attrs = ["order"]\n        return ITSConstruction.construct(',
         new='        node_attrs = ["element", "aromatic", "charge", "hcount", "neighbors"]\n        edge_attrs = ["order"]\n        return ITSConstruction.construct('),
    dict(name="H node built from reactant tuple", file=ITSD, expect="O1.2",
         old="hcount=node_attr_h[2],", new="hcount=node_attr_g[2],"),
    dict(name="h_tuple reads G", file=ITSC, expect="O1.2",
         old="H.nodes[n].get(attr, node_defaults.get(attr))\n                    if n in H",
         new="G.nodes[n].get(attr, node_defaults.get(attr))\n                    if n in G"),
    dict(name="thresholding outside the flag", file=ITSC, expect="O1.3",
         old="if ignore_aromaticity and abs(standard_order) < 1:", new="if abs(standard_order) < 1:"),
    dict(name="absent bond encoded as 1", file=ITSC, expect="O1.2",
         old='order_G = G[u][v].get("order", 0.0) if G.has_edge(u, v) else 0.0',
         new='order_G = G[u][v].get("order", 0.0) if G.has_edge(u, v) else 1.0'),
    dict(name="node union skips product-only atoms", file=ITSC, expect="O1.4",
         old="all_nodes = set(G.nodes()) | set(H.nodes())", new="all_nodes = set(G.nodes())"),
    dict(name="its_to_rsmi swaps sides", file=CONV, expect="O1.6",
         old="    rsmi = graph_to_rsmi(r, p, its, sanitize, explicit_hydrogen)\n    if clean_wildcards:",
         new="    rsmi = graph_to_rsmi(p, r, its, sanitize, explicit_hydrogen)\n    if clean_wildcards:"),
    dict(name="graph_to_rsmi writes product from r in the hydrogen branch", file=CONV, expect="O1.6",
         old="            p_smiles = graph_to_smi(\n                p, sanitize=sanitize, preserve_atom_maps=list_hydrogen",
         new="            p_smiles = graph_to_smi(\n                r, sanitize=sanitize, preserve_atom_maps=list_hydrogen"),
    dict(name="edge added only when both sides bonded", file=ITSC, expect="O1.4",
         old="            ITS.add_edge(u, v, order=(order_G, order_H))",
         new="            if order_G and order_H:\n                ITS.add_edge(u, v, order=(order_G, order_H))"),
    dict(name="charge-change test reads hcount slot", file=ITSD, expect="O1.5",
         old="and gh[0][3] != gh[1][3]", new="and gh[0][2] != gh[1][2]"),
]

TWINS = [
    dict(name="rename unpacked tuples", edits=[
        (ITSD, "node_attr_g, node_attr_h = data[nodes_share]", "ga, node_attr_h = data[nodes_share]"),
        (ITSD, "element=node_attr_g[0],\n                aromatic=node_attr_g[1],\n                hcount=node_attr_g[2],\n                charge=node_attr_g[3],",
         "charge=ga[3],\n                element=ga[0],\n                hcount=ga[2],\n                aromatic=ga[1],"),
    ]),
    dict(name="presence test written 0 < order", file=ITSD,
         old="if order_g > 0:  # Assuming 0 means no edge in G", new="if 0 < order_g:"),
    dict(name="union via .union()", file=ITSC,
         old="all_nodes = set(G.nodes()) | set(H.nodes())", new="all_nodes = set(G.nodes()).union(H.nodes())"),
    dict(name="standard_order with negated sum", file=ITSC,
         old="standard_order = o_g - o_h", new="standard_order = -o_h + o_g"),
    dict(name="consistent reorder of the schema on both sides", edits=[
        (ITSC, '        node_attrs = ["element", "aromatic", "hcount", "charge", "neighbors"]\n        edge_attrs = ["order"]\n        return ITSConstruction.construct(',
         '        node_attrs = ["element", "aromatic", "hcount", "charge", "neighbors", "extra"]\n        edge_attrs = ["order"]\n        return ITSConstruction.construct('),
        (ITSC, '        # typesGH attribute order\n        if node_attrs is None:\n            node_attrs = ["element", "aromatic", "hcount", "charge", "neighbors"]',
         '        # typesGH attribute order\n        if node_attrs is None:\n            node_attrs = ["element", "aromatic", "hcount", "charge", "neighbors", "extra"]'),
        (ITSD, '(("H", False, 0, 0, []), ("*", False, 0, 0, []))', '(("H", False, 0, 0, [], None), ("*", False, 0, 0, [], None))'),
    ]),
]
