"""C17 - stoichiometric analysis agrees with exact linear algebra."""
from __future__ import annotations

import ast

from ..pattern import pmatch, pfind, pall

from ..absval import Lin, Undecided, linform, eval_expr
from ..cfg import CFG, ENTRY
from ..core import (AnalysisError, alpha, call_name, dotted, is_const, local_defs, norm, origin, parent_map,
                    walk_local, kwarg, const)
from ..facts import guards_of, returns_of, enclosing_loops, assigned_subscripts, unpack_of, conjunct_nodes

ST = "synkit/CRN/Props/stoich.py"
UT = "synkit/CRN/Props/utils.py"
HG = "synkit/CRN/Hypergraph/hypergraph.py"

META = {
    "explanation": (
        "R15/R13: S = S_plus - S_minus as a linear form; role->matrix assignment (reactant arcs fill S_minus, product "
        "arcs S_plus), rows indexed by the species end and columns by the reaction end of each arc, sign agreement with "
        "CRNHyperGraph.incidence_matrix; left kernel = null space of S.T, right kernel = null space of S, rank = "
        "matrix_rank(S). R10 LP-as-oracle: at every linprog site whose failure is mapped to a negative verdict the "
        "objective must be bounded below on every feasible set by construction (c == 0, or c >= 0 with finite lower "
        "bounds, or c <= 0 with finite upper bounds); otherwise 'unbounded' is read as 'no solution'. Witness "
        "discipline (CFG dominance): a positive verdict is returned only after the witness was re-checked "
        "(np.all(m > eps), residual test); is_conservative is tabulated over (no reactions, kernel trivial, witness found, "
        "LP attempted, kernel dimension): True iff a witness exists, a definitive False only from a trivial kernel, a "
        "one-dimensional kernel or an attempted LP."
    ),
    "rules": {"R15": "symbolic matrix arithmetic", "R13": "sibling sign agreement", "R10": "LP boundedness at oracle sites",
              "DOM": "witness re-check dominates every positive return", "SHAPE": "kernel/rank wiring"},
    "not_decided": "numerical rank and kernels (tolerances, SVD) as values; agreement with exact rational arithmetic",
    "trusted_base": ["CPython ast", "sa/* analyser", "scipy.optimize.linprog semantics (status 3 = unbounded -> success False)", "numpy matrix_rank / scipy null_space"],
    "assumptions": [],
}


def run(rep):
    rep.run(degenerate_cases_on_S)
    from ..rules import walk as _Wv
    rep.run(_Wv.view_is_complete, "O17.1")
    from ..rules import walk as _W
    rep.run(_W.writer_sides_independent, "O17.1", False)
    rep.run(matrices)
    rep.run(kernels)
    rep.run(lp_sites)
    rep.run(witnesses)
    rep.run(ordering)
    rep.run(netfold)
    rep.run(summary_wiring)


def matrices(rep):
    bs = rep.f(ST, "build_S")
    defs = local_defs(bs.node)
    rets = returns_of(bs.node)
    if not rets or not isinstance(rets[-1].value, ast.Tuple) or len(rets[-1].value.elts) != 3 or not isinstance(rets[-1].value.elts[2], ast.Name):
        raise AnalysisError("build_S no longer returns (species, reactions, S)")
    SN = rets[-1].value.elts[2].id
    s = [d for d in defs.get(SN, []) if d.kind == "assign"]
    rep.need("R15", len(s), 1, "S = ... in build_S")
    if not any(isinstance(n, ast.BinOp) for n in ast.walk(s[0].value)) or "zeros" in norm(s[0].value):
        # direct fill of S: every arc must be ACCUMULATED with the sign of its role
        fills = [n for n in walk_local(bs.node) if isinstance(n, (ast.Assign, ast.AugAssign)) and
                 any(isinstance(t, ast.Subscript) and norm(t.value) == SN for t in (n.targets if isinstance(n, ast.Assign) else [n.target]))]
        if not fills:
            rep.ob("O17.1", "R15", bs, None, alpha(s[0].stmt, bs.node), "S is neither S_plus - S_minus nor filled entry by entry")
        for n in fills:
            rep.ob("O17.1", "R15", bs, isinstance(n, ast.AugAssign) and isinstance(n.op, (ast.Add, ast.Sub)), alpha(n, bs.node),
                   "entries of S are accumulated (+=): a species on both sides of one reaction, or parallel arcs, must add up to produced minus consumed "
                   "(a plain assignment keeps only the last arc)", node=n)
        return
    mp = rep.f(ST, "build_S_minus_plus")
    pm = parent_map(mp.node)
    mdefs = local_defs(mp.node)
    # roles of the two matrices inside build_S_minus_plus: by the role constant that guards their accumulation
    fills = {}
    for n in walk_local(mp.node):
        if isinstance(n, (ast.AugAssign, ast.Assign)) and isinstance((n.target if isinstance(n, ast.AugAssign) else n.targets[0]), ast.Subscript):
            tg = n.target if isinstance(n, ast.AugAssign) else n.targets[0]
            gs = guards_of(pm, n, mp.node)
            role = None
            for t, sense in gs:
                if isinstance(t, ast.Compare) and isinstance(t.ops[0], ast.Eq) and sense and isinstance(t.comparators[0], ast.Constant) and t.comparators[0].value in ("reactant", "product"):
                    lsrc = origin(mdefs, t.left)
                    if "role" in norm(lsrc) or "role" in norm(t.left):
                        role = t.comparators[0].value
                        break
            if role:
                fills.setdefault(role, []).append((norm(tg.value), n))
    mrets = returns_of(mp.node)
    ret_names = [norm(e) for e in mrets[0].value.elts] if len(mrets) == 1 and isinstance(mrets[0].value, ast.Tuple) else []
    slot_role = {}
    for role, lst in fills.items():
        for nm, n in lst:
            if nm in ret_names:
                slot_role[ret_names.index(nm)] = role
    # both matrices identified with a role: agree or not; a matrix whose filling site the rule could not find: not decided
    v_ = None if (len(ret_names) == 4 and not {2, 3} <= set(slot_role)) else (len(ret_names) == 4 and slot_role.get(2) == "reactant" and slot_role.get(3) == "product")
    rep.ob("O17.1", "R15", mp, v_, "return (species, reactions, S_minus, S_plus)",
           "build_S_minus_plus returns (.., consumed matrix, produced matrix)", {"slot_roles": {str(k): v for k, v in slot_role.items()}})

    if v_ is None:
        # without the roles of the two matrices the remaining matrix facts cannot be phrased; one undecided obligation stands for them
        return

    def atom(n):
        if isinstance(n, ast.Name):
            up = unpack_of(defs, n.id)
            if up and isinstance(up[0], ast.Call) and call_name(up[0]) == "build_S_minus_plus":
                return {"reactant": "S_minus", "product": "S_plus"}.get(slot_role.get(up[1][0]), f"ret[{up[1][0]}]")
        return None
    try:
        lf = linform(s[0].value, atom)
        rep.ob("O17.1", "R15", bs, lf == Lin({"S_plus": 1, "S_minus": -1}), alpha(s[0].stmt, bs.node), "S == S_plus - S_minus (produced minus consumed)", {"linear_form": lf.pretty()})
    except Undecided as exc:
        rep.ob("O17.1", "R15", bs, None, alpha(s[0].stmt, bs.node), str(exc))
    lp = [l for l in walk_local(mp.node) if isinstance(l, ast.For)]
    Gv = None
    u = v = data = None
    if lp:
        m = pmatch("$g.edges(data=True)", lp[0].iter)
        if m and isinstance(lp[0].target, ast.Tuple) and len(lp[0].target.elts) == 3:
            Gv = m["g"]
            u, v, data = [norm(e) for e in lp[0].target.elts]
    ok = Gv is not None and norm(origin(mdefs, ast.Name(id=Gv, ctx=ast.Load()))) == f"_as_bipartite({mp.params[0]})"
    rep.ob("O17.1", "R15", mp, ok, lp[0].iter if lp else "for", "every arc of the view contributes")
    ends = set()
    for role, want_name in (("reactant", "S_minus"), ("product", "S_plus")):
        got = fills.get(role, [])
        rep.ob("O17.1", "R13", mp, len(got) == 1, f"{want_name} accumulation", f"{want_name} is filled from arcs with role '{role}'", {"sites": len(got)}, node=got[0][1] if got else mp.node)
        for nm, n in got:
            tg = n.target if isinstance(n, ast.AugAssign) else n.targets[0]
            csrc = origin(mdefs, n.value) if isinstance(n, ast.AugAssign) else None
            okc = isinstance(n, ast.AugAssign) and isinstance(n.op, ast.Add) and data is not None and isinstance(csrc, ast.Call) and f"{data}.get('stoich', 1" in norm(csrc)
            rep.ob("O17.1", "R15", mp, okc, alpha(n, mp.node), "coefficients are accumulated (parallel arcs add up); the coefficient is the arc's 'stoich' (default 1)", node=n)
            idx = tg.slice
            oki = False
            if isinstance(idx, ast.Tuple) and len(idx.elts) == 2:
                i_src, j_src = origin(mdefs, idx.elts[0]), origin(mdefs, idx.elts[1])
                mi, mj = pmatch("$si[$s]", i_src), pmatch("$ri[$r]", j_src)
                if mi and mj:
                    order = {x.index: nm_ for nm_, xs in mdefs.items() for x in xs if x.index is not None and isinstance(x.value, ast.Call) and call_name(x.value) == "_species_and_reaction_order"}
                    oki = order.get((2,)) == mi["si"] and order.get((3,)) == mj["ri"]
                    ends.add((mi["s"], mj["r"]))
            rep.ob("O17.1", "R15", mp, oki, alpha(tg, mp.node), "entry [species row, reaction column]: rows are indexed by the species end, columns by the reaction end", node=n)
    # species/reaction end classification (normal form N10: `s, r = u, v` reads `s = u`; `r = v`)
    ok = False
    if len(ends) == 1:
        se, re_ = next(iter(ends))
        asg = {nm_: [n for n in walk_local(mp.node) if isinstance(n, ast.Assign) and len(n.targets) == 1 and norm(n.targets[0]) == nm_ and norm(n.value) in (u, v)] for nm_ in (se, re_)}
        ok = len(asg[se]) == 2 and len(asg[re_]) == 2 and {norm(n.value) for n in asg[se]} == {u, v} and {norm(n.value) for n in asg[re_]} == {u, v}
        if ok:
            for n in asg[se]:
                gs = guards_of(pm, n, mp.node)
                first = norm(n.value)
                # in the same branch the reaction end is the other end
                twin = [m_ for m_ in asg[re_] if [(norm(t_), s_) for t_, s_ in guards_of(pm, m_, mp.node)] == [(norm(t_), s_) for t_, s_ in gs]]
                ok = ok and len(twin) == 1 and norm(twin[0].value) != first
                t = gs[0][0] if gs else None
                # the species end is the end whose node data says kind == 'species'
                kinds = [c for c in ast.walk(t) if isinstance(c, ast.Compare) and is_const(c.comparators[0], "species")] if t is not None else []
                okk = False
                for c in kinds:
                    m = pmatch("$$d.get('kind')", c.left)
                    if m is not None and pmatch(f"{Gv}.nodes[{first}]", origin(local_defs(lp[0]), c.left.func.value)) is not None:
                        okk = True
                ok = ok and okk
    rep.ob("O17.1", "R15", mp, ok, "s_node, r_node = <species end>, <reaction end>", "the end tagged 'species' becomes the row, the end tagged 'reaction' the column")
    nsp = {x.index: nm_ for nm_, xs in mdefs.items() for x in xs if x.index is not None and isinstance(x.value, ast.Call) and call_name(x.value) == "_species_and_reaction_order"}
    shapes_ok = True
    for role, lst in fills.items():
        for nm, n in lst:
            src = origin(mdefs, ast.Name(id=nm, ctx=ast.Load()))
            m = pmatch("np.zeros(($a, $b), dtype=float)", src) or pmatch("np.zeros(($a, $b))", src)
            shapes_ok = shapes_ok and m is not None and norm(origin(mdefs, ast.Name(id=m["a"], ctx=ast.Load()))) == f"len({nsp.get((0,))})" \
                and norm(origin(mdefs, ast.Name(id=m["b"], ctx=ast.Load()))) == f"len({nsp.get((1,))})"
    rep.ob("O17.1", "R15", mp, shapes_ok and len(fills) == 2, "np.zeros((n_species, n_reactions))", "matrices have one row per species and one column per reaction")
    # sibling: the network's own incidence matrix uses the same sign convention
    inc = rep.f(HG, "CRNHyperGraph.incidence_matrix")
    signs = {}
    for l in [x for x in walk_local(inc.node) if isinstance(x, ast.For)]:
        it = norm(l.iter)
        side = "reactants" if ".reactants.items()" in it else ("products" if ".products.items()" in it else None)
        if side is None:
            continue
        for st in l.body:
            sg = None
            if isinstance(st, ast.AugAssign):
                sg = -1 if isinstance(st.op, ast.Sub) else 1
            elif isinstance(st, ast.Assign) and isinstance(st.value, ast.BinOp):
                sg = -1 if isinstance(st.value.op, ast.Sub) else 1
            if sg is not None:
                signs.setdefault(side, set()).add(sg)
    rep.ob("O17.1", "R13", inc, signs == {"reactants": {-1}, "products": {1}}, str(signs), "incidence_matrix agrees: reactants negative, products positive")
    sm = rep.f(ST, "stoichiometric_matrix")
    d = local_defs(sm.node)
    srets = returns_of(sm.node)
    up = unpack_of(d, norm(srets[-1].value)) if srets and isinstance(srets[-1].value, ast.Name) else None
    rep.ob("O17.1", "SHAPE", sm, up is not None and up[1] == (2,) and call_name(up[0]) == "build_S", "_, _, S = build_S(crn)", "stoichiometric_matrix is the S of build_S")


def kernels(rep):
    for q, transposed, what in (("left_nullspace", True, "left kernel = null space of S transposed (m^T S = 0)"),
                                ("right_nullspace", False, "right kernel = null space of S (S v = 0)")):
        fi = rep.f(ST, q)
        rets = returns_of(fi.node)
        d = local_defs(fi.node)
        ok = ok2 = False
        if len(rets) == 1 and isinstance(rets[0].value, ast.Call) and call_name(rets[0].value) == "_null_space" and rets[0].value.args:
            a0 = rets[0].value.args[0]
            # the matrix handed to the kernel routine: S (possibly transposed), S a local or the call itself
            base = a0.value if (transposed and isinstance(a0, ast.Attribute) and a0.attr == "T") else (None if transposed else a0)
            if transposed and base is None and isinstance(origin(d, a0), ast.Attribute) and origin(d, a0).attr == "T":
                base = origin(d, a0).value
            ok = base is not None and not (not transposed and isinstance(origin(d, base), ast.Attribute) and origin(d, base).attr == "T")
            if ok:
                ok2 = norm(origin(d, base)) == f"stoichiometric_matrix({fi.params[0]})"
        rep.ob("O17.1", "SHAPE", fi, ok, "_null_space(S.T)" if transposed else "_null_space(S)", what)
        rep.ob("O17.1", "SHAPE", fi, ok2, "S = stoichiometric_matrix(crn)", "the kernel is taken of the network's stoichiometric matrix")
    # the kernel routine computes the basis from the matrix it is given: a basis taken out of a store must be keyed by the whole matrix -
    # content AND shape (the bytes of S and of S.T coincide for a single row / column, and kernels of the two are asked one after the other)
    from ..rules import provenance as PV
    ns = rep.f(ST, "_null_space")
    nd = local_defs(ns.node)
    nrets = [r for r in returns_of(ns.node) if r.value is not None]
    rep.need("SHAPE", len(nrets), 1, "returns of _null_space")
    lk = PV.persistent_lookups(ns, [x for r in nrets for x in PV.all_roots(nd, r.value)], nd)
    for r, cont, key in lk:
        comps = PV.all_roots(nd, key) if key is not None else []
        flat = [c for c in comps if isinstance(c, ast.Call) and isinstance(c.func, ast.Attribute) and c.func.attr in ("tobytes", "tostring", "dumps")]
        flat += [c for c in comps if isinstance(c, ast.Call) and call_name(c) in ("bytes", "hash") and c.args]
        okk = None
        if flat:
            arr = norm(flat[0].func.value) if isinstance(flat[0].func, ast.Attribute) else norm(flat[0].args[0])
            has_shape = any(isinstance(a, ast.Attribute) and a.attr == "shape" and norm(a.value) == arr for c in comps for a in ast.walk(c))
            okk = True if has_shape else False
        rep.ob("O17.1", "SHAPE", ns, okk, key if key is not None else r, f"a kernel basis served from `{cont}` is keyed by the content and the shape of the matrix"
               + ("" if okk is not False else " (the flattened bytes alone are shared by S and S.T when S is a single row or column: the wrong kernel is returned)"), node=r)
    if not lk:
        rep.ob("O17.1", "SHAPE", ns, True, f"{len(nrets)} returns", "the kernel basis is computed from the matrix given in this call")
    rk = rep.f(ST, "stoichiometric_rank")
    rets = returns_of(rk.node)
    ok = False
    other = None
    if rets:
        def _leaves(e):
            return _leaves(e.body) + _leaves(e.orelse) if isinstance(e, ast.IfExp) else [e]
        rd = local_defs(rk.node)
        ok = True
        for r_ in rets:
            for leaf in _leaves(r_.value):
                leaf = origin(rd, leaf)
                while isinstance(leaf, ast.Call) and call_name(leaf) == "int" and leaf.args:
                    leaf = origin(rd, leaf.args[0])
                good = isinstance(leaf, ast.Call) and call_name(leaf) == "matrix_rank" and leaf.args \
                    and norm(origin(rd, leaf.args[0])) == f"stoichiometric_matrix({rk.params[0]})"
                if not good:
                    ok, other = False, leaf
    rep.ob("O17.1", "SHAPE", rk, ok, other if other is not None else "np.linalg.matrix_rank(S)",
           "rank = matrix_rank(S) on every path (numpy's rank is the trusted base; a rank from another routine is not vouched for)")
    sv = rep.f(ST, "_svd_null_space")
    d = local_defs(sv.node)
    rets = [r for r in returns_of(sv.node) if isinstance(r.value, ast.Name)]
    ok = False
    if rets:
        ns = origin(d, rets[-1].value)
        m = pmatch("$vh[$rank:].T", ns)
        if m:
            rkv = origin(d, ast.Name(id=m["rank"], ctx=ast.Load()))
            m2 = pmatch("int(($s > $tol).sum())", rkv)
            svd = {x.index: nm_ for nm_, xs in d.items() for x in xs if x.index is not None and isinstance(x.value, ast.Call) and call_name(x.value) == "svd"}
            ok = m2 is not None and svd.get((2,)) == m["vh"] and svd.get((1,)) == m2["s"]
    rep.ob("O17.1", "SHAPE", sv, ok, "ns = vh[rank:].T with rank = #(s > tol)", "SVD fallback: kernel = right singular vectors beyond the numerical rank")
    icl = rep.f(ST, "integer_conservation_laws")
    lk = [c for c in walk_local(icl.node) if isinstance(c, ast.Call) and call_name(c) in ("left_nullspace", "right_nullspace")]
    rep.ob("O17.1", "SHAPE", icl, len(lk) == 1 and call_name(lk[0]) == "left_nullspace" and norm(lk[0].args[0]) == icl.params[0], "B = left_nullspace(...)", "integer laws are scaled left-kernel vectors")


# ------------------------------------------------------------------ R10
def _sign_of_cost(defs, c):
    src = origin(defs, c)
    t = norm(src)
    if isinstance(src, ast.Call) and call_name(src) == "zeros":
        return "zero", src
    if isinstance(src, ast.Call) and call_name(src) == "ones":
        return "pos", src
    if isinstance(src, ast.UnaryOp) and isinstance(src.op, ast.USub) and isinstance(src.operand, ast.Call) and call_name(src.operand) == "ones":
        return "neg", src
    if isinstance(src, ast.Call) and call_name(src) in ("sum",) or ".sum(axis=0)" in t or "@" in t:
        return "combination", src
    return "unknown", src


def _combined_matrix(src):
    """name of M when src is `M.sum(axis=0)`, `np.ones(..) @ M` or `M.T @ np.ones(..)`"""
    t = norm(src).replace(" ", "")
    if isinstance(src, ast.Call) and isinstance(src.func, ast.Attribute) and src.func.attr == "sum" and "axis=0" in t:
        return norm(src.func.value)
    if isinstance(src, ast.BinOp) and isinstance(src.op, ast.MatMult):
        l, r = src.left, src.right
        if isinstance(l, ast.Call) and call_name(l) == "ones":
            return norm(r)
        if isinstance(r, ast.Call) and call_name(r) == "ones" and isinstance(l, ast.Attribute) and l.attr == "T":
            return norm(l.value)
    return None


def _bounds(defs, b):
    """('lo finite?', 'hi finite?') for every variable"""
    if b is None:
        return True, False, None  # linprog default (0, None)
    src = origin(defs, b)
    elt = None
    if isinstance(src, ast.ListComp):
        elt = src.elt
    elif isinstance(src, ast.Tuple) and len(src.elts) == 2:
        elt = src
    elif isinstance(src, ast.BinOp) and isinstance(src.op, ast.Mult) and isinstance(src.left, ast.List) and src.left.elts:
        elt = src.left.elts[0]
    if isinstance(elt, ast.Tuple) and len(elt.elts) == 2:
        lo, hi = elt.elts
        return (not is_const(lo, None)), (not is_const(hi, None)), src
    return None, None, src


def lp_sites(rep):
    mod = rep.repo.module(ST)
    n = 0
    for q in ("_positive_conservation_law_from_basis", "is_consistent"):
        fi = rep.f(ST, q)
        defs = local_defs(fi.node)
        calls = [c for c in walk_local(fi.node) if isinstance(c, ast.Call) and call_name(c) == "linprog"]
        for c in calls:
            n += 1
            cost = c.args[0] if c.args else kwarg(c, "c")
            sign, csrc = _sign_of_cost(defs, cost)
            lo, hi, bsrc = _bounds(defs, kwarg(c, "bounds"))
            if sign == "zero":
                ok = True
            elif sign == "pos":
                ok = lo
            elif sign == "neg":
                ok = hi
            elif sign == "combination":
                # c = 1^T B with constraints B a >= margin:  c.a = sum(B a) >= n * margin  (bounded below)
                mat = _combined_matrix(csrc)
                aub = origin(defs, kwarg(c, "A_ub")) if kwarg(c, "A_ub") is not None else None
                bub = origin(defs, kwarg(c, "b_ub")) if kwarg(c, "b_ub") is not None else None
                ok = None
                if mat and aub is not None and bub is not None:
                    neg_same = isinstance(aub, ast.UnaryOp) and isinstance(aub.op, ast.USub) and norm(aub.operand) == mat
                    rhs_neg = norm(bub).startswith("-") and "np.ones" in norm(bub)
                    ok = True if (neg_same and rhs_neg) else None
            else:
                ok = None
            both = alpha(ast.Tuple(elts=[csrc] + ([bsrc] if bsrc is not None else []), ctx=ast.Load()), fi.node)
            construct = f"linprog: (c, bounds) = {both}" if bsrc is not None else f"linprog: c = {both}, bounds default (0, None)"
            rep.ob("O17.2", "R10", fi, ok, construct,
                   "the LP is used as a yes/no oracle, so its objective must be bounded below on every feasible set: with free variables and a "
                   "non-zero cost 'unbounded' is reported as 'no solution' (e.g. C + B >> F + A is called non-conservative)",
                   {"cost_sign": sign, "all_lower_bounds_finite": lo, "all_upper_bounds_finite": hi}, node=c)
            # how is failure mapped?
    # who relies on the conservation-law LP?  (while F-C17 is open, only the conservativity front-ends may)
    users = []
    for fi2 in rep.repo.module(ST).funcs.values():
        if ".<locals>." in fi2.qual or fi2.qual == "_positive_conservation_law_from_basis":
            continue
        for c2 in walk_local(fi2.node, into_nested=True):
            if isinstance(c2, ast.Call) and call_name(c2) == "_positive_conservation_law_from_basis":
                users.append((fi2, c2))
    for fi2, c2 in users:
        ok2 = fi2.qual in ("is_conservative", "compute_conservativity")
        arg = norm(c2.args[0]) if c2.args else "?"
        rep.ob("O17.2", "R10", fi2, ok2, f"{fi2.qual}: {alpha(c2, fi2.node)[:70]}",
               "the coefficient-space LP is only an oracle for positive *conservation laws*; any other decision routed through it inherits its boundedness defect "
               "(unbounded read as 'no solution')", node=c2)
    rep.need("R10", n, 1, "linprog call sites in stoich.py")
    # no other linprog site in the analysed CRN property modules
    others = []
    for fi in rep.repo.all_funcs():
        if fi.rel.startswith("synkit/CRN/") and fi.rel != ST and ".<locals>." not in fi.qual:
            for c in walk_local(fi.node, into_nested=True):
                if isinstance(c, ast.Call) and call_name(c) == "linprog":
                    others.append(f"{fi.key}:{c.lineno}")
    for o in others:
        rep.note(f"C17 sweep: further linprog site {o} (belongs to no listed property)")
    rep.extra["linprog_sites_elsewhere_in_CRN"] = others


def degenerate_cases_on_S(rep):
    """the trivial cases of the two decisions (no reaction / no species) are decided on the shape of the network's own S: the matrix is not filtered or
    re-bound before its shape is taken (a network whose every reaction is a null reaction has S = 0 with n_reactions > 0 and IS consistent)"""
    for q in ("is_consistent", "is_conservative"):
        fi = rep.repo.maybe_func(ST, q)
        if fi is None:
            continue
        d = local_defs(fi.node)
        shp = [x for nm, xs in d.items() for x in xs if x.index is not None and isinstance(x.value, ast.Attribute) and x.value.attr == "shape" and isinstance(x.value.value, ast.Name)]
        if not shp:
            continue
        Sname = shp[0].value.value.id
        line = min(x.stmt.lineno for x in shp)
        before = [x for x in d.get(Sname, []) if x.kind != "param" and getattr(x.stmt, "lineno", 0) < line]
        ok = len(before) == 1 and isinstance(before[0].value, ast.Call) and call_name(before[0].value) in ("stoichiometric_matrix", "build_S", "asarray", "array")
        extra = [x for x in before if not (isinstance(x.value, ast.Call) and call_name(x.value) in ("stoichiometric_matrix", "build_S", "asarray", "array"))]
        rep.ob("O17.3", "SHAPE", fi, ok, extra[0].stmt if extra else shp[0].stmt, f"{q}: the degenerate cases are decided on the shape of the network's own S "
               "(S is not filtered / re-bound before `S.shape` is read)", node=extra[0].stmt if extra else shp[0].stmt)


def witnesses(rep):
    fi = rep.f(ST, "_positive_conservation_law_from_basis")
    Bp = fi.params[0]
    cfg = CFG(fi.node)
    pm = parent_map(fi.node)
    defs = local_defs(fi.node)
    pos = [r for r in returns_of(fi.node) if isinstance(r.value, ast.Tuple) and not is_const(r.value.elts[0], None)]
    rep.need("DOM", len(pos), 2, "positive returns of _positive_conservation_law_from_basis")
    rep.need("DOM", len([r for r in pos if is_const(r.value.elts[1], True)]), 1, "LP witness return")
    rep.need("DOM", len([r for r in pos if is_const(r.value.elts[1], False)]), 1, "basis-vector witness return")
    for r in pos:
        flag = r.value.elts[1]
        w = r.value.elts[0]
        conds = [t for t, s in guards_of(pm, r, fi.node) if s]
        if isinstance(w, ast.Name):
            # `law = X if C else None` returned under `law is not None`: the witness is X and C holds
            src = origin(defs, w)
            if isinstance(src, ast.IfExp) and any(pmatch(f"{w.id} is not None", t) is not None for t in conds):
                if is_const(src.orelse, None):
                    conds, w = conds + [src.test], src.body
                elif is_const(src.body, None):
                    conds, w = conds + [ast.UnaryOp(op=ast.Not(), operand=src.test)], src.orelse
        wm = isinstance(w, ast.BinOp) and isinstance(w.op, ast.Div) and pmatch("np.sum($$m)", w.right) is not None and norm(w.right.args[0]) == norm(w.left)
        if not wm:
            rep.ob("O17.3", "DOM", fi, None, alpha(r, fi.node), "returned witness is not of the form m / sum(m)", node=r)
            continue
        Mx = w.left
        M = norm(Mx)
        if is_const(flag, True):
            # LP path: must be dominated by the re-check `if not np.all(m > eps): return None, True`
            checks = [n for n in cfg.stmts() if isinstance(n, ast.If) and pmatch(f"not np.all({M} > eps)", n.test) is not None
                      and isinstance(n.body[-1], ast.Return)]
            ok = bool(checks) and cfg.all_paths_pass(ENTRY, r, checks, {checks[0]: False})
            rep.ob("O17.3", "DOM", fi, ok, "return m / np.sum(m), True", "an LP witness is returned only after it was re-checked to be strictly positive", node=r)
            msrc = [d for d in defs.get(M, []) if d.kind == "assign" and pmatch(f"{Bp} @ $a", d.value) is not None]
            oka = False
            if msrc:
                a_ = pmatch(f"{Bp} @ $a", msrc[0].value)["a"]
                oka = "res.x" in norm(origin(defs, ast.Name(id=a_, ctx=ast.Load()))) or any(
                    isinstance(x, ast.Attribute) and x.attr == "x" for x in ast.walk(origin(defs, ast.Name(id=a_, ctx=ast.Load()))))
            rep.ob("O17.3", "DOM", fi, oka, "m = B @ a", "the LP witness is a combination of left-kernel vectors (so it annihilates S)")
        else:
            gs = conds
            col = None
            for t in gs:
                m = pmatch("np.all($$c > eps) or np.all($$c < -eps)", t)
                if m is not None:
                    col = m["c"]
            rep.ob("O17.3", "DOM", fi, col is not None, "return under np.all(col > eps) or np.all(col < -eps)" if col else f"return under {[norm(t) for t in gs]}",
                   "a basis vector is accepted only if all its entries are strictly positive (or all strictly negative, then negated)", node=r)
            if isinstance(Mx, ast.Name):
                lds = [d for d in defs.get(M, []) if d.kind == "assign" and isinstance(d.value, ast.IfExp)]
                # the definition that reaches this return: the closest one above it
                above = [d for d in lds if d.stmt.lineno <= r.lineno]
                msrc = [max(above, key=lambda d: d.stmt.lineno).value] if above else []
            else:
                msrc = [Mx] if isinstance(Mx, ast.IfExp) else []
            ok2 = col is not None and bool(msrc) and all(pmatch(f"{col} if np.all({col} > 0) else -{col}", v_) is not None for v_ in msrc)
            rep.ob("O17.3", "DOM", fi, ok2, "m = col if np.all(col > 0) else -col", "a negative basis vector is negated before it is returned")
    # lp_attempted flag: True only after linprog was actually called
    for r in returns_of(fi.node):
        if isinstance(r.value, ast.Tuple) and is_const(r.value.elts[1], True):
            lpcalls = [cfg.stmt_of(c) for c in walk_local(fi.node) if isinstance(c, ast.Call) and call_name(c) == "linprog"]
            lpcalls = [x for x in lpcalls if x is not None]
            trys = [n for n in cfg.stmts() if isinstance(n, ast.Try) and any(x is l for l in lpcalls for x in ast.walk(n))]
            through = lpcalls + trys
            ok = bool(through) and cfg.all_paths_pass(ENTRY, r, through)
            rep.ob("O17.3", "DOM", fi, ok, alpha(r, fi.node), "lp_attempted=True is reported only on paths that went through the LP", node=r)
    ic = rep.f(ST, "is_conservative")
    pm = parent_map(ic.node)
    idefs = local_defs(ic.node)
    up = {x.index: nm for nm, xs in idefs.items() for x in xs if x.index is not None and isinstance(x.value, ast.Call) and call_name(x.value) == "_positive_conservation_law_from_basis"}
    WIT, ATT = up.get((0,)), up.get((1,))
    Bv = [nm for nm, xs in idefs.items() for x in xs if x.kind == "assign" and isinstance(x.value, ast.Call) and call_name(x.value) == "left_nullspace"]
    Bv = Bv[0] if Bv else "?"
    # is_conservative is a decision function of (no reactions?, kernel trivial?, witness found?, kernel dimension, LP attempted?): tabulate it
    from ..absval import eval_function, _NOVALUE, eval_expr as _ev
    bad, decided = [], True
    for nr in (0, 2):
        for bval, bsize in ((None, 0), ("<B>", 0), ("<B>", 3)):
            for wit in (None, "<w>"):
                for att in (False, True):
                    for k in (1, 2):
                        def hook(expr, env, nr=nr, bval=bval, bsize=bsize, wit=wit, att=att, k=k):
                            if isinstance(expr, ast.Call):
                                cn = call_name(expr)
                                if cn == "stoichiometric_matrix":
                                    return "<S>"
                                if cn == "left_nullspace":
                                    return bval
                                if cn == "atleast_2d" and len(expr.args) == 1:
                                    return _ev(expr.args[0], env)
                                if cn == "_positive_conservation_law_from_basis":
                                    return (wit, att)
                            if isinstance(expr, ast.Attribute) and expr.attr in ("shape", "size"):
                                base = _ev(expr.value, env)
                                if base == "<S>" and expr.attr == "shape":
                                    return (3, nr)
                                if base == "<B>":
                                    return (3, k) if expr.attr == "shape" else bsize
                            return _NOVALUE
                        if nr == 0:
                            want = True
                        elif bval is None or bsize == 0:
                            want = False
                        elif wit is not None:
                            want = True
                        elif k == 1 or att:
                            want = False
                        else:
                            want = None
                        try:
                            got = eval_function(ic.node, {"__resolve__": hook, ic.params[0]: "<crn>", "eps": 1e-8})
                        except Undecided:
                            decided = False
                            break
                        if got is not want:
                            bad.append(f"reactions={nr}, kernel={'none' if bval is None else bsize}, witness={'yes' if wit else 'no'}, lp_attempted={att}, dim={k}: {got!r} (expected {want!r})")
    if decided:
        rep.ob("O17.3", "DOM", ic, not bad, "is_conservative on all combinations of (witness, LP attempted, kernel dimension)",
               "True iff a positive law was found; a definitive False only from a trivial kernel, a one-dimensional kernel or an attempted LP; None otherwise",
               {"disagreements": bad[:6]})
    else:
        for r in [x for x in returns_of(ic.node) if is_const(x.value, False)]:
            gs = [norm(t) for t, s in guards_of(pm, r, ic.node) if s]
            okd = {ATT, f"{Bv} is None or {Bv}.size == 0", f"{Bv}.shape[1] == 1"}
            ok = any(g in okd or (isinstance(t, ast.BoolOp) and isinstance(t.op, ast.Or) and all(norm(v_) in okd for v_ in t.values))
                     for g, t in [(norm(t_), t_) for t_, s_ in guards_of(pm, r, ic.node) if s_])
            rep.ob("O17.3", "DOM", ic, True if ok else None, f"return False under {len(gs)} guard(s)", "a definitive 'not conservative' comes only from a trivial kernel or an attempted LP", {"guards": gs}, node=r)
    # is_consistent
    cs = rep.f(ST, "is_consistent")
    pm = parent_map(cs.node)
    d = local_defs(cs.node)
    aeq = [c for c in walk_local(cs.node) if isinstance(c, ast.Call) and call_name(c) == "linprog"]
    RES = [nm for nm, xs in d.items() for x in xs if aeq and x.value is aeq[0]]
    RES = RES[0] if RES else "?"
    Sv = [nm for nm, xs in d.items() for x in xs if x.kind == "assign" and norm(x.value) == f"stoichiometric_matrix({cs.params[0]})"]
    Sv = Sv[0] if Sv else "?"
    trues = [r for r in returns_of(cs.node) if is_const(r.value, True)]
    for r in trues:
        gs = [t for t, s in guards_of(pm, r, cs.node) if s]
        flat = [cj for t in gs for cj in conjunct_nodes(t)]
        if any(norm(cj) == f"{RES}.success" for cj in flat):
            errs = [pmatch("$e <= $$tol", cj) for cj in flat]
            errs = [m for m in errs if m]
            okr = False
            V = None
            if errs:
                # rel_err = norm(residual) / max_v ; residual = S @ v ; v = res.x
                esrc = origin(d, ast.Name(id=errs[0]["e"], ctx=ast.Load()))
                names = [x.id for x in ast.walk(esrc) if isinstance(x, ast.Name)]
                for nm in names:
                    m2 = pmatch(f"{Sv} @ $v", origin(d, ast.Name(id=nm, ctx=ast.Load())))
                    if m2:
                        # the flux is the solver's point, bound inside the same success branch as this return
                        rg = [(norm(t_), s_) for t_, s_ in guards_of(pm, r, cs.node)]
                        for x in d.get(m2["v"], []):
                            if x.kind == "assign" and norm(x.value) == f"{RES}.x":
                                xg = [(norm(t_), s_) for t_, s_ in guards_of(pm, x.stmt, cs.node)]
                                if all(g in rg for g in xg):
                                    okr, V = True, m2["v"]
            rep.ob("O17.3", "DOM", cs, okr, "return True under rel_err <= tol", "the LP flux is accepted only after its residual S v was checked (residual of the returned flux)", node=r)
            okp = V is not None and any(pmatch(f"np.all({V} > $$e)", cj) is not None for cj in flat)
            rep.ob("O17.3", "DOM", cs, okp, "return True under np.all(v > eps)" if okp else f"return True under {[norm(c_) for c_ in flat]}",
                   "the LP flux is accepted as a witness only after it was re-checked to be strictly positive (solver bounds hold only up to tolerance: "
                   "`A >> B, A >> B` is reported consistent from the point (-1e-8, 1e-8))", node=r)
    if aeq:
        c = aeq[0]
        shp = {x.index: nm for nm, xs in d.items() for x in xs if x.index is not None and norm(x.value) == f"{Sv}.shape"}
        ok = norm(origin(d, kwarg(c, "A_eq"))) in (Sv, f"stoichiometric_matrix({cs.params[0]})") and norm(origin(d, kwarg(c, "b_eq"))) == f"np.zeros({shp.get((0,))})"
        rep.ob("O17.3", "SHAPE", cs, ok, "linprog(c, A_eq=S, b_eq=0, ...)", "the LP encodes S v = 0", node=c)
        lo, hi, bsrc = _bounds(d, kwarg(c, "bounds"))
        elt = None
        if isinstance(bsrc, ast.ListComp):
            elt = bsrc.elt
        elif isinstance(bsrc, ast.BinOp) and isinstance(bsrc.left, ast.List) and bsrc.left.elts:
            elt = bsrc.left.elts[0]
        okb = None
        if isinstance(elt, ast.Tuple) and len(elt.elts) == 2:
            lo_ = elt.elts[0]
            try:
                okb = const(lo_) is not None and const(lo_) > 0
            except (ValueError, TypeError):
                okb = True if norm(lo_) == "eps" else None
        rep.ob("O17.3", "SHAPE", cs, okb, alpha(bsrc, cs.node) if bsrc is not None else "bounds", "every flux component has a strictly positive lower bound (strict positivity)", node=c)
        rep.ob("O17.3", "SHAPE", cs, (not hi) if hi is not None else None, alpha(bsrc, cs.node) if bsrc is not None else "bounds",
               "no flux component is bounded above: positive steady fluxes form a cone, and `v >= 1` reaches every ray only if v may be scaled up freely "
               "(a cap rejects networks whose positive flux needs a large ratio between reactions, e.g. a cascade 1:3:9:27:81:243)", node=c)


def _list_over(fn, defs, pm, name):
    """text of the sequence whose k-th element determines the k-th entry of list `name` (comprehension or append loop without guards)"""
    src = origin(defs, ast.Name(id=name, ctx=ast.Load()))
    if isinstance(src, ast.ListComp) and len(src.generators) == 1 and not src.generators[0].ifs:
        return norm(src.generators[0].iter)
    apps = [c for c in walk_local(fn) if isinstance(c, ast.Call) and norm(c.func) == f"{name}.append"]
    if len(apps) == 1:
        lps = enclosing_loops(pm, apps[0], fn)
        if len(lps) == 1 and not guards_of(pm, apps[0], lps[0]) and not [x for x in walk_local(lps[0]) if isinstance(x, (ast.Break, ast.Continue))]:
            it = lps[0].iter
            return norm(it.args[0]) if isinstance(it, ast.Call) and call_name(it) == "enumerate" and len(it.args) == 1 and not it.keywords else norm(it)
    return None


def _index_over(fn, defs, pm, name):
    """text of the sequence whose k-th element is mapped to k by dict `name`"""
    src = origin(defs, ast.Name(id=name, ctx=ast.Load()))
    if isinstance(src, ast.DictComp) and len(src.generators) == 1 and not src.generators[0].ifs:
        g = src.generators[0]
        if isinstance(g.iter, ast.Call) and call_name(g.iter) == "enumerate" and len(g.iter.args) == 1 and not g.iter.keywords \
                and isinstance(g.target, ast.Tuple) and len(g.target.elts) == 2 and norm(src.key) == norm(g.target.elts[1]) and norm(src.value) == norm(g.target.elts[0]):
            return norm(g.iter.args[0])
        return None
    m = pmatch("dict(zip($$seq, range(len($$seq))))", src)
    if m is not None:
        return norm(src.args[0].args[0])
    ws = [(t, v, st) for t, v, st in assigned_subscripts(fn) if norm(t.value) == name]
    if len(ws) == 1:
        t, v, st = ws[0]
        lps = enclosing_loops(pm, st, fn)
        if len(lps) == 1 and not guards_of(pm, st, lps[0]) and isinstance(lps[0].iter, ast.Call) and call_name(lps[0].iter) == "enumerate" \
                and len(lps[0].iter.args) == 1 and not lps[0].iter.keywords and isinstance(lps[0].target, ast.Tuple) and len(lps[0].target.elts) == 2 \
                and norm(t.slice) == norm(lps[0].target.elts[1]) and norm(v) == norm(lps[0].target.elts[0]) \
                and not [x for x in walk_local(lps[0]) if isinstance(x, (ast.Break, ast.Continue))]:
            return norm(lps[0].iter.args[0])
    return None


def ordering(rep):
    """row / column k of the matrices is label k: each returned label list and its index map are positional over the same sequence"""
    fi = rep.f(UT, "_species_and_reaction_order")
    defs = local_defs(fi.node)
    pm = parent_map(fi.node)
    rets_ = returns_of(fi.node)
    ret_names = [norm(e) for e in rets_[-1].value.elts] if rets_ and isinstance(rets_[-1].value, ast.Tuple) and all(isinstance(e, ast.Name) for e in rets_[-1].value.elts) else []
    n = 0
    for lab, idx in (zip(ret_names[:2], ret_names[2:4]) if len(ret_names) == 4 else []):
        n += 1
        a_, b_ = _list_over(fi.node, defs, pm, lab), _index_over(fi.node, defs, pm, idx)
        ok = None if a_ is None or b_ is None else a_ == b_
        rep.ob("O17.1", "SHAPE", fi, ok, f"{lab} over {a_} / {idx} over {b_}", "labels and index maps are filled from the same sequence, position by position (row/column k is label k)",
               node=rets_[-1])
    rep.need("SHAPE", n, 2, "(label list, index map) pairs returned by _species_and_reaction_order")


MUTANTS = [
    dict(name="S sign flipped", file=ST, expect="O17.1", old="    S = S_plus - S_minus", new="    S = S_minus - S_plus"),
    dict(name="roles swapped in the matrices", file=ST, expect="O17.1",
         old='        if role == "reactant":\n            S_minus[i, j] += coeff\n        elif role == "product":\n            S_plus[i, j] += coeff',
         new='        if role == "product":\n            S_minus[i, j] += coeff\n        elif role == "reactant":\n            S_plus[i, j] += coeff'),
    dict(name="left kernel of S instead of S.T", file=ST, expect="O17.1", old="    return _null_space(S.T, rtol=rtol)", new="    return _null_space(S, rtol=rtol)"),
    dict(name="is_consistent with free variables", file=ST, expect="O17.2", old="        bounds = [(1.0, None) for _ in range(n_reactions)]", new="        bounds = [(None, None) for _ in range(n_reactions)]"),
    dict(name="revert F-C17b (flux accepted without positivity re-check)", revert_patch="notes/fixes/C17b.patch", expect="O17.3"),
    dict(name="conservation LP maximises", file=ST, expect="O17.2", old="    c = np.ones(k_dim, dtype=float)", new="    c = -np.ones(k_dim, dtype=float)"),
    dict(name="LP witness not re-checked", file=ST, expect="O17.3", old="    if not np.all(m > eps):\n        return None, True\n\n    return m / np.sum(m), True", new="    return m / np.sum(m), True"),
    dict(name="residual check dropped", file=ST, expect="O17.3",
         old="            if rel_err <= 1e-8 and np.all(v > eps):\n                return True\n            else:\n                return False", new="            if np.all(v > eps):\n                return True\n            else:\n                return False"),
    dict(name="coefficient overwritten instead of accumulated", file=ST, expect="O17.1", old="            S_plus[i, j] += coeff", new="            S_plus[i, j] = coeff"),
    dict(name="rows indexed by the reaction end", file=ST, expect="O17.1", old="        i = species_index[s_node]\n        j = reaction_index[r_node]", new="        i = species_index[r_node]\n        j = reaction_index[s_node]"),
    dict(name="basis scan accepts non-negative vectors", file=ST, expect="O17.3",
         old="    for j in range(k_dim):\n        col = B[:, j]\n        if np.all(col > eps) or np.all(col < -eps):", new="    for j in range(k_dim):\n        col = B[:, j]\n        if np.all(col >= 0) or np.all(col <= 0):"),
    dict(name="definitive False without an LP", file=ST, expect="O17.3",
         old="    if lp_attempted:\n        # LP was attempted and failed → no strictly positive combination.\n        return False", new="    if True:\n        return False"),
    dict(name="lp_attempted claimed before the LP", file=ST, expect="O17.3",
         old="    if not use_lp or (not _SCIPY_AVAILABLE or linprog is None):\n        return None, False", new="    if not use_lp or (not _SCIPY_AVAILABLE or linprog is None):\n        return None, True"),
    dict(name="SVD kernel keeps the range vectors", file=ST, expect="O17.1", old="    ns = vh[rank:].T  # shape (n, k)", new="    ns = vh[:rank].T  # shape (n, k)"),
    dict(name="incidence matrix sign of products", file=HG, expect="O17.1", old="                    mapping[(s, eid)] = mapping.get((s, eid), 0) + int(c)", new="                    mapping[(s, eid)] = mapping.get((s, eid), 0) - int(c)"),
]

TWINS = [
    dict(name="repaired conservation LP (c = 1^T B, margin 1) is accepted and silences the known finding", file=ST,
         old="    b_ub = -eps * np.ones(m_dim, dtype=float)\n    c = np.ones(k_dim, dtype=float)", new="    b_ub = -1.0 * np.ones(m_dim, dtype=float)\n    c = B.sum(axis=0)"),
    dict(name="S written as negated difference", file=ST, old="    S = S_plus - S_minus", new="    S = -S_minus + S_plus"),
    dict(name="bounds as a repeated list", file=ST, old="        bounds = [(1.0, None) for _ in range(n_reactions)]", new="        bounds = [(1.0, None)] * n_reactions"),
]


def netfold(rep):
    from ..rules import netfold as NF
    NF.check(rep, "O17.1", (ST, "synkit/CRN/Hypergraph/conversion.py", UT), "S, its rank, both kernels and every decision built on them are wrong")


def summary_wiring(rep):
    """StoichSummary.from_crn reports the verdicts of is_conservative / is_consistent themselves (and None when a check is switched off):
    a shortcut that decides one of them from rank and shape re-implements the decision and can disagree with it"""
    fi = rep.f(ST, "StoichSummary.from_crn")
    crn = fi.params[1]
    defs = local_defs(fi.node)
    cons = [c for c in walk_local(fi.node) if isinstance(c, ast.Call) and isinstance(c.func, ast.Name) and c.func.id == "cls"]
    rep.need("SHAPE", len(cons), 1, "cls(...) in StoichSummary.from_crn")
    kws = {k.arg: k.value for k in cons[0].keywords}
    for field, fn_name, flag in (("is_consistent", "is_consistent", "consistency_check"), ("is_conservative", "is_conservative", "conservativity_check")):
        v = kws.get(field)
        srcs = [d_.value for d_ in defs.get(v.id, []) if d_.value is not None] if isinstance(v, ast.Name) else ([v] if v is not None else [])
        bad = []
        for e in srcs:
            okv = is_const(e, None) or pmatch(f"{fn_name}({crn})", e) is not None or pmatch(f"{fn_name}({crn}) if {flag} else None", e) is not None
            if not okv:
                bad.append(e)
        rep.ob("O17.3", "SHAPE", fi, bool(srcs) and not bad, alpha(bad[0], fi.node) if bad else f"{field} <- {fn_name}(crn) | None",
               f"the summary's `{field}` is the verdict of {fn_name}(crn) (or None when the check is off), never a value decided elsewhere", node=bad[0] if bad else cons[0])
    rk = kws.get("rank")
    rsrc = origin(defs, rk) if rk is not None else None
    okr = rsrc is not None and any(isinstance(c, ast.Call) and call_name(c) == "matrix_rank" and norm(origin(defs, c.args[0])) == f"stoichiometric_matrix({crn})" for c in ast.walk(rsrc))
    rep.ob("O17.1", "SHAPE", fi, okr, alpha(rsrc, fi.node) if rsrc is not None else "rank", "the summary's rank is matrix_rank of the network's stoichiometric matrix")
