"""C17 - stoichiometric analysis agrees with exact linear algebra."""
from __future__ import annotations

import ast

from ..absval import Lin, Undecided, linform, eval_expr
from ..cfg import CFG, ENTRY
from ..core import (AnalysisError, call_name, dotted, is_const, local_defs, norm, origin, parent_map,
                    walk_local, kwarg, const)
from ..facts import guards_of, returns_of, enclosing_loops, assigned_subscripts, unpack_of

ST = "synkit/CRN/Props/stoich.py"
UT = "synkit/CRN/Props/utils.py"
HG = "synkit/CRN/Hypergraph/hypergraph.py"

META = {
    "explanation": (
        "R15/R13: S = S_plus - S_minus as a linear form; role->matrix assignment (reactant arcs fill S_minus, product "
        "arcs S_plus), rows indexed by the species end and columns by the reaction end of each arc, sign agreement with "
        "CRNHyperGraph.incidence_matrix; left kernel = null space of S.T, right kernel = null space of S, rank = "
        "matrix_rank(S). R10 LP-as-oracle: at every linprog site whose failure is mapped to a negative verdict the "
        "objective must be bounded below on every feasible set by construction (c == 0, or c >= 0 with finite lower "
        "bounds, or c <= 0 with finite upper bounds); otherwise 'unbounded' is read as 'no solution'. Witness "
        "discipline (CFG dominance): a positive verdict is returned only after the witness was re-checked "
        "(np.all(m > eps), residual test); the definitive False of is_conservative is reachable only on the LP path."
    ),
    "rules": {"R15": "symbolic matrix arithmetic", "R13": "sibling sign agreement", "R10": "LP boundedness at oracle sites",
              "DOM": "witness re-check dominates every positive return", "SHAPE": "kernel/rank wiring"},
    "not_decided": "numerical rank and kernels (tolerances, SVD) as values; agreement with exact rational arithmetic",
    "trusted_base": ["CPython ast", "sa/* analyser", "scipy.optimize.linprog semantics (status 3 = unbounded -> success False)", "numpy matrix_rank / scipy null_space"],
    "assumptions": [],
}


def run(rep):
    rep.run(matrices)
    rep.run(kernels)
    rep.run(lp_sites)
    rep.run(witnesses)
    rep.run(ordering)


def matrices(rep):
    bs = rep.f(ST, "build_S")
    defs = local_defs(bs.node)
    s = [d for d in defs.get("S", []) if d.kind == "assign"]
    rep.need("R15", len(s), 1, "S = ... in build_S")
    if not any(isinstance(n, ast.BinOp) for n in ast.walk(s[0].value)) or "zeros" in norm(s[0].value):
        # direct fill of S: every arc must be ACCUMULATED with the sign of its role
        fills = [n for n in walk_local(bs.node) if isinstance(n, (ast.Assign, ast.AugAssign)) and
                 any(isinstance(t, ast.Subscript) and norm(t.value) == "S" for t in (n.targets if isinstance(n, ast.Assign) else [n.target]))]
        if not fills:
            rep.ob("O17.1", "R15", bs, None, s[0].stmt, "S is neither S_plus - S_minus nor filled entry by entry")
        for n in fills:
            rep.ob("O17.1", "R15", bs, isinstance(n, ast.AugAssign) and isinstance(n.op, (ast.Add, ast.Sub)), n,
                   "entries of S are accumulated (+=): a species on both sides of one reaction, or parallel arcs, must add up to produced minus consumed "
                   "(a plain assignment keeps only the last arc)", node=n)
        return

    def atom(n):
        if isinstance(n, ast.Name):
            up = unpack_of(defs, n.id)
            if up and isinstance(up[0], ast.Call) and call_name(up[0]) == "build_S_minus_plus":
                return {2: "S_minus", 3: "S_plus"}.get(up[1][0], f"ret[{up[1][0]}]")
        return None
    try:
        lf = linform(s[0].value, atom)
        rep.ob("O17.1", "R15", bs, lf == Lin({"S_plus": 1, "S_minus": -1}), s[0].stmt, "S == S_plus - S_minus (produced minus consumed)", {"linear_form": lf.pretty()})
    except Undecided as exc:
        rep.ob("O17.1", "R15", bs, None, s[0].stmt, str(exc))
    mp = rep.f(ST, "build_S_minus_plus")
    pm = parent_map(mp.node)
    rets = returns_of(mp.node)
    ok = len(rets) == 1 and isinstance(rets[0].value, ast.Tuple) and [norm(e) for e in rets[0].value.elts][2:] == ["S_minus", "S_plus"]
    rep.ob("O17.1", "R15", mp, ok, rets[0] if rets else "return", "build_S_minus_plus returns (.., S_minus, S_plus) in the order build_S unpacks")
    mdefs = local_defs(mp.node)
    fills = {}
    for n in walk_local(mp.node):
        if isinstance(n, ast.AugAssign) and isinstance(n.target, ast.Subscript) and norm(n.target.value) in ("S_minus", "S_plus"):
            gs = guards_of(pm, n, mp.node)
            role = None
            for t, sense in gs:
                if isinstance(t, ast.Compare) and isinstance(t.ops[0], ast.Eq) and sense and "role" in norm(t.left) and isinstance(t.comparators[0], ast.Constant):
                    role = t.comparators[0].value
                    break
            fills[norm(n.target.value)] = (role, n)
    want = {"S_minus": "reactant", "S_plus": "product"}
    for m, r in want.items():
        got = fills.get(m, (None, None))
        rep.ob("O17.1", "R13", mp, got[0] == r, got[1] if got[1] is not None else m, f"{m} is filled from arcs with role '{r}'", {"role": got[0]}, node=got[1])
        if got[1] is not None:
            n = got[1]
            rep.ob("O17.1", "R15", mp, isinstance(n.op, ast.Add) and norm(n.value) == "coeff", n, "coefficients are accumulated (parallel arcs add up)", node=n)
            idx = n.target.slice
            ok = isinstance(idx, ast.Tuple) and [norm(e) for e in idx.elts] == ["i", "j"]
            rep.ob("O17.1", "R15", mp, ok, n.target, "entry [species row, reaction column]", node=n)
    ok = norm(origin(mdefs, ast.Name(id="i", ctx=ast.Load()))) == "species_index[s_node]" and norm(origin(mdefs, ast.Name(id="j", ctx=ast.Load()))) == "reaction_index[r_node]"
    rep.ob("O17.1", "R15", mp, ok, "i = species_index[s_node]; j = reaction_index[r_node]", "rows are indexed by the species end, columns by the reaction end")
    cf = origin(mdefs, ast.Name(id="coeff", ctx=ast.Load()))
    ok = isinstance(cf, ast.Call) and "data.get('stoich', 1" in norm(cf)
    rep.ob("O17.1", "R15", mp, ok, cf, "the coefficient is the arc's 'stoich' (default 1)")
    # species/reaction end classification
    sel = [n for n in walk_local(mp.node) if isinstance(n, ast.Assign) and isinstance(n.targets[0], ast.Tuple) and [norm(e) for e in n.targets[0].elts] == ["s_node", "r_node"]]
    ok = len(sel) == 2
    if ok:
        for n in sel:
            gs = guards_of(pm, n, mp.node)
            vals = [norm(e) for e in n.value.elts]
            t = norm(gs[0][0]) if gs else ""
            first = vals[0]
            ok = ok and (f"{first}_data.get('kind') == 'species'" in t)
    rep.ob("O17.1", "R15", mp, ok, [norm(n) for n in sel], "the end tagged 'species' becomes the row, the end tagged 'reaction' the column")
    lp = [l for l in walk_local(mp.node) if isinstance(l, ast.For)]
    ok = bool(lp) and norm(lp[0].iter).replace(" ", "") == "G.edges(data=True)"
    rep.ob("O17.1", "R15", mp, ok, lp[0].iter if lp else "for", "every arc of the view contributes")
    shapes = [norm(d.value) for nm in ("S_minus", "S_plus") for d in mdefs.get(nm, []) if d.kind == "assign"]
    rep.ob("O17.1", "R15", mp, all("np.zeros((n_species, n_reactions)" in s_ for s_ in shapes) and len(shapes) == 2, shapes, "matrices have one row per species and one column per reaction")
    # sibling: the network's own incidence matrix uses the same sign convention
    inc = rep.f(HG, "CRNHyperGraph.incidence_matrix")
    signs = {}
    for l in [x for x in walk_local(inc.node) if isinstance(x, ast.For)]:
        it = norm(l.iter)
        side = "reactants" if ".reactants.items()" in it else ("products" if ".products.items()" in it else None)
        if side is None:
            continue
        for st in l.body:
            sg = None
            if isinstance(st, ast.AugAssign):
                sg = -1 if isinstance(st.op, ast.Sub) else 1
            elif isinstance(st, ast.Assign) and isinstance(st.value, ast.BinOp):
                sg = -1 if isinstance(st.value.op, ast.Sub) else 1
            if sg is not None:
                signs.setdefault(side, set()).add(sg)
    rep.ob("O17.1", "R13", inc, signs == {"reactants": {-1}, "products": {1}}, str(signs), "incidence_matrix agrees: reactants negative, products positive")
    sm = rep.f(ST, "stoichiometric_matrix")
    d = local_defs(sm.node)
    up = unpack_of(d, "S")
    rep.ob("O17.1", "SHAPE", sm, up is not None and up[1] == (2,) and call_name(up[0]) == "build_S", "_, _, S = build_S(crn)", "stoichiometric_matrix is the S of build_S")


def kernels(rep):
    for q, want, what in (("left_nullspace", "S.T", "left kernel = null space of S transposed (m^T S = 0)"),
                          ("right_nullspace", "S", "right kernel = null space of S (S v = 0)")):
        fi = rep.f(ST, q)
        rets = returns_of(fi.node)
        ok = len(rets) == 1 and isinstance(rets[0].value, ast.Call) and call_name(rets[0].value) == "_null_space" and norm(rets[0].value.args[0]) == want
        rep.ob("O17.1", "SHAPE", fi, ok, rets[0] if rets else "return", what)
        d = local_defs(fi.node)
        rep.ob("O17.1", "SHAPE", fi, norm(origin(d, ast.Name(id="S", ctx=ast.Load()))) == "stoichiometric_matrix(crn)", "S = stoichiometric_matrix(crn)", "the kernel is taken of the network's stoichiometric matrix")
    rk = rep.f(ST, "stoichiometric_rank")
    rets = returns_of(rk.node)
    ok = len(rets) == 1 and "np.linalg.matrix_rank(S" in norm(rets[0].value)
    rep.ob("O17.1", "SHAPE", rk, ok, rets[0] if rets else "return", "rank = matrix_rank(S)")
    sv = rep.f(ST, "_svd_null_space")
    d = local_defs(sv.node)
    ns = origin(d, ast.Name(id="ns", ctx=ast.Load()))
    rkv = origin(d, ast.Name(id="rank", ctx=ast.Load()))
    ok = norm(ns) == "vh[rank:].T" and "(s > tol).sum()" in norm(rkv)
    rep.ob("O17.1", "SHAPE", sv, ok, f"rank={norm(rkv)}; ns={norm(ns)}", "SVD fallback: kernel = right singular vectors beyond the numerical rank")
    icl = rep.f(ST, "integer_conservation_laws")
    d = local_defs(icl.node)
    rep.ob("O17.1", "SHAPE", icl, "left_nullspace(crn" in norm(origin(d, ast.Name(id="B", ctx=ast.Load()))), "B = left_nullspace(...)", "integer laws are scaled left-kernel vectors")


# ------------------------------------------------------------------ R10
def _sign_of_cost(defs, c):
    src = origin(defs, c)
    t = norm(src)
    if isinstance(src, ast.Call) and call_name(src) == "zeros":
        return "zero", src
    if isinstance(src, ast.Call) and call_name(src) == "ones":
        return "pos", src
    if isinstance(src, ast.UnaryOp) and isinstance(src.op, ast.USub) and isinstance(src.operand, ast.Call) and call_name(src.operand) == "ones":
        return "neg", src
    if isinstance(src, ast.Call) and call_name(src) in ("sum",) or "B.sum(" in t or ".sum(axis=0)" in t or "@" in t:
        return "combination", src
    return "unknown", src


def _combined_matrix(src):
    """name of M when src is `M.sum(axis=0)`, `np.ones(..) @ M` or `M.T @ np.ones(..)`"""
    t = norm(src).replace(" ", "")
    if isinstance(src, ast.Call) and isinstance(src.func, ast.Attribute) and src.func.attr == "sum" and "axis=0" in t:
        return norm(src.func.value)
    if isinstance(src, ast.BinOp) and isinstance(src.op, ast.MatMult):
        l, r = src.left, src.right
        if isinstance(l, ast.Call) and call_name(l) == "ones":
            return norm(r)
        if isinstance(r, ast.Call) and call_name(r) == "ones" and isinstance(l, ast.Attribute) and l.attr == "T":
            return norm(l.value)
    return None


def _bounds(defs, b):
    """('lo finite?', 'hi finite?') for every variable"""
    if b is None:
        return True, False, None  # linprog default (0, None)
    src = origin(defs, b)
    elt = None
    if isinstance(src, ast.ListComp):
        elt = src.elt
    elif isinstance(src, ast.Tuple) and len(src.elts) == 2:
        elt = src
    elif isinstance(src, ast.BinOp) and isinstance(src.op, ast.Mult) and isinstance(src.left, ast.List) and src.left.elts:
        elt = src.left.elts[0]
    if isinstance(elt, ast.Tuple) and len(elt.elts) == 2:
        lo, hi = elt.elts
        return (not is_const(lo, None)), (not is_const(hi, None)), src
    return None, None, src


def lp_sites(rep):
    mod = rep.repo.module(ST)
    n = 0
    for q in ("_positive_conservation_law_from_basis", "is_consistent"):
        fi = rep.f(ST, q)
        defs = local_defs(fi.node)
        calls = [c for c in walk_local(fi.node) if isinstance(c, ast.Call) and call_name(c) == "linprog"]
        for c in calls:
            n += 1
            cost = c.args[0] if c.args else kwarg(c, "c")
            sign, csrc = _sign_of_cost(defs, cost)
            lo, hi, bsrc = _bounds(defs, kwarg(c, "bounds"))
            if sign == "zero":
                ok = True
            elif sign == "pos":
                ok = lo
            elif sign == "neg":
                ok = hi
            elif sign == "combination":
                # c = 1^T B with constraints B a >= margin:  c.a = sum(B a) >= n * margin  (bounded below)
                mat = _combined_matrix(csrc)
                aub = origin(defs, kwarg(c, "A_ub")) if kwarg(c, "A_ub") is not None else None
                bub = origin(defs, kwarg(c, "b_ub")) if kwarg(c, "b_ub") is not None else None
                ok = None
                if mat and aub is not None and bub is not None:
                    neg_same = isinstance(aub, ast.UnaryOp) and isinstance(aub.op, ast.USub) and norm(aub.operand) == mat
                    rhs_neg = norm(bub).startswith("-") and "np.ones" in norm(bub)
                    ok = True if (neg_same and rhs_neg) else None
            else:
                ok = None
            construct = f"linprog: c={norm(csrc)}, bounds={norm(bsrc) if bsrc is not None else 'default (0, None)'}"
            rep.ob("O17.2", "R10", fi, ok, construct,
                   "the LP is used as a yes/no oracle, so its objective must be bounded below on every feasible set: with free variables and a "
                   "non-zero cost 'unbounded' is reported as 'no solution' (e.g. C + B >> F + A is called non-conservative)",
                   {"cost_sign": sign, "all_lower_bounds_finite": lo, "all_upper_bounds_finite": hi}, node=c)
            # how is failure mapped?
    # who relies on the conservation-law LP?  (while F-C17 is open, only the conservativity front-ends may)
    users = []
    for fi2 in rep.repo.module(ST).funcs.values():
        if ".<locals>." in fi2.qual or fi2.qual == "_positive_conservation_law_from_basis":
            continue
        for c2 in walk_local(fi2.node, into_nested=True):
            if isinstance(c2, ast.Call) and call_name(c2) == "_positive_conservation_law_from_basis":
                users.append((fi2, c2))
    for fi2, c2 in users:
        ok2 = fi2.qual in ("is_conservative", "compute_conservativity")
        arg = norm(c2.args[0]) if c2.args else "?"
        rep.ob("O17.2", "R10", fi2, ok2, f"{fi2.qual}: {norm(c2)[:70]}",
               "the coefficient-space LP is only an oracle for positive *conservation laws*; any other decision routed through it inherits its boundedness defect "
               "(unbounded read as 'no solution')", node=c2)
    rep.need("R10", n, 1, "linprog call sites in stoich.py")
    # no other linprog site in the analysed CRN property modules
    others = []
    for fi in rep.repo.all_funcs():
        if fi.rel.startswith("synkit/CRN/") and fi.rel != ST and ".<locals>." not in fi.qual:
            for c in walk_local(fi.node, into_nested=True):
                if isinstance(c, ast.Call) and call_name(c) == "linprog":
                    others.append(f"{fi.key}:{c.lineno}")
    for o in others:
        rep.note(f"C17 sweep: further linprog site {o} (belongs to no listed property)")
    rep.extra["linprog_sites_elsewhere_in_CRN"] = others


def witnesses(rep):
    fi = rep.f(ST, "_positive_conservation_law_from_basis")
    cfg = CFG(fi.node)
    pm = parent_map(fi.node)
    defs = local_defs(fi.node)
    pos = [r for r in returns_of(fi.node) if isinstance(r.value, ast.Tuple) and not is_const(r.value.elts[0], None)]
    rep.need("DOM", len(pos), 3, "positive returns of _positive_conservation_law_from_basis")
    for r in pos:
        flag = r.value.elts[1]
        if is_const(flag, True):
            # LP path: must be dominated by the re-check `if not np.all(m > eps): return None, True`
            checks = [n for n in cfg.stmts() if isinstance(n, ast.If) and norm(n.test).replace(" ", "") in ("notnp.all(m>eps)", "not(np.all(m>eps))")
                      and isinstance(n.body[-1], ast.Return)]
            ok = bool(checks) and cfg.all_paths_pass(ENTRY, r, checks, {checks[0]: False})
            rep.ob("O17.3", "DOM", fi, ok, r, "an LP witness is returned only after it was re-checked to be strictly positive", node=r)
            m = [d for d in defs.get("m", []) if d.kind == "assign" and norm(d.value) == "B @ a"]
            rep.ob("O17.3", "DOM", fi, bool(m), "m = B @ a", "the LP witness is a combination of left-kernel vectors (so it annihilates S)")
        else:
            gs = [norm(t).replace(" ", "") for t, s in guards_of(pm, r, fi.node) if s]
            ok = any("np.all(col>eps)ornp.all(col<-eps)" in g for g in gs)
            rep.ob("O17.3", "DOM", fi, ok, f"return under {gs}", "a basis vector is accepted only if all its entries are strictly positive (or all strictly negative, then negated)", node=r)
            msrc = [d for d in defs.get("m", []) if d.kind == "assign" and isinstance(d.value, ast.IfExp)]
            ok2 = all(norm(d.value).replace(" ", "") == "colifnp.all(col>0)else-col" for d in msrc) and len(msrc) >= 2
            rep.ob("O17.3", "DOM", fi, ok2, [norm(d.value) for d in msrc], "a negative basis vector is negated before it is returned")
    # lp_attempted flag: True only after linprog was actually called
    for r in returns_of(fi.node):
        if isinstance(r.value, ast.Tuple) and is_const(r.value.elts[1], True):
            lpcalls = [cfg.stmt_of(c) for c in walk_local(fi.node) if isinstance(c, ast.Call) and call_name(c) == "linprog"]
            lpcalls = [x for x in lpcalls if x is not None]
            trys = [n for n in cfg.stmts() if isinstance(n, ast.Try) and any(x is l for l in lpcalls for x in ast.walk(n))]
            through = lpcalls + trys
            ok = bool(through) and cfg.all_paths_pass(ENTRY, r, through)
            rep.ob("O17.3", "DOM", fi, ok, r, "lp_attempted=True is reported only on paths that went through the LP", node=r)
    ic = rep.f(ST, "is_conservative")
    pm = parent_map(ic.node)
    for r in [x for x in returns_of(ic.node) if is_const(x.value, False)]:
        gs = [norm(t) for t, s in guards_of(pm, r, ic.node) if s]
        ok = any(g in ("lp_attempted", "B is None or B.size == 0") for g in gs)
        rep.ob("O17.3", "DOM", ic, ok, f"return False under {gs}", "a definitive 'not conservative' comes only from a trivial kernel or an attempted LP", node=r)
    ok = any(norm(r.value).replace(" ", "") == "misnotNone" for r in returns_of(ic.node))
    rep.ob("O17.3", "DOM", ic, ok, "return m is not None", "with a one-dimensional kernel the sign pattern of the basis vector decides")
    # is_consistent
    cs = rep.f(ST, "is_consistent")
    pm = parent_map(cs.node)
    d = local_defs(cs.node)
    trues = [r for r in returns_of(cs.node) if is_const(r.value, True)]
    for r in trues:
        gs = [norm(t).replace(" ", "") for t, s in guards_of(pm, r, cs.node) if s]
        if any("res.success" in g for g in gs):
            ok = any("rel_err<=" in g for g in gs)
            rep.ob("O17.3", "DOM", cs, ok, f"return True under {gs}", "the LP flux is accepted only after its residual S v was checked", node=r)
            # sibling discipline (the conservation-law LP re-checks np.all(m > eps)): bounds handed to a floating-point LP solver
            # hold only up to its feasibility tolerance, so the returned flux itself must be re-checked to be strictly positive
            okp = any("np.all(v>" in g for g in gs)
            rep.ob("O17.3", "DOM", cs, okp, f"return True under {gs}",
                   "the LP flux is accepted as a witness only after it was re-checked to be strictly positive (solver bounds hold only up to tolerance: "
                   "`A >> B, A >> B` is reported consistent from the point (-1e-8, 1e-8))", node=r)
    res = origin(d, ast.Name(id="residual", ctx=ast.Load()))
    rep.ob("O17.3", "DOM", cs, norm(res) == "S @ v", res, "the residual is S v for the returned flux")
    aeq = [c for c in walk_local(cs.node) if isinstance(c, ast.Call) and call_name(c) == "linprog"]
    if aeq:
        c = aeq[0]
        ok = norm(origin(d, kwarg(c, "A_eq"))) in ("S", "stoichiometric_matrix(crn)") and "np.zeros(n_species)" in norm(origin(d, kwarg(c, "b_eq")))
        rep.ob("O17.3", "SHAPE", cs, ok, c, "the LP encodes S v = 0", node=c)
        lo, hi, bsrc = _bounds(d, kwarg(c, "bounds"))
        elt = None
        if isinstance(bsrc, ast.ListComp):
            elt = bsrc.elt
        elif isinstance(bsrc, ast.BinOp) and isinstance(bsrc.left, ast.List) and bsrc.left.elts:
            elt = bsrc.left.elts[0]
        okb = None
        if isinstance(elt, ast.Tuple) and len(elt.elts) == 2:
            lo_ = elt.elts[0]
            try:
                okb = const(lo_) is not None and const(lo_) > 0
            except (ValueError, TypeError):
                okb = True if norm(lo_) == "eps" else None
        rep.ob("O17.3", "SHAPE", cs, okb, bsrc if bsrc is not None else c, "every flux component has a strictly positive lower bound (strict positivity)", node=c)


def ordering(rep):
    fi = rep.f(UT, "_species_and_reaction_order")
    n = 0
    for lp in [l for l in walk_local(fi.node) if isinstance(l, ast.For)]:
        if not (isinstance(lp.iter, ast.Call) and call_name(lp.iter) == "enumerate"):
            continue
        n += 1
        i, node = [norm(e) for e in lp.target.elts]
        writes = {norm(t): norm(v) for t, v, st in assigned_subscripts(lp)}
        apps = [c for c in walk_local(lp) if isinstance(c, ast.Call) and call_name(c) == "append"]
        ok = any(k.endswith(f"_index[{node}]") and v == i for k, v in writes.items()) and len(apps) == 1
        rep.ob("O17.1", "SHAPE", fi, ok, lp.iter, "labels and index maps are filled in the same pass (row/column k is label k)", node=lp)
    rep.need("SHAPE", n, 2, "enumerate loops in _species_and_reaction_order")


MUTANTS = [
    dict(name="S sign flipped", file=ST, expect="O17.1", old="    S = S_plus - S_minus", new="    S = S_minus - S_plus"),
    dict(name="roles swapped in the matrices", file=ST, expect="O17.1",
         old='        if role == "reactant":\n            S_minus[i, j] += coeff\n        elif role == "product":\n            S_plus[i, j] += coeff',
         new='        if role == "product":\n            S_minus[i, j] += coeff\n        elif role == "reactant":\n            S_plus[i, j] += coeff'),
    dict(name="left kernel of S instead of S.T", file=ST, expect="O17.1", old="    return _null_space(S.T, rtol=rtol)", new="    return _null_space(S, rtol=rtol)"),
    dict(name="is_consistent with free variables", file=ST, expect="O17.2", old="        bounds = [(1.0, None) for _ in range(n_reactions)]", new="        bounds = [(None, None) for _ in range(n_reactions)]"),
    dict(name="revert F-C17b (flux accepted without positivity re-check)", revert_patch="notes/fixes/C17b.patch", expect="O17.3"),
    dict(name="conservation LP maximises", file=ST, expect="O17.2", old="    c = np.ones(k_dim, dtype=float)", new="    c = -np.ones(k_dim, dtype=float)"),
    dict(name="LP witness not re-checked", file=ST, expect="O17.3", old="    if not np.all(m > eps):\n        return None, True\n\n    return m / np.sum(m), True", new="    return m / np.sum(m), True"),
    dict(name="residual check dropped", file=ST, expect="O17.3",
         old="            if rel_err <= 1e-8 and np.all(v > eps):\n                return True\n            else:\n                return False", new="            if np.all(v > eps):\n                return True\n            else:\n                return False"),
    dict(name="coefficient overwritten instead of accumulated", file=ST, expect="O17.1", old="            S_plus[i, j] += coeff", new="            S_plus[i, j] = coeff"),
    dict(name="rows indexed by the reaction end", file=ST, expect="O17.1", old="        i = species_index[s_node]\n        j = reaction_index[r_node]", new="        i = species_index[r_node]\n        j = reaction_index[s_node]"),
    dict(name="basis scan accepts non-negative vectors", file=ST, expect="O17.3",
         old="    for j in range(k_dim):\n        col = B[:, j]\n        if np.all(col > eps) or np.all(col < -eps):", new="    for j in range(k_dim):\n        col = B[:, j]\n        if np.all(col >= 0) or np.all(col <= 0):"),
    dict(name="definitive False without an LP", file=ST, expect="O17.3",
         old="    if lp_attempted:\n        # LP was attempted and failed → no strictly positive combination.\n        return False", new="    if True:\n        return False"),
    dict(name="lp_attempted claimed before the LP", file=ST, expect="O17.3",
         old="    if not use_lp or (not _SCIPY_AVAILABLE or linprog is None):\n        return None, False", new="    if not use_lp or (not _SCIPY_AVAILABLE or linprog is None):\n        return None, True"),
    dict(name="SVD kernel keeps the range vectors", file=ST, expect="O17.1", old="    ns = vh[rank:].T  # shape (n, k)", new="    ns = vh[:rank].T  # shape (n, k)"),
    dict(name="incidence matrix sign of products", file=HG, expect="O17.1", old="                    mapping[(s, eid)] = mapping.get((s, eid), 0) + int(c)", new="                    mapping[(s, eid)] = mapping.get((s, eid), 0) - int(c)"),
]

TWINS = [
    dict(name="repaired conservation LP (c = 1^T B, margin 1) is accepted and silences the known finding", file=ST,
         old="    b_ub = -eps * np.ones(m_dim, dtype=float)\n    c = np.ones(k_dim, dtype=float)", new="    b_ub = -1.0 * np.ones(m_dim, dtype=float)\n    c = B.sum(axis=0)"),
    dict(name="S written as negated difference", file=ST, old="    S = S_plus - S_minus", new="    S = -S_minus + S_plus"),
    dict(name="bounds as a repeated list", file=ST, old="        bounds = [(1.0, None) for _ in range(n_reactions)]", new="        bounds = [(1.0, None)] * n_reactions"),
]
