"""C05 - rule application depends on the chemistry only, not on how inputs are written."""
from __future__ import annotations

import ast

from ..core import (AnalysisError, call_name, dotted, is_const, kwarg, local_defs, norm, origin, parent_map,
                    walk_local)
from ..facts import guards_of, returns_of
from ..rules.nonmut import mutations
from . import C06, C11

SR = "synkit/Synthesis/Reactor/syn_reactor.py"
SM = "synkit/Graph/Matcher/subgraph_matcher.py"

META = {
    "explanation": (
        "R11 on the pruning path SynReactor.mappings -> AutoEst.anchor_component / Automorphism._choose_anchor -> "
        "deduplicate_matches_with_anchor: a selection among equally large components whose tie-break falls to node-id "
        "or iteration order makes the surviving matches numbering-dependent (decides the absence of numbering-dependent "
        "*choices*, not invariance as a value). Strategy lattice (shape): bt = component-aware result if non-empty else "
        "exhaustive; the component-aware search delegates to the exhaustive one exactly when the host has fewer "
        "components; the enum dispatch is total. Repeated calls: lazily cached properties are computed once behind an "
        "`is None` guard and returned as stored; gluing mutates neither the substrate nor the match; the match list is "
        "never re-sorted."
    ),
    "rules": {"R11": "id-order selection on the pruning path", "SHAPE": "strategy lattice / dispatch shape",
              "CACHE": "compute-once lazily cached properties", "R9": "parameter non-mutation", "SRC": "pruning wiring"},
    "not_decided": "invariance under SMILES rewriting / atom-map permutation as a value (RDKit atom order, VF2 enumeration order)",
    "trusted_base": ["CPython ast", "sa/* analyser"],
    "assumptions": ["strict_cc_count is documented configuration"],
}


def run(rep):
    rep.run(C11.anchor_selection, "O5.1")
    rep.alias = {"O11.4": "O5.1"}
    rep.run(C11.consistency)
    rep.alias = {"O11.4": "O5.1", "O11.3": "O5.1", "O11.2": "O5.1", "O11.1": "O5.1"}
    rep.run(C11.dedup_key)
    rep.run(C11.estimate)
    rep.run(C11.exact)   # with automorphism=True the pruning uses the exact orbits: per-component analysis, no orbit across the anchor
    rep.run(C11.dedup)   # first occurrence kept, original order (which regio-isomer survives must not depend on enumeration order)
    rep.alias = {"O6.4": "O5.2", "O6.5": "O5.2"}
    rep.run(C06.fallback_and_dispatch)
    rep.run(_comp_fallback)
    rep.run(C06.component_aware)
    rep.run(C06.candidates)
    rep.alias = {}
    rep.run(repeated)
    rep.run(no_truncated_search)


def no_truncated_search(rep):
    """the reactor asks the matcher for ALL embeddings (the threshold empties an oversized result, it never truncates it): a positive max_results
    keeps whichever embeddings are enumerated first - and that depends on how the substrate's atoms are numbered"""
    SR_ = "synkit/Synthesis/Reactor/syn_reactor.py"
    n = 0
    for q, fi in sorted(rep.repo.module(SR_).funcs.items()):
        if not q.startswith("SynReactor.") or ".<locals>." in q:
            continue
        for c in [c for c in walk_local(fi.node) if isinstance(c, ast.Call) and call_name(c) == "find_subgraph_mappings"]:
            n += 1
            v = kwarg(c, "max_results")
            ok = True if (v is None or is_const(v, None)) else None
            if v is not None and isinstance(v, ast.Constant) and isinstance(v.value, (int, float)) and not isinstance(v.value, bool) and v.value > 0:
                ok = False
            rep.ob("O5.2", "SHAPE", fi, ok, c, "the reactor enumerates every embedding (no max_results cut: a truncated enumeration keeps the matches that happen to come "
                   "first for this atom numbering)", node=c)
    rep.need("SHAPE", n, 2, "find_subgraph_mappings calls in SynReactor")


def _comp_fallback(rep):
    """only the fallback obligation of the component-aware strategy (subset relation to ALL)"""
    import copy
    from ..absval import Undecided, eval_expr
    fi = rep.f(SM, "SubgraphSearchEngine._find_component_aware_subgraph_mappings")
    fb = None
    for st in fi.node.body:
        if isinstance(st, ast.If) and len(st.body) == 1 and isinstance(st.body[0], ast.Return) \
                and isinstance(st.body[0].value, ast.Call) and call_name(st.body[0].value) == "_find_all_subgraph_mappings":
            fb = st
    if fb is None:
        rep.ob("O5.2", "SHAPE", fi, False, "if hcc < pcc: return _find_all_subgraph_mappings(...)", "with fewer host components the component-aware strategy equals the exhaustive one")
        return
    verdict, facts = C06.fallback_condition(fi, fb.test)
    rep.ob("O5.2", "SHAPE", fi, verdict, fb.test, "the component-aware strategy delegates to the exhaustive one exactly when the host has fewer components", facts, node=fb)
    # every other result of the component-aware strategy is assembled from per-component monomorphisms of the same predicate (subset of ALL)
    from ..facts import returns_of
    rets = [r for r in returns_of(fi.node) if isinstance(r.value, ast.Name)]
    res = rets[-1].value.id if rets else None
    adds = [c for c in walk_local(fi.node, into_nested=True) if res and isinstance(c, ast.Call) and isinstance(c.func, ast.Attribute)
            and norm(c.func.value) == res and c.func.attr in ("append", "extend", "insert")]
    # no emission site visible (the combination step lives in a helper the rule cannot follow): not decided; several sites / bulk insertion: violated
    rep.ob("O5.2", "SHAPE", fi, None if not adds else (len(adds) == 1 and adds[0].func.attr == "append"), [norm(a) for a in adds],
           "combined matches are emitted at one place only (after every pattern component is placed)")


def repeated(rep):
    for q, attr in (("SynReactor.mappings", "_mappings"), ("SynReactor.its_list", "_its"), ("SynReactor.smarts_list", "_smarts"),
                    ("SynReactor.graph", "_graph"), ("SynReactor.rule", "_rule")):
        fi = rep.f(SR, q)
        from ..facts import returns_of
        pm = parent_map(fi.node)
        top = [st for st in fi.node.body if not (isinstance(st, ast.Expr) and isinstance(st.value, ast.Constant))]
        writes = [n for n in walk_local(fi.node) if isinstance(n, ast.Assign) and any(norm(t) == f"self.{attr}" for t in n.targets)]
        # `if self.x is None: compute` + `return self.x`, or the early-return spelling `if self.x is not None: return self.x` + compute + return:
        # every return hands out the stored value, and whatever computes it runs only while the slot is still unset
        rets_ = returns_of(fi.node)
        ok = bool(rets_) and all(r_.value is not None and norm(r_.value) == f"self.{attr}" for r_ in rets_) and bool(writes) \
            and all(any(norm(t) == f"self.{attr} is None" and s for t, s in guards_of(pm, w, fi.node, early=True)) for w in writes)
        rep.ob("O5.3", "CACHE", fi, ok, top[0].test if top and isinstance(top[0], ast.If) else q,
               f"`{q.split('.')[1]}` is computed once behind `self.{attr} is None` and the stored value is returned (a repeated call cannot differ)", node=fi.node)
        # all writes to the cache attribute are inside the guard
        okw = all(any(norm(t) == f"self.{attr} is None" and s for t, s in guards_of(pm, w, fi.node, early=True)) for w in writes) and bool(writes)
        rep.ob("O5.3", "CACHE", fi, okw, f"{len(writes)} write(s) to self.{attr}", "the cached value is written only while it is still unset", node=fi.node)
    # other methods never reset the caches
    cls = rep.repo.cls(SR, "SynReactor")
    resets = []
    owners = {"_mappings": "mappings", "_its": "its_list", "_smarts": "smarts_list", "_graph": "graph", "_rule": "rule"}
    for m in [x for x in cls.body if isinstance(x, ast.FunctionDef)]:
        for n in ast.walk(m):
            if isinstance(n, ast.Assign):
                for t in n.targets:
                    if isinstance(t, ast.Attribute) and norm(t.value) == "self" and t.attr in owners and m.name != owners[t.attr]:
                        resets.append(f"{m.name}: {norm(n)[:40]}")
    rep.ob("O5.3", "CACHE", f"{SR}:SynReactor", not resets, resets or "no foreign writes", "no other method overwrites the cached matches / ITS graphs / strings")
    # gluing does not modify the match it is given
    gg = rep.f(SR, "SynReactor._glue_graph")
    muts = mutations(rep.repo, gg, "mapping", depth=1)
    rep.ob("O5.3", "R9", gg, not muts, muts[0][0] if muts else "parameter `mapping`", "gluing never modifies the match dict (repeated gluing sees the same matches)" + (f": {muts[0][1]}" if muts else ""),
           node=muts[0][0] if muts else gg.node)
    muts = mutations(rep.repo, gg, "host")
    rep.ob("O5.3", "R9", gg, not muts, muts[0][0] if muts else "parameter `host`", "gluing never modifies the substrate graph" + (f": {muts[0][1]}" if muts else ""),
           node=muts[0][0] if muts else gg.node)
    # the strategy string is interpreted by one total function
    from_s = [c for c in walk_local(rep.f(SR, "SynReactor.mappings").node) if isinstance(c, ast.Call) and norm(c.func) == "Strategy.from_string"]
    rep.ob("O5.2", "SHAPE", rep.f(SR, "SynReactor.mappings"), bool(from_s) and all(norm(c.args[0]) == "self.strategy" for c in from_s), [norm(c) for c in from_s],
           "the configured strategy is passed to the matcher unchanged")


MUTANTS = [
    dict(name="third id-ordered choice on the pruning path", file="synkit/Graph/Matcher/dedup_matches.py", expect="O5.1",
         old="    anchored_nodes = tuple(sorted(pattern_anchor))", new="    anchored_nodes = tuple(sorted(pattern_anchor))\n    free_orbits = free_orbits[:1] + [min(free_orbits[1:])] if len(free_orbits) > 2 else free_orbits"),
    dict(name="bt merges both result sets", file=SM, expect="O5.2",
         old="        if primary:\n            return primary\n        return SubgraphSearchEngine._find_all_subgraph_mappings(", new="        if len(primary) > 3:\n            return primary\n        return SubgraphSearchEngine._find_all_subgraph_mappings("),
    dict(name="comp falls back when host has as many components", file=SM, expect="O5.2", old="        if hcc < pcc:\n", new="        if hcc <= pcc:\n"),
    dict(name="mappings recomputed when empty", file=SR, expect="O5.3", old="        if self._mappings is None:\n", new="        if not self._mappings:\n"),
    dict(name="its_list shuffles the cached matches", file=SR, expect="O5.3",
         old="            host_raw = self.graph.raw\n            rc_raw = self.rule.rc.raw", new="            host_raw = self.graph.raw\n            self._mappings = list(reversed(self.mappings))\n            rc_raw = self.rule.rc.raw"),
    dict(name="gluing consumes the match", file=SR, expect="O5.3",
         old="            for rc_n, host_n in m.items():\n                if its.has_node(host_n):", new="            mapping.pop(next(iter(mapping)), None)\n            for rc_n, host_n in m.items():\n                if its.has_node(host_n):"),
    dict(name="matches re-sorted by host ids before pruning", file=SR, expect="O5.1",
         old="            # --- Automorphism pruning ----------------------------------------\n", new="            raw_maps = sorted(raw_maps, key=lambda m: sorted(m.values()))\n"),
    dict(name="strategy hard-wired", file=SR, expect="O5.2",
         old="                    strategy=Strategy.from_string(self.strategy),\n                    threshold=self.embed_threshold,\n                    pre_filter=self.embed_pre_filter,\n                )\n\n            # --- Automorphism",
         new="                    strategy=Strategy.from_string('all'),\n                    threshold=self.embed_threshold,\n                    pre_filter=self.embed_pre_filter,\n                )\n\n            # --- Automorphism"),
]

TWINS = [
    dict(name="cached property with early return form kept", file=SR,
         old="        if self._graph is None:\n            self._graph = self._wrap_input(self.substrate)\n        return self._graph",
         new="        if self._graph is None:\n            self._graph = self._wrap_input(self.substrate)\n\n        return self._graph"),
]
