"""C20 - siphons, traps and pathway realizability match their Petri-net definitions."""
from __future__ import annotations

import ast

from ..pattern import pmatch, pfind, pall

from ..absval import Lin, Undecided, eval_expr, linform, truth_table
from ..cfg import CFG, ENTRY
from ..core import (alpha, AnalysisError, call_name, dotted, is_const, local_defs, norm, origin, parent_map,
                    walk_local, kwarg)
from ..facts import param_default, guards_of, returns_of, enclosing_loops, assigned_subscripts
from ..rules import walk as W

SR = "synkit/CRN/Petri/structure.py"
NET = "synkit/CRN/Petri/net.py"
RZ = "synkit/CRN/Path/realizability.py"
PERS = "synkit/CRN/Petri/persistence.py"

META = {
    "explanation": (
        "R5 directed walk at the per-reaction arc walks of the siphon/trap predicates (writer role table from "
        "hypergraph_to_bipartite; DiGraph out-arc semantics). R13: both predicates are tabulated with the analyser's own "
        "evaluator on every one-reaction net over three species x every candidate set (plus two-reaction nets), arcs "
        "as the view writer emits them: siphon = `for every reaction: produces a member => consumes a member`, trap = "
        "the dual, empty set rejected (structural walk-and-flag rule as fall-back); all subset sizes 1..n enumerated in "
        "increasing size, minimality filter. cmp/R15: PetriNet.enabled is tabulated on small markings x pre-sets "
        "(enabled iff every pre-place holds its weight), fire is -pre +post as linear "
        "forms on a copy. CFG dominance: in the BFS every fire is dominated by a true enabled() on the same marking and "
        "transition, success is returned only on equality with the target, the visited set guards the queue, bounds "
        "only cut; M0/MT are (supply = flow, species 0) / (target = flow, species 0)."
    ),
    "rules": {"R5": "directed-walk rule", "R13": "dual predicate normal form", "ENUM": "exhaustive increasing-size enumeration + minimality",
              "CMP": "enabledness on the cmp domain", "R15": "firing rule as linear forms", "DOM": "CFG dominance in the reachability search",
              "R3b": "edge key agreement with the view writer"},
    "not_decided": "that no realizable pathway within the bounds is missed, beyond the BFS shape (FIFO, visited set, bounds only cut)",
    "trusted_base": ["CPython ast", "sa/* analyser", "networkx DiGraph in_edges/out_edges", "itertools.combinations"],
    "assumptions": ["the bipartite view is produced by hypergraph_to_bipartite"],
}


def flow_adapter(rep):
    """the flow handed to the Petri-net builder is the caller's flow: an explicit 0 (reaction present but unused) stays 0; the default multiplicity
    applies only to reactions the flow does not mention"""
    from ..rules.falsy_default import falsy_numeric_defaults
    fi = rep.f(RZ, "hypergraph_to_pr_inputs")
    bad = falsy_numeric_defaults(fi.node)
    rep.ob("O20.4", "R15", fi, not bad, alpha(bad[0][0], fi.node) if bad else "flow_map[eid] = int(flow[eid]) if eid in flow else 1",
           "each reaction fires exactly as often as the given flow prescribes (the default is chosen by presence of the entry, not by its truthiness)" +
           (": " + bad[0][1] if bad else ""), node=bad[0][0] if bad else fi.node)
    # every store into the outgoing flow map: the caller's value under a membership test, or the default otherwise
    defs = local_defs(fi.node)
    rets = returns_of(fi.node)
    FM = norm(rets[-1].value.elts[2]) if rets and isinstance(rets[-1].value, ast.Tuple) and len(rets[-1].value.elts) == 3 else None
    FL = fi.params[1] if len(fi.params) > 1 else None
    stores = [(t, v, st) for t, v, st in assigned_subscripts(fi.node) if FM and norm(t.value) == FM]
    rep.need("R15", len(stores), 1, "stores into the outgoing flow map")
    pm = parent_map(fi.node)
    for t, v, st in stores:
        leaves = []

        def collect(e, conds):
            if isinstance(e, ast.IfExp):
                collect(e.body, conds + [(e.test, True)])
                collect(e.orelse, conds + [(e.test, False)])
            else:
                leaves.append((e, conds))
        collect(v, list(guards_of(pm, st, fi.node, early=True)))
        for e, conds in leaves:
            uses_flow = FL is not None and any(isinstance(x, ast.Name) and x.id == FL for x in ast.walk(e))
            member = any(isinstance(t_, ast.Compare) and isinstance(t_.ops[0], ast.In) and s_ and norm(t_.comparators[0]) == FL for t_, s_ in conds
                         for t_ in ([t_] if not isinstance(t_, ast.BoolOp) else t_.values))
            if uses_flow:
                okv = member and norm(e).replace(" ", "") in (f"int({FL}[{norm(t.slice)}])", f"{FL}[{norm(t.slice)}]")
                rep.ob("O20.4", "R15", fi, True if okv else None, alpha(st, fi.node)[:80], "a reaction named in the flow gets exactly its prescribed multiplicity", node=st)


def run(rep):
    rep.run(flow_adapter)
    from ..rules import walk as _W
    rep.run(_W.writer_sides_independent, "O20.1")
    table = W.writer_table(rep.repo)
    rep.extra["writer_role_table"] = table
    rep.run(preds, table)
    rep.run(enumeration)
    rep.run(petri)
    rep.run(build_net)
    rep.run(bfs)
    rep.run(netfold)
    rep.run(stale_verdicts)
    rep.run(no_flattening)


def no_flattening(rep):
    """the net is built from the reactions' own coefficients: a side must not be re-read as a list of labels (RXNSide is not a Mapping)"""
    from ..rules.rxnside import flattening_sites
    n = 0
    for q, fi in sorted(rep.repo.module(RZ).funcs.items()):
        if ".<locals>." in q:
            continue
        for node, why in flattening_sites(rep.repo, fi):
            n += 1
            rep.ob("O20.3", "R3a", fi, False, node, "arc weights of the net are the reaction's coefficients: " + why, node=node)
    if not n:
        rep.ob("O20.3", "R3a", f"{RZ}:*", True, "no RXNSide is re-normalised as an iterable", "arc weights of the net are the reaction's coefficients")


def stale_verdicts(rep):
    """a verdict of is_realizable depends on the markings and the net held by the object; is_borrow_realizable edits the markings in place
    around a search and restores them: a verdict remembered on the object must not survive such an edit"""
    from ..rules.memo import stale_instance_memo
    fis = [f for q, f in rep.repo.module(RZ).funcs.items() if q.startswith("PathwayRealizability.")]
    for f in fis:
        rep.functions.add(f.key) if hasattr(rep, "functions") and isinstance(rep.functions, set) else None
    hits = stale_instance_memo(fis)
    for f, node, msg in hits:
        rep.ob("O20.4", "R1", f, False, node, "a remembered verdict never outlives the state it was computed for: " + msg, node=node)
    if not hits:
        rep.ob("O20.4", "R1", rep.f(RZ, "PathwayRealizability.is_realizable"), True, f"{len(fis)} methods of PathwayRealizability",
               "no method answers from a memo held on the object while another method changes the state that memo was computed from")


# ------------------------------------------------------------------ O20.1 / O20.2
def _pred_structure(rep, fi, table):
    """returns [(flag, role, action)] per stage, in order, for `for r in reaction_nodes:`"""
    pm = parent_map(fi.node)
    outer = [l for l in fi.node.body if isinstance(l, ast.For) and norm(l.iter) == fi.params[2]]
    if len(outer) != 1:
        raise AnalysisError(f"{fi.key}: loop over reaction nodes not found")
    lp = outer[0]
    rnode = norm(lp.target)
    ws = [w for w in W.walks(fi, graph_names=(fi.params[0],)) if w.node == rnode]
    if not ws:
        _delegated(rep, fi, lp, rnode, table)
        return None
    # the candidate node set: {order[i] for i in S_idx}
    sn_pat = f"{{{fi.params[1]}[$i] for $i in {fi.params[3]}}}"
    SN = [nm for nm, ds in local_defs(fi.node).items() for d_ in ds if d_.kind == "assign" and pmatch(sn_pat, d_.value) is not None]
    SN = SN[0] if len(SN) == 1 else None
    stages = []
    folded_checked = []
    for w in ws:
        # R5
        for role, cmp_ in w.roles_tested:
            want = table.get(role, {}).get("dir")
            rep.ob("O20.1", "R5", fi, (want == w.direction) if want else None, f"G.{w.method}({rnode}) tests role == '{role}'",
                   f"arcs with role '{role}' are {want}-arcs of a reaction node; G.{w.method}({rnode}) on a DiGraph enumerates {w.direction}-arcs",
                   {"walk_direction": w.direction, "writer_direction": want}, node=w.loop)
        rep.ob("O20.1", "R5", fi, w.species_pos_ok, f"species end of G.{w.method}({rnode})",
               "the species end of the arc is the end that is not the reaction node", {"species_var": w.species_var}, node=w.loop)
        # membership + flag
        flags = [n for n in walk_local(w.loop) if isinstance(n, ast.Assign) and isinstance(n.value, ast.Constant) and n.value.value is True]
        if len(flags) != 1:
            if not folded_checked:
                folded_checked.append(True)
                _fold_check(rep, fi, ws, fi.params[0], rnode, table)
            rep.ob("O20.2", "R13", fi, None, w.loop.iter, "walk does not set exactly one flag", node=w.loop)
            continue
        fl = flags[0]
        gs = guards_of(pm, fl, w.loop)
        conj = []
        for t, s in gs:
            conj += (t.values if isinstance(t, ast.BoolOp) and isinstance(t.op, ast.And) else [t])
        ctxt = [norm(c).replace(" ", "") for c in conj]
        member = SN is not None and any(c == f"{w.species_var}in{SN}" for c in ctxt)
        rep.ob("O20.2", "R13", fi, member, f"{alpha(fl, fi.node)} under {[alpha(c, fi.node) for c in conj]}", "the flag is raised only for species that belong to the candidate set", node=fl)
        roles = [r for r, _ in w.roles_tested]
        extra = [c for c in ctxt if not (c.endswith(f"in{SN}") or "role" in c or c.replace("(", "").replace(")", "") in
                                         (f"{w.data_var}.get'stoich',0>0", f"{w.data_var}.get'stoich',1>0"))]
        rep.ob("O20.2", "R13", fi, not extra, f"{len(extra)} extra condition(s)", "no other condition restricts which arcs count", {"extra": extra}, node=fl)
        stages.append((norm(fl.targets[0]), roles[0] if len(roles) == 1 else None, w))
    rep.need("R5", len(ws), 2, f"arc walks in {fi.qual}")
    # control skeleton: if not A: continue ; if not B: return False ; return True
    ctrl = []
    for st in lp.body:
        if isinstance(st, ast.If) and isinstance(st.test, ast.UnaryOp) and isinstance(st.test.op, ast.Not) and len(st.body) == 1:
            act = st.body[0]
            if isinstance(act, ast.Continue):
                ctrl.append((norm(st.test.operand), "continue"))
            elif isinstance(act, ast.Return) and is_const(act.value, False):
                ctrl.append((norm(st.test.operand), "return False"))
            else:
                ctrl.append((norm(st.test.operand), norm(act)))
    # final return
    last = fi.node.body[-1]
    final_true = isinstance(last, ast.Return) and is_const(last.value, True)
    first = [st for st in fi.node.body if isinstance(st, ast.If)]
    empty_rej = bool(first) and norm(first[0].test) == f"not {fi.params[3]}" and is_const(first[0].body[0].value, False)
    return stages, ctrl, final_true, empty_rej, lp, SN


def _delegated(rep, fi, lp, rnode, table):
    """the predicate gets its consumed/produced information from a helper: check the helper's walks (R5) and that
    consumption and production are kept apart (no signed net coefficient)"""
    helpers = []
    for c in walk_local(lp):
        if isinstance(c, ast.Call) and isinstance(c.func, ast.Name) and c.func.id in fi.module.funcs and len(c.args) >= 2 and norm(c.args[1]) == rnode:
            helpers.append(fi.module.funcs[c.func.id])
    if not helpers:
        raise AnalysisError(f"{fi.key}: no arc walk and no helper taking (G, {rnode})")
    for h in helpers:
        rep.touch(h)
        hnode = h.params[1]
        hws = [w for w in W.walks(h, graph_names=(h.params[0],)) if w.node == hnode]
        _fold_check(rep, h, hws, h.params[0], hnode, table)
    rep.ob("O20.2", "R13", fi, None, f"{fi.qual} delegates to {[h.qual for h in helpers]}", "consume/produce structure of the predicate is not the recognised walk-and-flag form", node=lp)


def _fold_check(rep, h, hws, gname, hnode, table=None):
    """consumption and production of a reaction must be kept apart: one signed coefficient per species loses a species that is on both sides"""
    if True:
        pm = parent_map(h.node)
        signs = {}
        for w in hws:
            for role, cmp_ in w.roles_tested:
                want = (table or {}).get(role, {}).get("dir")
                rep.ob("O20.1", "R5", h, (want == w.direction) if want else None, f"{gname}.{w.method}({hnode}) tests role == '{role}'",
                       f"arcs with role '{role}' are {want}-arcs of a reaction node; {w.method} enumerates {w.direction}-arcs", node=w.loop)
            for n in walk_local(w.loop):
                tgt = val = op = None
                if isinstance(n, ast.AugAssign) and isinstance(n.target, ast.Subscript):
                    tgt, op = norm(n.target.value), ("-" if isinstance(n.op, ast.Sub) else "+")
                elif isinstance(n, ast.Assign) and isinstance(n.targets[0], ast.Subscript) and isinstance(n.value, ast.BinOp):
                    tgt, op = norm(n.targets[0].value), ("-" if isinstance(n.value.op, ast.Sub) else "+")
                if tgt:
                    roles = [r for r, _ in w.roles_tested] or [w.direction]
                    signs.setdefault(tgt, set()).add((roles[0], op))
        for tgt, ss in signs.items():
            ops = {o for _, o in ss}
            roles = {r for r, _ in ss}
            folded = len(ops) > 1 and len(roles) > 1
            rep.ob("O20.2", "R13", h, not folded, f"`{tgt}` receives {sorted(ss)}",
                   "consumption and production of a reaction are kept apart: folding reactant and product arcs into ONE signed coefficient per species makes a "
                   "species that occurs on both sides (a catalyst) count as neither consumed nor produced", node=h.node)


def _pred_table(fi, kind, table):
    """Evaluate a siphon/trap predicate on every one-reaction net over three species (reactants, products any subsets) and every non-empty
    candidate set, plus a few two-reaction nets; arcs carry role/stoich exactly as the view writer emits them (reactant arcs species->reaction,
    product arcs reaction->species).  -> (disagreements, cases)   Undecided propagates."""
    import itertools
    from ..absval import eval_function, _NOVALUE, eval_expr as _ev
    Gp, ORD, RN, SI = fi.params[:4]
    species = ("a", "b", "c")
    subsets = [tuple(x for x, keep in zip(species, bits) if keep) for bits in itertools.product((0, 1), repeat=3)]
    r_in, p_out = table["reactant"]["dir"] == "in", table["product"]["dir"] == "out"
    if not (r_in and p_out):
        raise Undecided("view writer orientation is not (reactant: in-arcs, product: out-arcs)")

    def nets():
        for re_, pr_ in itertools.product(subsets, subsets):
            yield {"r1": (re_, pr_)}
        for a_, b_ in ((("a",), ("b",)), (("b",), ("a",)), ((), ("a",)), (("a",), ()), (("a", "b"), ("c",))):
            for c_, d_ in ((("b",), ("c",)), (("c",), ("a",)), ((), ("c",)), (("a",), ("a",))):
                yield {"r1": (a_, b_), "r2": (c_, d_)}
    bad, n = [], 0
    for net in nets():
        def hook(expr, env, net=net):
            if isinstance(expr, ast.Call) and isinstance(expr.func, ast.Attribute) and norm(expr.func.value) == Gp and expr.args:
                meth = expr.func.attr
                if meth in ("in_edges", "out_edges", "edges"):
                    data = kwarg(expr, "data")
                    if not (data is not None and is_const(data, True)) or len(expr.args) != 1:
                        raise Undecided(f"arc walk without data=True: {norm(expr)}")
                    r = _ev(expr.args[0], env)
                    if r not in net:
                        raise Undecided(f"arc walk from a non-reaction node: {norm(expr)}")
                    re_, pr_ = net[r]
                    if meth == "in_edges":
                        return tuple((s_, r, {"role": "reactant", "stoich": 1}) for s_ in re_)
                    return tuple((r, s_, {"role": "product", "stoich": 1}) for s_ in pr_)   # DiGraph.edges(n) == out_edges(n)
                raise Undecided(f"graph access not modelled: {norm(expr)}")
            return _NOVALUE
        for S in subsets:
            idx = tuple(i for i, x in enumerate(species) if x in S)
            got = eval_function(fi.node, {"__resolve__": hook, ORD: species, RN: tuple(sorted(net)), SI: frozenset(idx)})
            n += 1
            if not S:
                want = False
            elif kind == "siphon":
                want = all((not (set(pr_) & set(S))) or bool(set(re_) & set(S)) for re_, pr_ in net.values())
            else:
                want = all((not (set(re_) & set(S))) or bool(set(pr_) & set(S)) for re_, pr_ in net.values())
            if bool(got) != want or not isinstance(got, bool):
                bad.append(f"net {net}, S={set(S) or '{}'}: {got!r} (expected {want})")
    return bad, n


def preds(rep, table):
    spec0 = {"_is_siphon_indices": ("siphon", "siphon: every reaction that produces a member also consumes a member"),
             "_is_trap_indices": ("trap", "trap: every reaction that consumes a member also produces a member")}
    decided_all = True
    for q, (kind, text) in spec0.items():
        fi = rep.f(SR, q)
        try:
            bad, n = _pred_table(fi, kind, table)
        except Undecided:
            decided_all = False
            break
        directed = W.graph_is_directed(rep.repo, fi, fi.params[0])
        rep.ob("O20.1", "R5", fi, True if directed else None, fi.params[0], "the graph walked is the directed bipartite view", {"directed": directed}, node=fi.node)
        # where the arcs are walked by plain loops, name the walk that reads the wrong side (diagnosis; the table below decides)
        for w in [w for w in W.walks(fi, graph_names=(fi.params[0],))]:
            for role, cmp_ in w.roles_tested:
                want = table.get(role, {}).get("dir")
                rep.ob("O20.1", "R5", fi, (want == w.direction) if want else None, f"G.{w.method}({w.node}) tests role == '{role}'",
                       f"arcs with role '{role}' are {want}-arcs of a reaction node; G.{w.method}({w.node}) on a DiGraph enumerates {w.direction}-arcs",
                       {"walk_direction": w.direction, "writer_direction": want}, node=w.loop)
        rep.ob("O20.2", "R13", fi, not bad, f"{q} on {n} small nets x candidate sets", text + " (arc directions and roles as the view writer emits them; the empty set is rejected; "
               "a species on both sides of a reaction counts as consumed and as produced)", {"cases": n, "disagreements": bad[:6]}, node=fi.node)
    if decided_all:
        return
    _preds_structural(rep, table)


def _preds_structural(rep, table):
    spec = {"_is_siphon_indices": ("product", "reactant", "siphon: every reaction that produces a member also consumes a member"),
            "_is_trap_indices": ("reactant", "product", "trap: every reaction that consumes a member also produces a member")}
    shapes = {}
    for q, (a_role, b_role, text) in spec.items():
        fi = rep.f(SR, q)
        directed = W.graph_is_directed(rep.repo, fi, fi.params[0])
        rep.ob("O20.1", "R5", fi, True if directed else None, fi.params[0], "the graph walked is the directed bipartite view", {"directed": directed}, node=fi.node)
        res_ = _pred_structure(rep, fi, table)
        if res_ is None:
            continue
        stages, ctrl, final_true, empty_rej, lp, SN = res_
        flag_role = {f: r for f, r, _ in stages}
        ok = None
        if len(ctrl) == 2 and all(c[0] in flag_role for c in ctrl):
            (fa, acta), (fb, actb) = ctrl
            ok = (flag_role[fa] == a_role and acta == "continue" and flag_role[fb] == b_role and actb == "return False" and final_true)
        rep.ob("O20.2", "R13", fi, ok, f"if not <{flag_role.get(ctrl[0][0]) if ctrl else '?'} flag>: {ctrl[0][1] if ctrl else '?'}; if not <{flag_role.get(ctrl[1][0]) if len(ctrl) > 1 else '?'} flag>: "
               f"{ctrl[1][1] if len(ctrl) > 1 else '?'}; return {final_true}", text,
               {"flag_roles": flag_role, "control": ctrl}, node=lp)
        rep.ob("O20.2", "R13", fi, empty_rej, "if not S_idx: return False", "the empty set is not a siphon/trap", node=fi.node)
        # flags are reset per reaction
        resets = [n for n in lp.body if isinstance(n, ast.Assign) and is_const(n.value, False)]
        rep.ob("O20.2", "R13", fi, {norm(r.targets[0]) for r in resets} == set(flag_role), [alpha(r, fi.node) for r in resets],
               "both flags are reset for every reaction", node=lp)
        rep.ob("O20.2", "R13", fi, SN is not None, f"{{{fi.params[1]}[i] for i in {fi.params[3]}}}", "candidate indices are translated to species nodes through the given order")
        shapes[q] = (flag_role, ctrl)
    if len(shapes) < 2:
        return
    # duality: trap == siphon with the two role constants swapped
    s_roles = [shapes["_is_siphon_indices"][0].get(c[0]) for c in shapes["_is_siphon_indices"][1]]
    t_roles = [shapes["_is_trap_indices"][0].get(c[0]) for c in shapes["_is_trap_indices"][1]]
    swap = {"reactant": "product", "product": "reactant"}
    rep.ob("O20.2", "R13", f"{SR}:_is_trap_indices", [swap.get(r) for r in s_roles] == t_roles, f"siphon {s_roles} / trap {t_roles}",
           "the trap predicate is the dual of the siphon predicate (roles swapped)")


def enumeration(rep):
    for q, pred in (("find_siphons", "_is_siphon_indices"), ("find_traps", "_is_trap_indices")):
        fi = rep.f(SR, q)
        defs = local_defs(fi.node)
        pm = parent_map(fi.node)
        calls = [c for c in walk_local(fi.node) if isinstance(c, ast.Call) and call_name(c) in ("_is_siphon_indices", "_is_trap_indices")]
        rep.ob("O20.2", "ENUM", fi, len(calls) == 1 and call_name(calls[0]) == pred, [call_name(c) for c in calls], f"{q} tests candidates with {pred}")
        loops = [l for l in walk_local(fi.node) if isinstance(l, ast.For)]
        size_loop = [l for l in loops if isinstance(l.iter, ast.Call) and call_name(l.iter) == "range"]
        rep.need("ENUM", len(size_loop), 1, f"size loop in {q}")
        rng = size_loop[0].iter
        ok = None
        try:
            a = [linform(x, lambda n: n.id if isinstance(n, ast.Name) else None) for x in rng.args]
            ok = len(a) == 2 and a[0] == Lin({1: 1}) and a[1] == Lin({"max_size": 1, 1: 1})
        except Undecided:
            ok = None
        rep.ob("O20.2", "ENUM", fi, ok, rng, "subset sizes run 1..max_size in increasing order (needed by the minimality filter)", node=size_loop[0])
        # number of species: n = len(<labels>) with labels = _species_order(G)[1]
        so = {x.index: nm for nm, xs in defs.items() for x in xs if x.index is not None and isinstance(x.value, ast.Call) and call_name(x.value) == "_species_order"}
        sr_ = {x.index: nm for nm, xs in defs.items() for x in xs if x.index is not None and isinstance(x.value, ast.Call) and call_name(x.value) == "_split_species_reactions"}
        ORDER, LABELS, RNODES = so.get((0,)), so.get((1,)), sr_.get((1,))
        ns = [nm for nm, xs in defs.items() for x in xs if x.kind == "assign" and LABELS and norm(x.value) in (f"len({LABELS})", f"len({ORDER})")]
        NS = ns[0] if ns else None
        ms = [d for d in defs.get("max_size", []) if d.kind == "assign"]
        dv_ = param_default(fi.node, "max_size")
        okm = len(ms) == 1 and NS is not None and dv_ is not None and norm(dv_) == NS
        rep.ob("O20.2", "ENUM", fi, okm, alpha(ms[0].stmt, fi.node) if ms else "max_size", "by default all sizes up to the number of species are enumerated")
        comb = [l for l in loops if isinstance(l.iter, ast.Call) and call_name(l.iter) == "combinations"]
        okc = bool(comb) and NS is not None and norm(comb[0].iter.args[1]) == norm(size_loop[0].target) \
            and norm(origin(defs, comb[0].iter.args[0])) in (f"list(range({NS}))", f"range({NS})")
        rep.ob("O20.2", "ENUM", fi, okc, alpha(comb[0].iter, fi.node) if comb else "combinations", "every subset of the given size is a candidate")
        exits = [n for l in size_loop for n in walk_local(l) if isinstance(n, (ast.Break, ast.Return))]
        skips = [n for l in size_loop for n in walk_local(l) if isinstance(n, ast.Continue)]
        ok_sk = all([(call_name(t) if isinstance(t, ast.Call) else norm(t), s_) for t, s_ in guards_of(pm, n, size_loop[0])] == [(pred, False)] for n in skips)
        rep.ob("O20.2", "ENUM", fi, not exits and ok_sk, [type(e).__name__ for e in exits + skips], "the enumeration is never cut short (a subset is passed over only because the predicate rejects it)")
        mn = [c for c in walk_local(fi.node) if isinstance(c, ast.Call) and call_name(c) == "_minimal_sets"]
        CAND = norm(mn[0].args[0]) if mn and mn[0].args else None
        apps = [c for c in walk_local(fi.node) if CAND and isinstance(c, ast.Call) and norm(c.func) == f"{CAND}.append"]
        okp = len(apps) == 1 and [norm(t) for t, s_ in guards_of(pm, apps[0], size_loop[0]) if s_] == [norm(calls[0])] if calls else False
        if calls and apps:
            okp = okp and norm(apps[0].args[0]) == norm(calls[0].args[3])
        rep.ob("O20.2", "ENUM", fi, okp, alpha(apps[0], fi.node) if apps else "candidates.append", "a subset is kept iff it satisfies the predicate")
        if calls:
            c = calls[0]
            a_ = c.args
            okb = len(a_) == 4 and call_name(origin(defs, a_[0])) == "_as_bipartite" and norm(a_[1]) == ORDER and norm(a_[2]) == RNODES and bool(comb) \
                and isinstance(a_[3], ast.Name) and any(d_.kind == "assign" and norm(d_.value) in (f"set({norm(comb[0].target)})", f"frozenset({norm(comb[0].target)})")
                                                        for d_ in defs.get(a_[3].id, [])) and not [d_ for d_ in defs.get(a_[3].id, []) if d_.kind not in ("assign", "comp")]
            rep.ob("O20.2", "ENUM", fi, okb, alpha(c, fi.node), "the predicate receives (view, species order, reaction nodes, candidate index set) in its parameter order", node=c)
            g0 = origin(defs, a_[0]) if a_ else None
            rep.ob("O20.1", "R5", fi, isinstance(g0, ast.Call) and call_name(g0) == "_as_bipartite" and norm(g0.args[0]) == fi.params[0], g0 if g0 is not None else "G",
                   "the predicates receive the directed bipartite view")
            same_view = all(norm(x.value.args[0]) == norm(a_[0]) for nm, xs in defs.items() for x in xs if x.index is not None and isinstance(x.value, ast.Call)
                            and call_name(x.value) in ("_species_order", "_split_species_reactions"))
            rep.ob("O20.2", "ENUM", fi, same_view, "_species_order(G) / _split_species_reactions(G)", "species order and reaction nodes are taken from the same view")
        rep.ob("O20.2", "ENUM", fi, bool(mn) and len(mn) == 1, mn[0] if mn else "_minimal_sets", "the result is filtered to inclusion-minimal sets")
        rets = returns_of(fi.node)
        okr = False
        if rets and mn and LABELS:
            MIN = [nm for nm, xs in defs.items() for x in xs if x.value is mn[0]]
            m = pmatch(f"[set(({LABELS}[$i] for $i in $S)) for $S in $$min]", rets[-1].value) or pmatch(f"[{{{LABELS}[$i] for $i in $S}} for $S in $$min]", rets[-1].value)
            # the minimal sets: the local bound to _minimal_sets(..), or that call written in place
            okr = m is not None and (bool(MIN) and m["min"] == MIN[0] or m["min"] == norm(mn[0]))
        rep.ob("O20.2", "ENUM", fi, okr, alpha(rets[-1], fi.node) if rets else "return", "indices are translated back to species labels of the same order")
    fi = rep.f(SR, "_minimal_sets")
    C0 = fi.params[0]
    lp = [l for l in walk_local(fi.node) if isinstance(l, ast.For) and norm(l.iter) == C0]
    rep.need("ENUM", len(lp), 1, "scan loop in _minimal_sets")
    S_ = norm(lp[0].target)
    pm = parent_map(fi.node)
    rets = returns_of(fi.node)
    OUT = norm(rets[-1].value) if rets else None
    conts = [n for n in walk_local(fi.node) if isinstance(n, ast.Continue)]
    ok = False
    if len(conts) == 1:
        gs = guards_of(pm, conts[0], fi.node)
        ok = len(gs) == 1 and gs[0][1] and pmatch(f"any(($T.issubset({S_}) for $T in {OUT}))", gs[0][0]) is not None
    rep.ob("O20.2", "ENUM", fi, ok, "continue under any(T.issubset(S) for T in out)" if ok else (conts[0] if conts else "continue"), "a candidate is dropped iff an already kept set is contained in it")
    apps = [c for c in walk_local(fi.node) if isinstance(c, ast.Call) and norm(c.func) == f"{OUT}.append"]
    gs_app = guards_of(pm, apps[0], lp[0]) if apps else []
    rep.ob("O20.2", "ENUM", fi, len(apps) == 1 and norm(apps[0].args[0]) == S_ and all((not s_) and pmatch(f"any(($T.issubset({S_}) for $T in {OUT}))", t) is not None for t, s_ in gs_app),
           alpha(apps[0], fi.node) if apps else "out.append",
           "every other candidate is kept")


# ------------------------------------------------------------------ O20.3
def petri(rep):
    en = rep.f(NET, "PetriNet.enabled")
    # a decision function of (marking, pre-set of the transition): tabulate it on small markings
    from ..absval import eval_function, _NOVALUE
    MK, TID = en.params[1], en.params[2]
    bad, n_cases, decided = [], 0, True
    pres = ({}, {"p": 1}, {"p": 2}, {"p": 1, "q": 2}, {"q": 3})
    marks = ({}, {"p": 1}, {"p": 2, "q": 1}, {"p": 1, "q": 2}, {"q": 5}, {"p": 0, "q": 3}, {"p": 3, "q": 3})
    for pre in pres:
        def hook(expr, env, pre=pre):
            if isinstance(expr, ast.Subscript) and norm(expr.value) == "self.transitions" and norm(expr.slice) == TID:
                return "<transition>"
            if isinstance(expr, ast.Attribute) and expr.attr == "pre":
                from ..absval import eval_expr as _ev
                return pre if _ev(expr.value, env) == "<transition>" else _NOVALUE
            return _NOVALUE
        for mk in marks:
            try:
                got = eval_function(en.node, {"__resolve__": hook, MK: mk, TID: "<tid>"})
            except Undecided:
                decided = False
                break
            n_cases += 1
            want = all(mk.get(p_, 0) >= w_ for p_, w_ in pre.items())
            if got is not want:
                bad.append(f"pre={pre}, marking={mk}: {got!r}")
    rep.ob("O20.3", "CMP", en, (not bad) if decided else None, "enabled(marking, tid) on small markings",
           "a transition is enabled exactly when every pre-place holds at least its pre-weight (decided from the transition's own pre-set; every pre-place is checked)",
           {"cases": n_cases, "disagreements": bad[:6]})
    # fire
    fr = rep.f(NET, "PetriNet.fire")
    defs = local_defs(fr.node)
    frets = returns_of(fr.node)
    MV = norm(frets[-1].value) if frets and isinstance(frets[-1].value, ast.Name) else None
    m = [d for d in defs.get(MV or "", []) if d.kind == "assign"]
    rep.ob("O20.3", "R15", fr, bool(m) and norm(m[0].value) in (f"dict({fr.params[1]})", f"{fr.params[1]}.copy()"), alpha(m[0].stmt, fr.node) if m else "m", "firing works on a copy of the marking")
    seen = {}
    for lp in [l for l in walk_local(fr.node) if isinstance(l, ast.For)]:
        side = "pre" if ".pre.items()" in norm(lp.iter) else ("post" if ".post.items()" in norm(lp.iter) else None)
        if side is None:
            continue
        p, w = [norm(e) for e in lp.target.elts]
        for t, v, st in assigned_subscripts(lp):
            if norm(t.value) != MV:
                continue
            try:
                if isinstance(st, ast.AugAssign):
                    lf = Lin({"old": 1}) + (linform(v, lambda n: "w" if norm(n) == w else None).scale(1 if isinstance(st.op, ast.Add) else -1))
                else:
                    lf = linform(v, lambda n: "w" if norm(n) == w else ("old" if norm(n).replace(" ", "") == f"{MV}.get({p},0)" else None))
                want = Lin({"old": 1, "w": -1 if side == "pre" else 1})
                seen[side] = lf == want
                rep.ob("O20.3", "R15", fr, lf == want, alpha(st, fr.node), f"firing {'removes pre' if side == 'pre' else 'adds post'}-weight tokens: new = old {'-' if side == 'pre' else '+'} w",
                       {"linear_form": lf.pretty()}, node=st)
            except Undecided as exc:
                rep.ob("O20.3", "R15", fr, None, st, str(exc), node=st)
    rep.ob("O20.3", "R15", fr, set(seen) == {"pre", "post"}, sorted(seen), "both the pre-set and the post-set are applied")
    rets = returns_of(fr.node)
    rep.ob("O20.3", "R15", fr, MV is not None and len(rets) == 1, "return <copy>", "fire returns the updated copy")


# ------------------------------------------------------------------ O20.4
def build_net(rep):
    fi = rep.f(RZ, "PathwayRealizability.build_petri_net_from_flow")
    defs = local_defs(fi.node)
    pm = parent_map(fi.node)
    # roles of the locals, from where they are stored
    st_ = {norm(n.targets[0]): n.value for n in walk_local(fi.node) if isinstance(n, ast.Assign) and norm(n.targets[0]).startswith("self._")}
    m0 = pmatch("dict($m)", st_.get("self._initial_marking"))
    mt = pmatch("dict($m)", st_.get("self._target_marking"))
    net = st_.get("self._petri")
    if not (m0 and mt and isinstance(net, ast.Name)):
        raise AnalysisError("build_petri_net_from_flow: stored net / markings not recognised")
    M0, MT, NETV = m0["m"], mt["m"], net.id
    # one transition per hyperedge, named after that hyperedge: the certificate is a sequence of hyperedge ids, and the flow prescribes how often
    # EACH of them fires - a transition that stands for several hyperedges (same equation merged) fires the first one for all of them
    from ..rules import provenance as PVn
    for c in [c for c in walk_local(fi.node) if isinstance(c, ast.Call) and norm(c.func) == f"{NETV}.add_transition" and c.args]:
        enc = [l for l in enclosing_loops(pm, c, fi.node) if norm(l.iter) == "self.edges.items()"]
        def _roots(e, depth=4):
            """like all_roots, but a loop target is a root of its own (not the iterable)"""
            if isinstance(e, ast.Name) and depth > 0:
                ds = defs.get(e.id, [])
                if ds and all(d_.kind in ("assign",) and d_.value is not None for d_ in ds):
                    return [r for d_ in ds for r in _roots(d_.value, depth - 1)]
                return [e]
            return [e]
        roots = _roots(c.args[0])
        eid_names = {norm(l.target.elts[0]) for l in enc if isinstance(l.target, ast.Tuple) and l.target.elts}
        okt = bool(enc) and bool(roots) and all(isinstance(r, ast.Name) and r.id in eid_names for r in roots)
        if not okt:
            rep.ob("O20.4", "R15", fi, False, c.args[0], "every hyperedge becomes its own transition, named after it (here the transition id is "
                   f"`{norm(roots[0])[:50] if roots else norm(c.args[0])}`" + ("" if enc else ", registered outside the loop over the hyperedges") + ")", node=c)
    vl = [l for l in walk_local(fi.node) if isinstance(l, ast.For) and norm(l.iter) == "self.vertices"]
    el = [l for l in walk_local(fi.node) if isinstance(l, ast.For) and norm(l.iter) == "self.edges.items()"]
    rep.need("R15", len(vl) + len(el), 2, "vertex loop and edge loop in build_petri_net_from_flow")
    v = norm(vl[0].target)
    b = pall([f"{NETV}.add_place({v})", f"{M0}[{v}] = 0", f"{MT}[{v}] = 0"], vl[0])
    rep.ob("O20.4", "R15", fi, b is not None, "M0[v] = 0; MT[v] = 0", "species places start and end with zero tokens")
    et = pmatch("($eid, ($tail, $head))", el[0].target)
    if et is None:
        raise AnalysisError("edge loop target is not (eid, (tail, head))")
    eid, tail, head = et["eid"], et["tail"], et["head"]
    at = [c for c in walk_local(el[0]) if isinstance(c, ast.Call) and norm(c.func) == f"{NETV}.add_transition"]
    rep.need("R15", len(at), 1, "add_transition in build_petri_net_from_flow")
    a_ = at[0].args
    ok = len(a_) == 3 and norm(origin(defs, a_[0])) == eid
    rep.ob("O20.4", "R15", fi, ok, "net.add_transition(t_id, pre + supply, post + target)", "the transition is registered with (pre + supply, post + target)")
    w = {norm(t): (v_, st) for t, v_, st in assigned_subscripts(el[0])}

    def extended(e):
        """(base dict expression, {extra key text: value}) for `x = dict(base); x[k] = v` and for `{**base, k: v}`"""
        if isinstance(e, ast.Dict) and sum(1 for k_ in e.keys if k_ is None) == 1:
            base = [v_ for k_, v_ in zip(e.keys, e.values) if k_ is None][0]
            return base, {norm(k_): v_ for k_, v_ in zip(e.keys, e.values) if k_ is not None}
        if isinstance(e, ast.Name):
            src = origin(defs, e)
            mb = pmatch("dict($$b)", src) or pmatch("$$b.copy()", src) or pmatch("{**$$b}", src)
            if mb is not None:
                base = src.args[0] if isinstance(src, ast.Call) and src.args else (src.func.value if isinstance(src, ast.Call) else src.values[0])
                return base, {k[len(e.id) + 1:-1]: v_ for k, (v_, _) in w.items() if k.startswith(f"{e.id}[")}
        return None, {}
    pre_b, pre_x = extended(a_[1]) if len(a_) == 3 else (None, {})
    post_b, post_x = extended(a_[2]) if len(a_) == 3 else (None, {})
    ones_pre = [k for k, v_ in pre_x.items() if is_const(v_, 1)]
    ones_post = [k for k, v_ in post_x.items() if is_const(v_, 1)]
    VE = ones_pre[0] if len(ones_pre) == 1 and len(pre_x) == 1 else None
    VET = ones_post[0] if len(ones_post) == 1 and len(post_x) == 1 else None
    ok = VE is not None and VET is not None and VE != VET and bool(pfind(f"{NETV}.add_place({VE})", el[0])) and bool(pfind(f"{NETV}.add_place({VET})", el[0])) \
        and eid in norm(origin(defs, ast.Name(id=VE, ctx=ast.Load()))) and eid in norm(origin(defs, ast.Name(id=VET, ctx=ast.Load()))) \
        and norm(origin(defs, ast.Name(id=VE, ctx=ast.Load()))) != norm(origin(defs, ast.Name(id=VET, ctx=ast.Load())))
    rep.ob("O20.4", "R15", fi, ok, "pre_with_supply[ve] = 1; post_with_target[ve_t] = 1", "each firing consumes one supply token and deposits one target token (places private to the reaction)")
    m0w, mtw = w.get(f"{M0}[{VE}]"), w.get(f"{MT}[{VET}]")
    ok = m0w is not None and mtw is not None and norm(m0w[0]) == norm(mtw[0]) and f"{M0}[{VET}]" not in w and f"{MT}[{VE}]" not in w
    rep.ob("O20.4", "R15", fi, ok, "M0[ve] = fval; MT[ve_t] = fval", "supply place starts with flow(e) tokens, target place must end with flow(e) tokens (each reaction fires exactly flow(e) times)")
    fv = origin(defs, m0w[0]) if m0w else None
    rep.ob("O20.4", "R15", fi, fv is not None and norm(fv).replace(" ", "") == f"int(self.flow.get({eid},0))", fv if fv is not None else "fval", "the token count is the prescribed flow of that reaction")
    rep.ob("O20.4", "R15", fi, pre_b is not None and post_b is not None, "dict(pre) / dict(post)", "supply/target places extend copies of the species pre/post sets")
    pre = origin(defs, pre_b) if pre_b is not None else None
    post = origin(defs, post_b) if post_b is not None else None
    ok = pre is not None and post is not None and pmatch(f"{{$v: int($w) for $v, $w in {tail}.items() if int($w) > 0}}", pre) is not None \
        and pmatch(f"{{$v: int($w) for $v, $w in {head}.items() if int($w) > 0}}", post) is not None
    rep.ob("O20.4", "R15", fi, ok, "pre <- tail, post <- head", "reactants form the pre-set and products the post-set of the transition")


def bfs(rep):
    fi = rep.f(RZ, "PathwayRealizability.is_realizable")
    cfg = CFG(fi.node)
    pm = parent_map(fi.node)
    defs = local_defs(fi.node)
    nets = [nm for nm, ds in defs.items() for d_ in ds if d_.kind == "assign" and norm(d_.value) == "self.petri"]
    direct = [n_ for n_ in walk_local(fi.node) if isinstance(n_, ast.Attribute) and norm(n_) == "self.petri"]
    rep.need("DOM", len(nets) + (1 if direct else 0), 1, "self.petri in is_realizable")
    NETV = nets[0] if nets else "self.petri"   # normal form N24: a local that merely names the attribute is the attribute
    fires = [c for c in walk_local(fi.node) if isinstance(c, ast.Call) and norm(c.func) == f"{NETV}.fire"]
    rep.need("DOM", len(fires), 1, "net.fire in is_realizable")
    for c in fires:
        args = [norm(a) for a in c.args]
        gs = [(norm(t).replace(" ", ""), s) for t, s in guards_of(pm, c, fi.node)]
        ok = (f"{NETV}.enabled({args[0]},{args[1]})", True) in gs
        rep.ob("O20.4", "DOM", fi, ok, f"net.fire(marking, tid) under {len(gs)} guard(s)",
               "a transition is fired only where it is enabled in the same marking (no species count can go negative)", {"guards": [g for g, _ in gs]}, node=c)
    MK, TID = (norm(a) for a in fires[0].args[:2])
    # the successor tuple: marking_to_tuple applied to the result of the firing (directly or through a local)
    NEWT = [nm for nm, ds in defs.items() for d_ in ds if d_.kind == "assign" and pmatch(f"{NETV}.marking_to_tuple($$m)", d_.value) is not None
            and origin(defs, d_.value.args[0]) is fires[0]]
    rep.ob("O20.4", "DOM", fi, len(NEWT) == 1, "new_tuple = net.marking_to_tuple(net.fire(...))", "the compared marking is the one produced by the firing")
    if not NEWT:
        return
    NT = NEWT[0]
    # success only on equality with the target
    succ = [r for r in returns_of(fi.node) if isinstance(r.value, ast.Tuple) and is_const(r.value.elts[0], True)]
    rep.need("DOM", len(succ), 1, "success returns")
    M0 = [nm for nm, ds in defs.items() for d_ in ds if d_.kind == "assign" and norm(d_.value) == "dict(self.initial_marking)"]
    MT = [nm for nm, ds in defs.items() for d_ in ds if d_.kind == "assign" and norm(d_.value) == "dict(self.target_marking)"]
    TG = [nm for nm, ds in defs.items() for d_ in ds if d_.kind == "assign" and MT and pmatch(f"{NETV}.marking_to_tuple({MT[0]})", d_.value) is not None]
    ST = [nm for nm, ds in defs.items() for d_ in ds if d_.kind == "assign" and M0 and pmatch(f"{NETV}.marking_to_tuple({M0[0]})", d_.value) is not None]
    rep.ob("O20.4", "DOM", fi, len(TG) == 1 and len(ST) == 1, "target = net.marking_to_tuple(dict(self.target_marking))", "the target of the search is the target marking (and the start the initial marking)")
    if not TG or not ST:
        return
    pops = [c for c in walk_local(fi.node) if isinstance(c, ast.Call) and call_name(c) in ("popleft", "pop") and isinstance(c.func.value, ast.Name)]
    Q = pops[0].func.value.id if pops else None
    pu = [(nm, d_.index) for nm, ds in defs.items() for d_ in ds if pops and d_.value is pops[0] and d_.index is not None]
    MTUP = next((nm for nm, ix in pu if ix == (0,)), None)
    if MTUP is None and pops:
        # the queue holds bare markings:  mtuple = q.popleft()
        MTUP = next((nm for nm, ds in defs.items() for d_ in ds if d_.value is pops[0] and d_.index is None and d_.kind == "assign"), None)
    SEQ = next((nm for nm, ix in pu if ix == (1,)), None)
    for r in succ:
        gs = [(t, s) for t, s in guards_of(pm, r, fi.node)]
        inloop = bool(enclosing_loops(pm, r, fi.node))
        if inloop:
            ok = any(s and (pmatch(f"{NT} == {TG[0]}", t) is not None or pmatch(f"{TG[0]} == {NT}", t) is not None) for t, s in gs)
            rep.ob("O20.4", "DOM", fi, ok, f"return True under {len(gs)} guard(s)", "success is reported only when the reached marking equals the target", node=r)
            src = origin(defs, r.value.elts[1])
            # the sequence is not carried with the queued marking (e.g. rebuilt from predecessor links): the rule cannot follow it -> not decided
            rep.ob("O20.4", "DOM", fi, None if SEQ is None else (norm(src).replace(" ", "") == f"{SEQ}+[{TID}]"), alpha(src, fi.node),
                   "the certificate is the firing sequence that produced this marking", node=r)
        else:
            ok = any(s and f"{M0[0]}.get(" in norm(t) and f"{MT[0]}.get(" in norm(t) and "==" in norm(t) and norm(t).startswith("all(") for t, s in gs)
            rep.ob("O20.4", "DOM", fi, ok, f"return True under {len(gs)} guard(s)", "the empty sequence is returned only if the start already equals the target", node=r)
    neg = [r for r in returns_of(fi.node) if isinstance(r.value, ast.Tuple) and is_const(r.value.elts[0], False)]
    n_opaque_neg = 0
    for r in neg:
        gs = guards_of(pm, r, fi.node)
        lps_ = enclosing_loops(pm, r, fi.node)
        after_search = fi.node.body[-1] is r  # the last statement of the function: only guard clauses that return something else precede it
        okn = after_search and not lps_
        if not okn and not lps_ and gs and all(sn and isinstance(t, ast.Call) and isinstance(t.func, ast.Attribute) and isinstance(t.func.value, ast.Name)
                                               and t.func.value.id in ("self", "cls") for t, sn in gs[:1]):
            # an early rejection decided by a separate predicate of the class (a necessary condition of realizability, if it is right): what that
            # predicate computes is beyond this rule - not evidence of a wrong verdict, but not verified either
            okn = None
            n_opaque_neg += 1
        rep.ob("O20.4", "DOM", fi, okn, f"return False under {len(gs)} guard(s)",
               "a pathway is reported unrealizable only after the bounded search is exhausted (no shortcut may reject a flow that has a valid ordering)", node=r)
    rep.ob("O20.4", "DOM", fi, True if len(neg) == 1 else (None if len(neg) - n_opaque_neg == 1 else False), f"{len(neg)} negative return(s)",
           "there is exactly one negative verdict, at the end of the search")
    # visited set, FIFO, bounds only cut
    app = [c for c in walk_local(fi.node) if Q and isinstance(c, ast.Call) and norm(c.func) == f"{Q}.append" and enclosing_loops(pm, c, fi.node)]
    rep.need("DOM", len(app), 1, "q.append inside the search loop")
    for c in app:
        gs = [t for t, s in guards_of(pm, c, fi.node) if s]
        vm = [pmatch(f"{NT} not in $vis", t) for t in gs]
        vm = [m for m in vm if m]
        okv = bool(vm) and (bool(pfind(f"{vm[0]['vis']}.add({NT})", fi.node))
                            or any(norm(t_.value) == vm[0]["vis"] and norm(t_.slice) == NT for t_, v_, st_ in assigned_subscripts(fi.node)))  # visited.add(x) / visited[x] = ..
        rep.ob("O20.4", "DOM", fi, okv, "q.append under `new not in visited`", "a marking is queued once (visited set)", node=c)
        qa = c.args[0]
        okq = SEQ is not None and isinstance(qa, ast.Tuple) and len(qa.elts) == 2 and norm(qa.elts[0]) == NT \
            and norm(origin(defs, qa.elts[1])).replace(" ", "") == f"{SEQ}+[{TID}]"
        rep.ob("O20.4", "DOM", fi, None if SEQ is None else okq, alpha(c, fi.node), "queued with the sequence that reaches it", node=c)
    rep.ob("O20.4", "DOM", fi, bool(pops) and call_name(pops[0]) == "popleft", "q.popleft()" if pops and call_name(pops[0]) == "popleft" else "q.pop()", "breadth-first order (FIFO)")
    seed = [c for c in walk_local(fi.node) if Q and isinstance(c, ast.Call) and norm(c.func) == f"{Q}.append" and not enclosing_loops(pm, c, fi.node)]
    # the queue may also be created already holding the start:  deque([start]) / deque([(start, [])])
    qinit = origin(defs, ast.Name(id=Q, ctx=ast.Load())) if Q else None
    init_txt = norm(qinit.args[0].elts[0]).replace(" ", "") if isinstance(qinit, ast.Call) and call_name(qinit) == "deque" and len(qinit.args) == 1 \
        and isinstance(qinit.args[0], (ast.List, ast.Tuple)) and len(qinit.args[0].elts) == 1 else None
    starts = ([norm(seed[0].args[0]).replace(" ", "")] if len(seed) == 1 else []) + ([init_txt] if init_txt else [])
    ok_start = len(starts) == 1 and starts[0] in ((f"({ST[0]},[])",) if SEQ is not None else (f"({ST[0]},[])", ST[0]))
    rep.ob("O20.4", "DOM", fi, ok_start, alpha(seed[0], fi.node) if seed else (alpha(qinit, fi.node) if qinit is not None else "q.append((start, []))"),
           "the search starts from the initial marking with the empty sequence")
    wl = [l for l in walk_local(fi.node) if isinstance(l, ast.While)]
    cuts = [n for n in (walk_local(wl[0]) if wl else []) if isinstance(n, (ast.Break, ast.Continue))]
    okc = True
    for n in cuts:
        g = [norm(t) for t, s in guards_of(pm, n, wl[0])]
        if not any("max_states" in x or "max_depth" in x for x in g):
            okc = False
    rep.ob("O20.4", "DOM", fi, okc, [type(n).__name__ for n in cuts], "the search is cut only by the state/depth bounds")
    # the bounds that cut the search are the caller's / the configuration's; a tightening must still admit every firing sequence
    for bname in ("max_depth", "max_states"):
        for d_ in [x for x in defs.get(bname, []) if x.kind == "assign"]:
            e = d_.value
            if pmatch(f"{bname} if {bname} is not None else self._config.{bname}", e) is not None:
                continue
            mm = pmatch(f"min({bname}, $$x)", e) or pmatch(f"min($$x, {bname})", e)
            verdict, why = None, "bound re-computed in a way the rule does not model"
            if mm and bname == "max_depth":
                xs = origin(defs, [a for a in e.args if norm(a) != bname][0])
                sm = [c_ for c_ in ast.walk(xs) if isinstance(c_, ast.Call) and call_name(c_) == "sum" and c_.args and isinstance(c_.args[0], ast.GeneratorExp)]
                if sm and is_const(sm[0].args[0].elt, 1):
                    verdict, why = False, "the cap counts supply PLACES, not supply tokens: a reaction that must fire k > 1 times needs k steps"
                elif sm and M0 and isinstance(sm[0].args[0].elt, ast.Name) and pmatch(f"{M0[0]}.items()", sm[0].args[0].generators[0].iter) is not None \
                        and isinstance(sm[0].args[0].generators[0].target, ast.Tuple) and norm(sm[0].args[0].generators[0].target.elts[1]) == sm[0].args[0].elt.id:
                    verdict, why = True, "the cap is the total number of supply tokens (no firing sequence is longer)"
            rep.ob("O20.4", "DOM", fi, verdict, alpha(d_.stmt, fi.node), "a search bound other than the caller's / the configuration's must not exclude a valid firing sequence (" + why + ")", node=d_.stmt)
    tl = [l for l in walk_local(fi.node) if isinstance(l, ast.For) and norm(l.iter) == f"{NETV}.transitions"]
    rep.ob("O20.4", "DOM", fi, len(tl) == 1 and norm(tl[0].target) == TID, "for tid in net.transitions", "every transition is tried in every explored marking")
    mk = origin(defs, ast.Name(id=MK, ctx=ast.Load()))
    ok = MTUP is not None and (pmatch(f"{{$p: {MTUP}[{NETV}._place_index[$p]] for $p in {NETV}._place_index}}", mk) is not None
                               or pmatch(f"{{$p: {MTUP}[$i] for $p, $i in {NETV}._place_index.items()}}", mk) is not None)
    rep.ob("O20.4", "DOM", fi, ok, alpha(mk, fi.node),
           "the explored marking is decoded with the same place order that encodes it")
    mt = rep.f(NET, "PetriNet.marking_to_tuple")
    b = pall([f"for $p, $i in self._place_index.items():\n    $arr[$i] = int({mt.params[1]}.get($p, 0))", "return tuple($arr)"], mt.node)
    ok_enc = b is not None
    if not ok_enc:
        # positional form: iterate the index map itself - valid when index == insertion position (every write is idx[p] = len(idx), nothing is removed)
        mrets = returns_of(mt.node)
        src_ = origin(local_defs(mt.node), mrets[-1].value) if mrets else None
        pos = src_ is not None and (pmatch(f"tuple((int({mt.params[1]}.get($p, 0)) for $p in self._place_index))", src_) is not None
                                    or pmatch(f"tuple([int({mt.params[1]}.get($p, 0)) for $p in self._place_index])", src_) is not None)
        cls_ = rep.repo.cls(NET, "PetriNet")
        writes_ = [(t_, v_) for m_ in cls_.body if isinstance(m_, ast.FunctionDef) for t_, v_, st_ in assigned_subscripts(m_) if norm(t_.value) == "self._place_index"]
        removes_ = [n_ for n_ in ast.walk(cls_) if (isinstance(n_, ast.Delete) and any("self._place_index" in norm(t_) for t_ in n_.targets))
                    or (isinstance(n_, ast.Call) and isinstance(n_.func, ast.Attribute) and norm(n_.func.value) == "self._place_index" and n_.func.attr in ("pop", "popitem", "clear", "update", "setdefault"))]
        ok_enc = bool(pos and writes_ and all(norm(v_) == "len(self._place_index)" for t_, v_ in writes_) and not removes_)
    rep.ob("O20.4", "DOM", mt, ok_enc, "arr[idx] = int(m.get(p, 0))", "markings are encoded by the fixed place index")


MUTANTS = [
    dict(name="revert F-C20 (all four walks)", revert_patch="notes/fixes/C20.patch", expect="O20.1"),
    dict(name="trap consumes via out_edges", file=SR, expect="O20.1",
         old="        # does reaction consume any species in S?\n        consumes = False\n        for s_node, _, data in G.in_edges(r, data=True):",
         new="        # does reaction consume any species in S?\n        consumes = False\n        for _, s_node, data in G.out_edges(r, data=True):"),
    dict(name="trap tests the siphon implication", file=SR, expect="O20.2",
         edits=[(SR, '        if not consumes:\n            continue\n\n        # then it must produce at least one species in S', '        if not consumes:\n            return False\n\n        # then it must produce at least one species in S'),
                (SR, '                produces = True\n                break\n        if not produces:\n            return False', '                produces = True\n                break\n        if not produces:\n            continue')]),
    dict(name="sizes start at 2", file=SR, expect="O20.2",
         old="    for k in range(1, max_size + 1):\n        for combo in combinations(all_indices, k):\n            S_idx = set(combo)\n            if _is_siphon_indices(",
         new="    for k in range(2, max_size + 1):\n        for combo in combinations(all_indices, k):\n            S_idx = set(combo)\n            if _is_siphon_indices("),
    dict(name="find_traps calls the siphon predicate", file=SR, expect="O20.2",
         old="            if _is_trap_indices(G, species_nodes_sorted, reaction_nodes, S_idx):", new="            if _is_siphon_indices(G, species_nodes_sorted, reaction_nodes, S_idx):"),
    dict(name="enabled uses <=", file=NET, expect="O20.3", old="            if marking.get(p, 0) < w:", new="            if marking.get(p, 0) <= w:"),
    dict(name="fire adds pre", file=NET, expect="O20.3", old="            m[p] = m.get(p, 0) - w", new="            m[p] = m.get(p, 0) + w"),
    dict(name="fire mutates the marking", file=NET, expect="O20.3", old="        m = dict(marking)", new="        m = marking"),
    dict(name="fire without enabled", file=RZ, expect="O20.4",
         old="                if net.enabled(marking, tid):\n                    new_mark = net.fire(marking, tid)", new="                if True:\n                    new_mark = net.fire(marking, tid)"),
    dict(name="target counts one firing", file=RZ, expect="O20.4", old="            MT[ve_t] = fval", new="            MT[ve_t] = 1"),
    dict(name="success on covering instead of equality", file=RZ, expect="O20.4",
         old="                    if new_tuple == target:", new="                    if all(a >= b for a, b in zip(new_tuple, target)):"),
    dict(name="species may keep tokens", file=RZ, expect="O20.4", old="            M0[v] = 0\n            MT[v] = 0", new="            M0[v] = 0"),
    dict(name="minimality keeps supersets", file=SR, expect="O20.2",
         old="        if any(T.issubset(S) for T in out):\n            continue", new="        if any(T == S for T in out):\n            continue"),
    dict(name="empty set accepted as trap", file=SR, expect="O20.2",
         old='    if not S_idx:\n        return False\n\n    S_nodes = {species_nodes_sorted[i] for i in S_idx}\n\n    for r in reaction_nodes:\n        # does reaction consume any species in S?',
         new='    S_nodes = {species_nodes_sorted[i] for i in S_idx}\n\n    for r in reaction_nodes:\n        # does reaction consume any species in S?'),
    dict(name="certificate drops the last firing", file=RZ, expect="O20.4",
         old="                        seq2 = seq + [tid]\n", new="                        seq2 = list(seq)\n"),
]

TWINS = [
    dict(name="role compared the other way round", file=SR,
         old='        for _, s_node, data in G.out_edges(r, data=True):\n            if (\n                s_node in S_nodes\n                and data.get("role") == "product"\n                and data.get("stoich", 0) > 0\n            ):\n                produces = True\n                break\n        if not produces:\n            continue',
         new='        for _, s_node, data in G.out_edges(r, data=True):\n            if (\n                s_node in S_nodes\n                and "product" == data.get("role")\n                and data.get("stoich", 0) > 0\n            ):\n                produces = True\n                break\n        if not produces:\n            continue'),
    dict(name="fire with augmented assignment", file=NET, old="            m[p] = m.get(p, 0) + w", new="            m[p] = w + m.get(p, 0)"),
]


def netfold(rep):
    from ..rules import netfold as NF
    NF.check(rep, "O20.3", (NET, RZ, SR), "firing no longer removes pre-weight and adds post-weight tokens")
