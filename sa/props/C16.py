"""C16 - network views (bipartite, reaction strings, species graph) round-trip exactly."""
from __future__ import annotations

import ast

from ..pattern import pmatch, pfind, pall
import re
import re._parser as sre_parse  # regex syntax trees (python >= 3.11)

from ..core import (alpha, AnalysisError, call_name, const, dotted, is_const, kwarg, local_defs, norm, origin,
                    parent_map, walk_local)
from ..facts import iterations, assigned_subscripts, default_of, guards_of, returns_of, enclosing_loops, if_leaves
from ..rules import walk as W

CV = "synkit/CRN/Hypergraph/conversion.py"
RX = "synkit/CRN/Hypergraph/rxn.py"
HG = "synkit/CRN/Hypergraph/hypergraph.py"

META = {
    "explanation": (
        "R3(b) writer/reader schema agreement: the attribute keys, tag constants and arc orientation written by "
        "hypergraph_to_bipartite / hypergraph_to_species_graph are extracted and compared with the keys, defaults and "
        "orientation consumed by bipartite_to_hypergraph / species_graph_to_hypergraph (reactants = in-arcs, products = "
        "out-arcs; per-reaction stoichiometry maps preferred over the aggregated legacy values; ids forwarded to "
        "add_rxn). R3(d) printer/parser agreement for reaction strings: the printer's f-string pieces and separators "
        "are compared with the structure of the parser's regular expressions (via re._parser) and split tokens."
    ),
    "rules": {"R3b": "attribute key / tag / orientation agreement", "R3d": "printer format vs parser regex structure",
              "SRC": "def-use: which value reaches which side", "R4": "builtin hash() in a persisted/compared value"},
    "not_decided": "equality of the reconstructed multiset as a value; species labels that start with a digit or contain separator characters",
    "trusted_base": ["CPython ast", "re._parser", "sa/* analyser", "networkx DiGraph in_edges/out_edges"],
    "assumptions": ["species labels start with a letter and contain no '+', '>>', '|' or whitespace"],
}


def run(rep):
    from ..rules import walk as _W
    rep.run(_W.writer_sides_independent, "O16.1")
    rep.run(coefficient_sources)
    rep.run(view_filters)
    rep.run(bipartite)
    rep.run(species_graph)
    rep.run(strings)


# ------------------------------------------------------------------ O16.1 / O16.2: nothing of a reaction is filtered out of a view, markers are the writer's
def view_filters(rep):
    """(a) the species-graph writer records EVERY (reactant, product) pair of a reaction - the reader recovers a side only from its arcs, so a skipped
        pair (e.g. the self-arc of a species on both sides) loses that side when it was the only reactant or the only product;
    (b) the bipartite reader recognises node kinds by the writer's `kind` tag: the values of the `bipartite` flag are chosen by the caller of the
        writer (`bipartite_values`), comparing the flag with a literal hard-codes one choice."""
    w = rep.f(CV, "hypergraph_to_species_graph")
    pm = parent_map(w.node)
    pair_loops = [l for l in walk_local(w.node) if isinstance(l, ast.For) and norm(l.iter).endswith(".products.items()")
                  and any(isinstance(o, ast.For) and norm(o.iter).endswith(".reactants.items()") and any(x is l for x in ast.walk(o)) for o in walk_local(w.node))]
    rep.need("SRC", len(pair_loops), 1, "reactant x product pair loop in hypergraph_to_species_graph")
    for l in pair_loops:
        skips = [x for x in walk_local(l) if isinstance(x, (ast.Continue, ast.Break))]
        bad = []
        for x in skips:
            allg = guards_of(pm, x, l)
            gs = [t for t, sn in allg if sn]
            # a `continue` that only ends the handling of a pair whose arc exists already / was just created is not a filter
            if any(isinstance(c_, ast.Call) and call_name(c_) == "has_edge" for t, sn in allg for c_ in ast.walk(t)):
                continue
            bad.append((x, gs))
        rep.ob("O16.2", "SRC", w, not bad, bad[0][0] if bad else l.iter, "every (reactant, product) pair of a reaction is recorded in the species graph" +
               (f" (skipped under `{norm(bad[0][1][0]) if bad[0][1] else 'always'}`)" if bad else ""), node=bad[0][0] if bad else l)
    r = rep.f(CV, "bipartite_to_hypergraph")
    rd = local_defs(r.node)
    lits = []
    for c in walk_local(r.node):
        if isinstance(c, ast.Compare) and len(c.ops) == 1 and isinstance(c.ops[0], (ast.Eq, ast.NotEq, ast.In, ast.NotIn, ast.Is, ast.IsNot)):
            sides = [c.left, c.comparators[0]]
            flag = [x for x in sides if any(isinstance(y, ast.Constant) and y.value == "bipartite" for z in [origin(rd, x)] for y in ast.walk(z))]
            lit = [x for x in sides if isinstance(x, (ast.Constant, ast.Tuple, ast.List, ast.Set))]
            if flag and lit:
                lits.append(c)
    rep.ob("O16.1", "R3b", r, not lits, lits[0] if lits else "kind tags", "node kinds are read from the writer's `kind` tag, not from a literal value of the caller-chosen `bipartite` flag", node=lits[0] if lits else r.node)


# ------------------------------------------------------------------ O16.1 / O16.2: where the exported / imported coefficients come from
def coefficient_sources(rep):
    """(a) the coefficient written on an arc of a view is the coefficient of that species on THAT side of the reaction: a value that comes out of
        the signed incidence matrix is a net quantity (a species on both sides of one reaction cancels or shrinks);
    (b) a helper that remembers resolved coefficients must key them by everything it resolves them from (the side's own maps)."""
    from ..rules import provenance as PV
    from ..rules.memo import closure_memo_sites
    n = 0
    for q in ("hypergraph_to_bipartite", "hypergraph_to_species_graph"):
        w = rep.repo.maybe_func(CV, q)
        if w is None:
            continue
        d = local_defs(w.node)
        vals = []
        for st in walk_local(w.node):
            if isinstance(st, ast.Assign) and len(st.targets) == 1 and isinstance(st.targets[0], ast.Subscript) and isinstance(st.targets[0].slice, ast.Constant) \
                    and isinstance(st.targets[0].slice.value, str) and "stoich" in st.targets[0].slice.value:
                vals.append((st, st.value))
            if isinstance(st, ast.Call) and call_name(st) in ("add_edge", "add_node"):
                vals += [(st, k.value) for k in st.keywords if k.arg and "stoich" in k.arg]
            if isinstance(st, ast.Dict):
                vals += [(st, v) for k, v in zip(st.keys, st.values) if isinstance(k, ast.Constant) and isinstance(k.value, str) and "stoich" in k.value]
        for st, v in vals:
            n += 1
            net = [r for r in PV.all_roots(d, v) if isinstance(r, ast.Call) and call_name(r) in ("incidence_matrix", "stoichiometric_matrix", "build_S")]
            if net:
                rep.ob("O16.1", "SRC", w, False, net[0], "a coefficient written to the view is the species' coefficient on that side of the reaction (here it is taken from the signed "
                       "incidence matrix: a species on both sides of one reaction is exported with its net coefficient, or not at all)", node=st)
    rep.need("SRC", n, 2, "stoichiometry values written by the view writers")
    hits = 0
    for q in ("species_graph_to_hypergraph", "bipartite_to_hypergraph"):
        r = rep.repo.maybe_func(CV, q)
        if r is None:
            continue
        for node, why in closure_memo_sites(r):
            hits += 1
            rep.ob("O16.2", "R1", r, False, node, "coefficients resolved while reading a view are remembered per (reaction, species, side): " + why, node=node)
    if not hits:
        rep.ob("O16.2", "R1", f"{CV}:view readers", True, "no memoising helper with an incomplete key", "coefficients resolved while reading a view are not served from a memo keyed without the side")


# ------------------------------------------------------------------ O16.1
def _dict_keys_written(fn):
    keys = set()
    for n in walk_local(fn, into_nested=True):
        if isinstance(n, ast.Dict):
            for k in n.keys:
                if isinstance(k, ast.Constant) and isinstance(k.value, str):
                    keys.add(k.value)
        if isinstance(n, ast.Assign):
            for t in n.targets:
                if isinstance(t, ast.Subscript) and isinstance(t.slice, ast.Constant) and isinstance(t.slice.value, str):
                    keys.add(t.slice.value)
    return keys


def bipartite(rep):
    w = rep.f(CV, "hypergraph_to_bipartite")
    r = rep.f(CV, "bipartite_to_hypergraph")
    sp = rep.f(CV, "hypergraph_to_bipartite.<locals>.make_sp_attrs")
    rx = rep.f(CV, "hypergraph_to_bipartite.<locals>.make_rxn_attrs")
    G = r.params[0]
    sp_keys, rx_keys = _dict_keys_written(sp.node), _dict_keys_written(rx.node)
    # the arc attribute dict is the one splatted into add_edge
    arc_dicts = {norm(k.value) for c in walk_local(w.node) if isinstance(c, ast.Call) and call_name(c) == "add_edge" for k in c.keywords if k.arg is None}
    edge_keys = set()
    for t, v, st in assigned_subscripts(w.node):
        if norm(t.value) in arc_dicts and isinstance(t.slice, ast.Constant):
            edge_keys.add(t.slice.value)
    rep.extra["bipartite_writer_keys"] = {"species": sorted(sp_keys), "reaction": sorted(rx_keys), "arc": sorted(edge_keys)}
    for param, where, keys in (("species_label_attr", "species node", sp_keys), ("reaction_edge_id_attr", "reaction node", rx_keys),
                               ("reaction_label_attr", "reaction node", rx_keys), ("stoich_attr", "arc", edge_keys),
                               ("mol_attr", "species node", sp_keys)):
        d = default_of(r, param)
        try:
            val = const(d) if d is not None else None
        except ValueError:
            val = None
        rep.ob("O16.1", "R3b", r, val in keys, f"{param}={val!r}", f"the reader's default key is one the writer puts on the {where}",
               {"writer_keys": sorted(keys)}, node=d)
    # tags
    kinds_w = {v.value for d in (sp.node, rx.node) for n in ast.walk(d) if isinstance(n, ast.Dict)
               for k, v in zip(n.keys, n.values) if isinstance(k, ast.Constant) and k.value == "kind" and isinstance(v, ast.Constant)}
    rdefs = local_defs(r.node)
    kind_vars = {nm for nm, ds in rdefs.items() for d_ in ds if d_.kind == "assign" and pmatch("$d.get('kind')", d_.value) is not None}
    kinds_r = set()
    for n in walk_local(r.node):
        if isinstance(n, ast.Compare) and (norm(n.left) in kind_vars or pmatch("$d.get('kind')", n.left) is not None) and isinstance(n.comparators[0], ast.Constant):
            kinds_r.add(n.comparators[0].value)
    rep.ob("O16.1", "R3b", r, kinds_w == kinds_r == {"species", "reaction"}, f"writer {sorted(kinds_w)} / reader {sorted(kinds_r)}",
           "node kinds are tagged and recognised with the same constants")
    # what the label/edge_id slots hold on the writer side
    lab = [v for n in ast.walk(rx.node) if isinstance(n, ast.Dict) for k, v in zip(n.keys, n.values) if isinstance(k, ast.Constant) and k.value == "label"]
    rep.ob("O16.1", "R3b", rx, bool(lab) and norm(lab[0]) == rx.params[1], lab[0] if lab else "label", "a reaction node's label is the reaction's rule")
    eidw = [(t, v, st) for t, v, st in assigned_subscripts(rx.node) if is_const(t.slice, "edge_id")]
    pm = parent_map(rx.node)
    ok = bool(eidw) and norm(eidw[0][1]) == rx.params[0] and [norm(t) for t, s in guards_of(pm, eidw[0][2], rx.node) if s] == ["include_edge_id_attr"]
    rep.ob("O16.1", "R3b", rx, ok, alpha(eidw[0][2], rx.node) if eidw else "edge_id", "the reaction id is exported under 'edge_id' exactly when include_edge_id_attr is set")
    # orientation
    table = W.writer_table(rep.repo)
    adds = [c for c in walk_local(r.node) if isinstance(c, ast.Call) and call_name(c) == "add_rxn"]
    rep.need("R3b", len(adds), 1, "H.add_rxn in bipartite_to_hypergraph")
    c = adds[0]
    HV = norm(c.func.value)
    rep.ob("O16.1", "SRC", r, norm(origin(rdefs, c.func.value)) == "CRNHyperGraph()" and bool(returns_of(r.node)) and norm(returns_of(r.node)[-1].value) == HV, c.func,
           "the reader fills and returns a fresh network")
    RMAP, PMAP = (norm(a) for a in c.args[:2]) if len(c.args) >= 2 else (None, None)
    # a reaction node is re-added unless BOTH of its sides are empty: source (0 -> A) and sink (A -> 0) reactions have one empty side
    from ..facts import guard_atoms
    rpm = parent_map(r.node)
    atoms_ = [(norm(t_), s_) for t_, s_ in guard_atoms(guards_of(rpm, c, r.node, early=True))]
    one_sided = [a_ for a_ in atoms_ if a_ in ((RMAP, True), (PMAP, True), (f"len({RMAP}) > 0", True), (f"len({PMAP}) > 0", True))]
    rep.ob("O16.1", "SRC", r, not one_sided, f"add_rxn under {atoms_}", "a reaction with an empty reactant side or an empty product side is still re-imported "
           "(only a reaction node with no species at all is skipped)" + (f": the import requires {one_sided[0][0]} to be non-empty" if one_sided else ""), node=c)
    rl = enclosing_loops(parent_map(r.node), c, r.node)
    rnode = norm(rl[0].target) if rl else None
    dirs = {}
    for lp in [l for l in walk_local(r.node) if isinstance(l, ast.For) and isinstance(l.iter, ast.Call)
               and call_name(l.iter) in ("in_edges", "out_edges") and l.iter.args and norm(l.iter.args[0]) == rnode]:
        d = "in" if call_name(lp.iter) == "in_edges" else "out"
        tg = [norm(e) for e in lp.target.elts]
        sp_end = tg[0] if d == "in" else tg[1]
        ed = tg[2] if len(tg) > 2 else None
        acc = [(t, v, st) for t, v, st in assigned_subscripts(lp)]
        ok_lab = ok_sto = False
        for t, v, st in acc:
            m = pmatch("$m[$k] = $m.get($k, 0) + $c", st)
            if not m:
                continue
            dirs[m["m"]] = (d, lp)
            ksrc = origin(local_defs(lp), ast.Name(id=m["k"], ctx=ast.Load()))
            ok_lab = sp_end != "_" and pmatch(f"{G}.nodes[{sp_end}].get(species_label_attr, str({sp_end}))", ksrc) is not None
            csrc = origin(local_defs(lp), ast.Name(id=m["c"], ctx=ast.Load()))
            ok_sto = ed is not None and pmatch(f"int({ed}.get(stoich_attr, 1))", csrc) is not None
        rep.ob("O16.1", "R3b", r, ok_lab, f"species label <- {d}-arc", f"the species label is read from the species end of the {d}-arc", node=lp)
        rep.ob("O16.1", "R3b", r, ok_sto, f"coefficient <- {d}-arc data", "the coefficient is read from the arc's stoichiometry key (default 1)", node=lp)
    ok = RMAP is not None and dirs.get(RMAP, ("?",))[0] == table["reactant"]["dir"] and dirs.get(PMAP, ("?",))[0] == table["product"]["dir"]
    rep.ob("O16.1", "R3b", r, ok, {"reactants": dirs.get(RMAP, ("?",))[0], "products": dirs.get(PMAP, ("?",))[0]},
           "reactants are rebuilt from the arcs the writer used for reactants (in-arcs), products from out-arcs",
           {"writer": {k: v["dir"] for k, v in table.items()}})
    rk, ik = kwarg(c, "rule"), kwarg(c, "edge_id")
    im = pmatch("str($e)", ik)
    ok = RMAP is not None and isinstance(rk, ast.Name) and im is not None
    rep.ob("O16.1", "SRC", r, ok, alpha(c, r.node), "the reaction is re-added with its reactants, products, rule and id", node=c)
    EID = im["e"] if im else None
    eid_src = [d for d in rdefs.get(EID or "", []) if d.kind == "assign"]
    nd = None
    for d_ in eid_src:
        m = pmatch("$nd.get(reaction_edge_id_attr)", d_.value)
        if m:
            nd = m["nd"]
    ok = nd is not None and pmatch(f"{G}.nodes[{rnode}]", origin(rdefs, ast.Name(id=nd, ctx=ast.Load()))) is not None
    rep.ob("O16.1", "SRC", r, ok, "eid = <reaction node data>.get(reaction_edge_id_attr)", "the id is taken from the reaction node's id attribute")
    rule_src = [d for d in rdefs.get(rk.id if isinstance(rk, ast.Name) else "", []) if d.kind == "assign"]
    ok = nd is not None and bool(rule_src) and any(pmatch(f"{nd}.get(reaction_label_attr, default_rule)", d_.value) is not None for d_ in rule_src)
    rep.ob("O16.1", "SRC", r, ok, "rule = <reaction node data>.get(reaction_label_attr, default_rule)", "the rule is taken from the reaction node's label")
    # non-invertible fallback id
    hs = [n for n in walk_local(r.node) if isinstance(n, ast.Call) and isinstance(n.func, ast.Name) and n.func.id == "hash"]
    pmr = parent_map(r.node)
    for h in hs:
        gs = [norm(t) for t, s in guards_of(pmr, h, r.node) if s]
        rep.ob("O16.1", "R4", r, f"{EID} is None" in gs, "hash(...) under `eid is None`" if f"{EID} is None" in gs else f"hash(...) under {gs}",
               "the hash()-based synthetic id is used only when the view carries no edge_id (export without include_edge_id_attr does not claim id round-trip)", node=h)
    # mol labels
    molw = [(t, v, st) for t, v, st in assigned_subscripts(sp.node) if is_const(t.slice, "mol")]
    rep.ob("O16.1", "R3b", sp, bool(molw) and any(norm(molw[0][1]) == f"{nm_}[{sp.params[0]}]" for nm_, ds_ in local_defs(w.node).items() for d_ in ds_ if d_.value is not None
                                     and any(norm(leaf) == f"{w.params[0]}.species_to_mol" for leaf in if_leaves(d_.value))), alpha(molw[0][2], sp.node) if molw else "mol", "species nodes carry the species' own molecule label")
    molr = [(t, v, st) for t, v, st in assigned_subscripts(r.node) if norm(t.value) == f"{HV}.species_to_mol"]
    ok = False
    if molr:
        m = pmatch(f"{HV}.species_to_mol[$k] = $nd[mol_attr]", molr[0][2])
        if m:
            ml = enclosing_loops(pmr, molr[0][2], r.node)
            ksrc = origin(local_defs(ml[0]) if ml else rdefs, ast.Name(id=m["k"], ctx=ast.Load()))
            # the label is read from the same node's data - through the data alias or spelled out
            ok = bool(ml) and (pmatch(f"{m['nd']}.get(species_label_attr, str({norm(ml[0].target)}))", ksrc) is not None
                               or pmatch(f"{G}.nodes[{norm(ml[0].target)}].get(species_label_attr, str({norm(ml[0].target)}))", ksrc) is not None) \
                and pmatch(f"{G}.nodes[{norm(ml[0].target)}]", origin(local_defs(ml[0]), ast.Name(id=m["nd"], ctx=ast.Load()))) is not None
    rep.ob("O16.1", "R3b", r, ok, alpha(molr[0][2], r.node) if molr else "species_to_mol", "molecule labels are restored under the species label")
    # writer: coefficient and one arc per (species, reaction, side)
    Hw = w.params[0]
    for side, lp in [(s_, l) for l in walk_local(w.node) if isinstance(l, ast.For) for s_ in ("reactants", "products") if f".{s_}.items()" in norm(l.iter)]:
        sto = [(t, v, st) for t, v, st in assigned_subscripts(lp) if is_const(t.slice, "stoich")]
        c_var = norm(lp.target.elts[1])
        ok = bool(sto) and norm(sto[0][1]) == f"int({c_var})"
        rep.ob("O16.1", "R3b", w, ok, alpha(sto[0][2], w.node) if sto else lp, f"{side}: the arc carries the side's own coefficient", node=lp)
    items = [l for l in walk_local(w.node) if isinstance(l, ast.For) and f"{Hw}.edges.items()" in norm(l.iter)]
    rep.ob("O16.1", "R3b", w, len(items) == 1 and not [n for n in walk_local(items[0]) if isinstance(n, (ast.Continue, ast.Break))],
           items[0].iter if items else "for", "every stored reaction is exported")


# ------------------------------------------------------------------ O16.2
SG_KEYS = {"via", "rules", "stoich_r", "stoich_p", "stoich_r_map", "stoich_p_map"}


def species_graph(rep):
    w = rep.f(CV, "hypergraph_to_species_graph")
    r = rep.f(CV, "species_graph_to_hypergraph")
    Hw = w.params[0]
    adds = [c for c in walk_local(w.node) if isinstance(c, ast.Call) and call_name(c) == "add_edge"]
    rep.need("R3b", len(adds), 1, "G.add_edge in hypergraph_to_species_graph")
    c = adds[0]
    GW = norm(c.func.value)
    kws = {k.arg: norm(k.value) for k in c.keywords}
    rep.ob("O16.2", "R3b", w, set(kws) == SG_KEYS, sorted(kws), "a new species arc carries via, rules, legacy and per-reaction stoichiometry")
    lp_r = [l for l in walk_local(w.node) if isinstance(l, ast.For) and ".reactants.items()" in norm(l.iter)]
    lp_p = [l for l in walk_local(w.node) if isinstance(l, ast.For) and ".products.items()" in norm(l.iter)]
    rep.need("R3b", len(lp_r) + len(lp_p), 2, "reactant x product loops")
    rv, rc = [norm(e) for e in lp_r[0].target.elts]
    pv, pc = [norm(e) for e in lp_p[0].target.elts]
    el = [l for l in walk_local(w.node) if isinstance(l, ast.For) and norm(l.iter) == f"{Hw}.edges.items()"]
    rep.need("R3b", len(el), 1, "loop over H.edges.items()")
    eid = norm(el[0].target.elts[0])
    ok = [norm(a) for a in c.args[:2]] == [rv, pv]
    rep.ob("O16.2", "R3b", w, ok, "G.add_edge(<reactant>, <product>, ...)", "species arcs run reactant -> product", node=c)
    ok = kws.get("stoich_r_map", "").replace(" ", "") == f"{{{eid}:{rc}}}" and kws.get("stoich_p_map", "").replace(" ", "") == f"{{{eid}:{pc}}}" \
        and kws.get("via", "").replace(" ", "") == f"{{{eid}}}"
    rep.ob("O16.2", "R3b", w, ok, alpha(c, w.node), "first arc: per-reaction maps are keyed by the reaction id with the reactant / product coefficient", node=c)
    # update branch: <m> = data.get('<key>'); ...; <m>[eid] = coeff
    wdefs = local_defs(w.node)
    datas = [b_["d"] for _, b_ in pfind(f"$d = {GW}[{rv}][{pv}]", w.node)]
    DATA = datas[0] if datas else "?"

    def entry_of(e):
        """(key, through_get) when `e` denotes the arc's entry data[key]: directly, or through a local bound to data[key] / data.get(key)"""
        m_ = pmatch(f"{DATA}[$$k]", e)
        if m_ is not None and isinstance(e.slice, ast.Constant):
            return e.slice.value, False
        # data.setdefault(key, <fresh>) is the arc's own entry, created and stored when missing
        if pmatch(f"{DATA}.setdefault($$k, $$new)", e) is not None and isinstance(e.args[0], ast.Constant):
            return e.args[0].value, False
        if isinstance(e, ast.Name):
            for d_ in wdefs.get(e.id, []):
                if d_.kind != "assign":
                    continue
                if pmatch(f"{DATA}.setdefault($$k, $$new)", d_.value) is not None and isinstance(d_.value.args[0], ast.Constant):
                    return d_.value.args[0].value, False
                if pmatch(f"{DATA}[$$k]", d_.value) is not None and isinstance(d_.value.slice, ast.Constant):
                    return d_.value.slice.value, False
                if pmatch(f"{DATA}.get($$k)", d_.value) is not None and isinstance(d_.value.args[0], ast.Constant):
                    return d_.value.args[0].value, True
        return None, False
    stores = {}   # key -> (value text, through_get, container expr) for  <entry>[eid] = value
    pmw = parent_map(w.node)
    for t, v, st in assigned_subscripts(w.node):
        if norm(t.slice) == eid:
            k_, tg_ = entry_of(t.value)
            if k_ is not None:
                stores[k_] = (norm(v), tg_, t.value)
                # every reaction gets its entry: the store is not made conditional on the coefficient
                cond = [norm(t_) for t_, _s in guards_of(pmw, st, w.node) if {n_.id for n_ in ast.walk(t_) if isinstance(n_, ast.Name)} & {rc, pc}]
                if cond:
                    rep.ob("O16.2", "R3b", w, False, st, f"every reaction on the pair records its own coefficient (the store is skipped under {cond})", node=st)
    ok = stores.get("stoich_r_map", ("",))[0] == rc and stores.get("stoich_p_map", ("",))[0] == pc
    rep.ob("O16.2", "R3b", w, ok, "stoich_r_map[eid] = <reactant coeff>; stoich_p_map[eid] = <product coeff>",
           "a further reaction on the same species pair adds its own entry to both per-reaction maps (reactant coeff to stoich_r_map, product coeff to stoich_p_map)")
    via_add = [(x, entry_of(x.func.value)) for x in walk_local(w.node) if isinstance(x, ast.Call) and isinstance(x.func, ast.Attribute) and x.func.attr == "add"
               and entry_of(x.func.value)[0] == "via"]
    rep.ob("O16.2", "R3b", w, bool(via_add) and norm(via_add[0][0].args[0]) == eid, "via.add(eid)", "and registers its id in `via`")
    used = {"stoich_r_map": stores.get("stoich_r_map"), "stoich_p_map": stores.get("stoich_p_map"),
            "via": (None, via_add[0][1][1], via_add[0][0].func.value) if via_add else None}
    for key in ("stoich_r_map", "stoich_p_map", "via"):
        u_ = used[key]
        if u_ is None:
            okk = False
        elif not u_[1]:
            okk = True   # data['key'] itself (or a local bound to it): the arc's own object
        else:
            # a local read with .get(): a missing entry must be created *and stored back* on the arc
            nm_ = norm(u_[2])
            okk = pall([f"if {nm_} is None:\n    {nm_} = $$new\n    {DATA}['{key}'] = {nm_}"], w.node) is not None
        rep.ob("O16.2", "R3b", w, okk, f"data.get('{key}')", f"the updated object is the arc's own '{key}' entry (created and stored if missing)")
    # reader
    G = r.params[0]
    rdefs = local_defs(r.node)
    gl = [l for l in walk_local(r.node) if isinstance(l, ast.For) and pmatch(f"{G}.edges(data=True)", l.iter) is not None]
    rep.need("R3b", len(gl), 1, "for u, v, attrs in G.edges(data=True)")
    u, v, attrs = [norm(e) for e in gl[0].target.elts]
    gets = {}
    for nm, ds in rdefs.items():
        for d in ds:
            if d.kind == "assign" and isinstance(d.value, ast.Call) and call_name(d.value) == "get" and norm(d.value.func.value) == attrs:
                try:
                    gets[nm] = const(d.value.args[0])
                except ValueError:
                    pass
    inv = {}
    for nm, k in gets.items():
        inv.setdefault(k, []).append(nm)
    rep.extra["species_graph_reader_keys"] = sorted(set(gets.values()))
    ok = set(gets.values()) <= SG_KEYS and {"via", "stoich_r_map", "stoich_p_map"} <= set(gets.values())
    rep.ob("O16.2", "R3b", r, ok, sorted(set(gets.values())), "the reader consumes keys the writer produces, including `via` and both per-reaction maps")
    adds = [c_ for c_ in walk_local(r.node) if isinstance(c_, ast.Call) and call_name(c_) == "add_rxn"]
    rep.need("SRC", len(adds), 1, "H.add_rxn in species_graph_to_hypergraph")
    # the grouping: entry = <map>.setdefault(str(eid), {...}); entry['reactants'][s_r].append(sr); entry['products'][s_p].append(sp)
    pm = parent_map(r.node)
    b = pall(["$entry = $emap.setdefault(str($eid), $$init)", "$entry['reactants'][$s_r].append($sr)", "$entry['products'][$s_p].append($sp)"], gl[0])
    # the grouping idiom is not the one the rule knows (another bookkeeping structure): not decided - the follow-up facts need its variable roles
    rep.ob("O16.2", "SRC", r, True if b is not None else None, "entry['reactants'][s_r].append(sr); entry['products'][s_p].append(sp)", "arcs are grouped back by the reaction id in `via`")
    if b is None:
        return
    ok = pmatch(f"{G}.nodes[{u}].get(species_label_attr, str({u}))", origin(rdefs, ast.Name(id=b["s_r"], ctx=ast.Load()))) is not None and \
        pmatch(f"{G}.nodes[{v}].get(species_label_attr, str({v}))", origin(rdefs, ast.Name(id=b["s_p"], ctx=ast.Load()))) is not None
    rep.ob("O16.2", "SRC", r, ok, "s_r <- u, s_p <- v", "arc source = reactant species, arc target = product species")
    # preference: per-eid map first, legacy only as fallback; reactant-side names read reactant-side keys
    for var, mkey, lkey, side in ((b["sr"], "stoich_r_map", "stoich_r", "reactant"), (b["sp"], "stoich_p_map", "stoich_p", "product")):
        ds = [d for d in rdefs.get(var, []) if d.kind == "assign"]
        maps, legs = inv.get(mkey, []), inv.get(lkey, [])
        # a definition may be a conditional expression (`x = m.get(eid) if isinstance(m, dict) else None`): classify its alternatives
        def alts(d_):
            return [x for x in if_leaves(d_.value) if not is_const(x, None) and not (isinstance(x, ast.Name) and x.id == var)]
        from_map = [d for d in ds if maps and alts(d) and all(norm(x) == f"{maps[0]}.get({b['eid']})" for x in alts(d))]
        from_leg = [d for d in ds if legs and alts(d) and all(norm(x) == legs[0] for x in alts(d))]
        other = [d for d in ds if d not in from_map and d not in from_leg and alts(d) and
                 pmatch(f"int({var}) if {var} is not None else 1", d.value) is None]

        def legacy_is_fallback(d_):
            # taken only while the per-reaction value is missing: an `if var is None:` guard, or the test of the conditional expression itself
            if any(norm(t) == f"{var} is None" and s_ for t, s_ in guards_of(pm, d_.stmt, r.node)):
                return True
            v_ = d_.value
            return isinstance(v_, ast.IfExp) and ((norm(v_.test) == f"{var} is None" and norm(v_.body) == legs[0]) or (norm(v_.test) == f"{var} is not None" and norm(v_.orelse) == legs[0]))
        ok = bool(from_map) and bool(from_leg) and not other and legacy_is_fallback(from_leg[0]) \
            and min(d.stmt.lineno for d in from_map) < min(d.stmt.lineno for d in from_leg)
        rep.ob("O16.2", "R3b", r, ok, f"{side} coefficient <- {mkey}.get(eid), else {lkey}", f"{side} coefficient: the per-reaction map wins, the aggregated legacy value is only a fallback",
               {"other_sources": [alpha(d.stmt, r.node)[:60] for d in other]})
    # eids come from `via`
    el = enclosing_loops(pm, [n for n, _ in pfind("$entry = $emap.setdefault(str($eid), $$init)", gl[0], b)][0], gl[0])
    ok = False
    if el and norm(el[0].target) == b["eid"]:
        srcs = [d_.value for d_ in rdefs.get(norm(el[0].iter), []) if d_.kind == "assign"]
        vias = inv.get("via", [])
        ok = bool(vias) and any(pmatch(f"list({vias[0]})", leaf) is not None for x in srcs for leaf in if_leaves(x))
    rep.ob("O16.2", "SRC", r, ok, "for eid in list(via)", "every reaction id listed in `via` gets its own entry")
    c = adds[0]
    ml = enclosing_loops(pm, c, r.node)
    ok = False
    if ml and pmatch(f"{b['emap']}.items()", ml[0].iter) is not None:
        e2, d2 = [norm(e) for e in ml[0].target.elts]
        a0, a1 = origin(rdefs, c.args[0]), origin(rdefs, c.args[1])
        m0 = pmatch("{$s: $vals[0] for $s, $vals in $lst.items()}", a0)
        m1 = pmatch("{$s: $vals[0] for $s, $vals in $lst.items()}", a1)
        ok = m0 is not None and m1 is not None and norm(origin(rdefs, ast.Name(id=m0["lst"], ctx=ast.Load()))) == f"{d2}['reactants']" \
            and norm(origin(rdefs, ast.Name(id=m1["lst"], ctx=ast.Load()))) == f"{d2}['products']" \
            and pmatch(f"str({e2})", kwarg(c, "edge_id")) is not None
    rep.ob("O16.2", "SRC", r, ok, alpha(c, r.node), "each grouped reaction is re-added under its original id, reactants from the reactant group and products from the product group", node=c)


# ------------------------------------------------------------------ O16.3
def _regex_shape(pattern: str):
    """[(kind, detail)] for the top-level items of a regex"""
    out = []
    for op, av in sre_parse.parse(pattern):
        name = str(op)
        if name == "AT":
            out.append(("AT", str(av)))
        elif name == "SUBPATTERN":
            inner = av[3]
            items = []
            for op2, av2 in inner:
                n2 = str(op2)
                if n2 in ("MAX_REPEAT", "MIN_REPEAT"):
                    lo, hi, sub = av2
                    items.append(("REPEAT", lo, hi == sre_parse.MAXREPEAT, _cls(sub)))
                else:
                    items.append(("ONE", _cls([(op2, av2)])))
            out.append(("GROUP", items))
        elif name in ("MAX_REPEAT", "MIN_REPEAT"):
            lo, hi, sub = av
            out.append(("REPEAT", lo, hi == sre_parse.MAXREPEAT, _cls(sub)))
        elif name == "LITERAL":
            out.append(("LIT", chr(av)))
        else:
            out.append((name, str(av)))
    return out


def _cls(sub):
    txt = []
    for op, av in sub:
        n = str(op)
        if n == "IN":
            for o2, a2 in av:
                if str(o2) == "CATEGORY":
                    txt.append(str(a2))
                elif str(o2) == "RANGE":
                    txt.append(f"{chr(a2[0])}-{chr(a2[1])}")
                elif str(o2) == "NEGATE":
                    txt.append("^")
                elif str(o2) == "LITERAL":
                    txt.append(chr(a2))
        elif n == "ANY":
            txt.append("ANY")
        elif n == "LITERAL":
            txt.append(chr(av))
        elif n == "CATEGORY":
            txt.append(str(av))
    return " ".join(txt)


def _term_shape(fi, t):
    """`f"{s}" if c == 1 else f"{c}{s}"` with s running over the side's species in sorted order and c that species' coefficient.
    The iteration may be a loop or a comprehension, directly over sorted(d) or over an intermediate generator of (coefficient, species) pairs."""
    m = pmatch("f'{$s}' if $$c == 1 else f'{$$c}{$s}'", t)
    if m is None:
        return False
    c_is_name = m["c"].isidentifier()
    pm = parent_map(fi.node)
    its = iterations(pm, t, fi.node)
    if not its:
        return False
    defs = local_defs(fi.node)
    target, iter_ = its[0].target, origin(defs, its[0].iter)
    env = {}
    if isinstance(iter_, (ast.GeneratorExp, ast.ListComp)) and len(iter_.generators) == 1 and not iter_.generators[0].ifs \
            and isinstance(target, ast.Tuple) and isinstance(iter_.elt, ast.Tuple) and len(target.elts) == len(iter_.elt.elts) \
            and all(isinstance(x, ast.Name) for x in target.elts):
        env = {x.id: e for x, e in zip(target.elts, iter_.elt.elts)}
        target, iter_ = iter_.generators[0].target, iter_.generators[0].iter
    if not isinstance(target, ast.Name) or norm(env.get(m["s"], ast.Name(id=m["s"], ctx=ast.Load()))) != target.id:
        return False
    it = pmatch("sorted($$d.keys())", iter_) or pmatch("sorted($$d)", iter_)
    if it is None:
        return False
    holder_defs = local_defs(its[0].holder) if isinstance(its[0].holder, ast.For) else {}
    if not c_is_name:
        csrc = m["c"]
        for nm_, e_ in env.items():  # coefficient spelt through the pair generator's names
            if csrc == nm_:
                csrc = norm(e_)
    else:
        csrc = norm(env[m["c"]]) if m["c"] in env else norm(origin(holder_defs or defs, ast.Name(id=m["c"], ctx=ast.Load())))
    return csrc in (f"int({it['d']}[{target.id}])", f"{it['d']}[{target.id}]")


def _formatter(rep, pr):
    """the side formatter of the reaction-string printer: the one function of the module (nested in the printer or not) that holds the term format"""
    mi = rep.repo.module(CV)
    cands = []
    for q, fi in mi.funcs.items():
        if fi.node is pr.node:
            continue
        called = any(isinstance(c_, ast.Call) and isinstance(c_.func, ast.Name) and c_.func.id == fi.node.name for c_ in walk_local(pr.node))
        substituted = any(x.split(" ")[0] == fi.node.name for x in mi.inlined)  # a helper extracted later whose body was put back at its call sites
        if not (q.startswith(pr.qual + ".<locals>.") or called or substituted):
            continue
        if any(isinstance(n, ast.IfExp) and isinstance(n.body, ast.JoinedStr) and isinstance(n.orelse, ast.JoinedStr) for n in walk_local(fi.node)):
            cands.append(fi)
    if len(cands) != 1:
        raise AnalysisError(f"side formatter of hypergraph_to_rxn_strings not identified ({len(cands)} candidates)")
    rep.touch(cands[0])
    return cands[0]


def parse_keeps_multiplicity(rep):
    """printed reactions are parsed back one line -> one reaction: the lines are walked as a sequence.  A dict keyed by the line text (built from
    a list input) collapses a reaction that occurs twice under the same rule into one - the printed multiset is not the parsed one."""
    fi = rep.f(HG, "CRNHyperGraph.parse_rxns")
    pm = parent_map(fi.node)
    defs = local_defs(fi.node)
    loops = [l for l in walk_local(fi.node) if isinstance(l, ast.For) and any(isinstance(c, ast.Call) and call_name(c) in ("add_rxn_from_str", "add_rxn") for c in walk_local(l))]
    rep.need("SRC", len(loops), 1, "add loop in parse_rxns")
    lp = loops[0]
    it = lp.iter
    base = it.func.value if isinstance(it, ast.Call) and isinstance(it.func, ast.Attribute) and it.func.attr in ("items", "keys") else it
    keyed = []
    if isinstance(base, ast.Name) and base.id not in fi.params:
        for d_ in defs.get(base.id, []):
            v = d_.value
            leaves = if_leaves(v) if v is not None else []
            for leaf in leaves:
                if (isinstance(leaf, ast.Call) and norm(leaf.func) == "dict" and leaf.args and not (isinstance(leaf.args[0], ast.Name) and leaf.args[0].id in fi.params and False)) \
                        or isinstance(leaf, ast.DictComp) or (isinstance(leaf, ast.Dict) and not leaf.keys):
                    # dict(<the mapping parameter itself>) keeps an input that already is a mapping: not a collapse
                    if isinstance(leaf, ast.Call) and len(leaf.args) == 1 and isinstance(leaf.args[0], ast.Name) and leaf.args[0].id == fi.params[1]:
                        continue
                    keyed.append(d_.stmt)
    rep.ob("O16.3", "SRC", fi, not keyed, alpha(keyed[0], fi.node) if keyed else lp.iter, "reaction lines are parsed as a sequence (one reaction per line, repeated lines kept)" +
           (": the lines of a list input become keys of a dict, so textually identical lines (a reaction listed twice under one rule) collapse into one" if keyed else ""),
           node=keyed[0] if keyed else lp)


def strings(rep):
    rep.run(parse_keeps_multiplicity)
    pr = rep.f(CV, "hypergraph_to_rxn_strings")
    fmt = _formatter(rep, pr)
    FMT = fmt.node.name
    ps = rep.f(RX, "RXNSide.from_str")
    ad = rep.f(HG, "CRNHyperGraph.add_rxn_from_str")
    # printer pieces
    js = [n for n in walk_local(fmt.node) if isinstance(n, ast.IfExp) and isinstance(n.body, ast.JoinedStr) and isinstance(n.orelse, ast.JoinedStr)]
    rep.need("R3d", len(js), 1, "term format in fmt")
    t = js[0]
    one = [norm(v.value) for v in t.body.values if isinstance(v, ast.FormattedValue)]
    many = [(norm(v.value) if isinstance(v, ast.FormattedValue) else repr(v.value)) for v in t.orelse.values]
    okt = _term_shape(fmt, t)
    rep.ob("O16.3", "R3d", fmt, okt, "f'{s}' if c == 1 else f'{c}{s}'" if okt else alpha(t, fmt.node),
           "a term is printed as `<species>` for coefficient 1 and `<coefficient><species>` otherwise")
    joins = [c for c in walk_local(fmt.node) if isinstance(c, ast.Call) and call_name(c) == "join" and isinstance(c.func.value, ast.Constant)]
    sep = joins[0].func.value.value if joins else None
    empties = [r.value.value for r in returns_of(fmt.node) if isinstance(r.value, ast.Constant)]
    pdefs = local_defs(pr.node)
    line, arrow, ok = [], None, False
    for n in walk_local(pr.node):
        if isinstance(n, ast.JoinedStr):
            fv = [v.value for v in n.values if isinstance(v, ast.FormattedValue)]
            cs = [v.value for v in n.values if isinstance(v, ast.Constant)]
            if len(fv) == 2 and len(cs) == 1:
                l_, r_ = (origin(pdefs, x) for x in fv)
                # the two sides are formatted by the formatter (a call, or its body substituted for a helper extracted later)
                def side_of(e_):
                    names = {a_.attr for a_ in ast.walk(e_) if isinstance(a_, ast.Attribute) and a_.attr in ("reactants", "products")}
                    owners = {norm(a_.value) for a_ in ast.walk(e_) if isinstance(a_, ast.Attribute) and a_.attr in ("reactants", "products")}
                    formatted = pmatch(f"{FMT}($$x)", e_) is not None or any(isinstance(n_, ast.IfExp) and isinstance(n_.body, ast.JoinedStr) for n_ in ast.walk(e_))
                    return (names.pop(), owners.pop()) if len(names) == 1 and len(owners) == 1 and formatted else None
                sl_, sr_ = side_of(l_), side_of(r_)
                if sl_ and sr_ and {sl_[0], sr_[0]} == {"reactants", "products"}:
                    line, arrow = [n], cs[0]
                    ok = sl_[0] == "reactants" and sr_[0] == "products" and sl_[1] == sr_[1]
    rep.ob("O16.3", "R3d", pr, ok, "left = fmt(e.reactants); right = fmt(e.products)", "reactants are printed left of the arrow, products right")
    # parser structure
    regs = {}

    def _regex_calls(fi_):
        """[(call, pattern text, method)] for re.match(<literal>, ..) and <MODULE_CONST>.match(..) with MODULE_CONST = re.compile(<literal>)"""
        out = []
        compiled = {}
        for st in fi_.module.tree.body:
            if isinstance(st, ast.Assign) and len(st.targets) == 1 and isinstance(st.targets[0], ast.Name) and isinstance(st.value, ast.Call) \
                    and dotted(st.value.func) == "re.compile" and st.value.args and isinstance(st.value.args[0], ast.Constant):
                compiled[st.targets[0].id] = st.value.args[0].value
        for n in walk_local(fi_.node):
            if isinstance(n, ast.Call) and dotted(n.func) in ("re.match", "re.fullmatch", "re.search") and n.args and isinstance(n.args[0], ast.Constant):
                out.append((n, n.args[0].value, dotted(n.func).split(".")[1]))
            elif isinstance(n, ast.Call) and isinstance(n.func, ast.Attribute) and n.func.attr in ("match", "fullmatch", "search") \
                    and isinstance(n.func.value, ast.Name) and n.func.value.id in compiled:
                out.append((n, compiled[n.func.value.id], n.func.attr))
        return out
    for c, pat, meth in _regex_calls(ps):
        regs["term"] = pat
    for c, pat, meth in _regex_calls(ad):
        regs["rule"] = pat
    rep.extra["parser_regexes"] = regs
    if "term" not in regs or "rule" not in regs:
        raise AnalysisError("parser regexes not found")
    shape = _regex_shape(regs["term"])
    rep.extra["term_regex_shape"] = [str(x) for x in shape]
    # the extracted pattern is evaluated on the printer's own outputs (sample points of the format)
    bad = []
    try:
        rx = re.compile(regs["term"])
        for c_ in (2, 3, 10, 12, 123):
            # species labels are free text that starts with a letter: plain names, formulas, and structure strings
            for s_ in ("A", "B", "Fe", "Cl2", "x1", "Ab3c", "C=C", "A'", "A-1", "CC(C)O", "c1ccccc1", "H2O.aq"):
                m_ = rx.match(f"{c_}{s_}")
                if not m_ or m_.groups() != (str(c_), s_):
                    bad.append(f"{c_}{s_} -> {m_.groups() if m_ else None}")
        for s_ in ("A", "Fe", "Cl2"):
            if rx.match(s_):
                bad.append(f"bare {s_} matched")
        ok = not bad
    except re.error as exc:
        ok, bad = None, [str(exc)]
    rep.ob("O16.3", "R3d", ps, ok, regs["term"], "glued terms printed as `<coefficient><species>` are split back into exactly (coefficient, species), "
           "also for multi-digit coefficients; bare species do not match", {"shape": [str(x) for x in shape], "disagreements": bad[:5]})
    gdefs = local_defs(ps.node)
    rx_calls = [c for c, _p, _m in _regex_calls(ps)]
    mvar = [nm for nm, ds in gdefs.items() for d_ in ds if d_.kind == "assign" and any(d_.value is c for c in rx_calls)]
    okg = False
    if mvar:
        mv = mvar[0]
        cvars = [nm for nm, ds in gdefs.items() for d_ in ds if d_.kind == "assign" and pmatch(f"int({mv}.group(1))", d_.value) is not None]
        svars = [nm for nm, ds in gdefs.items() for d_ in ds if d_.kind == "assign" and pmatch(f"{mv}.group(2)", d_.value) is not None]
        # and these are what is accumulated: out[sp] = out.get(sp, 0) + c
        okg = bool(cvars) and bool(svars) and any(pmatch(f"$o[{svars[0]}] = $o.get({svars[0]}, 0) + {cvars[0]}", st) is not None for t_, v_, st in assigned_subscripts(ps.node))
    rep.ob("O16.3", "R3d", ps, okg, "c <- int(m.group(1)); sp <- m.group(2)", "group 1 is the coefficient, group 2 the species")
    # separators
    splits = [c for c in walk_local(ps.node) if isinstance(c, ast.Call) and call_name(c) == "split" and c.args and isinstance(c.args[0], ast.Constant)]
    tok = splits[0].args[0].value if splits else None
    rep.ob("O16.3", "R3d", ps, sep is not None and tok is not None and sep.strip() == tok, f"printer {sep!r} / parser split({tok!r})", "terms are joined and split on the same separator")
    emp_ok = any(isinstance(n.test, ast.BoolOp) and isinstance(n.test.op, ast.Or) and any(pmatch("$s == '∅'", v_) is not None for v_ in n.test.values)
                 for n in walk_local(ps.node) if isinstance(n, ast.If))
    if not emp_ok:
        # the membership spelling:  if side in ("", "∅")
        emp_ok = any(isinstance(c_, ast.Compare) and len(c_.ops) == 1 and isinstance(c_.ops[0], ast.In)
                     and isinstance(c_.comparators[0], (ast.Tuple, ast.List, ast.Set))
                     and any(is_const(e_, "∅") for e_ in c_.comparators[0].elts)
                     for n in walk_local(ps.node) if isinstance(n, ast.If) for c_ in ast.walk(n.test))
    if not emp_ok and empties == ["∅"] and any(is_const(n, "∅") for n in walk_local(ps.node)):
        emp_ok = None     # the parser mentions the symbol, in a test this rule does not read
    rep.ob("O16.3", "R3d", ps, (emp_ok and empties == ["∅"]) if emp_ok is not None else None, f"printer empties {empties}", "the printer's empty-side symbol is accepted by the parser as the empty side")
    asplit = [c for c in walk_local(ad.node) if isinstance(c, ast.Call) and call_name(c) == "split" and c.args and isinstance(c.args[0], ast.Constant)]
    toks = [c.args[0].value for c in asplit]
    rep.ob("O16.3", "R3d", ad, arrow is not None and arrow.strip() in toks and "|" in toks, f"printer arrow {arrow!r} / parser splits {toks}", "the arrow and the suffix bar are the tokens the parser splits on")
    adefs = local_defs(ad.node)
    rets = returns_of(ad.node)
    am = None
    if rets and isinstance(rets[-1].value, ast.Call) and norm(rets[-1].value.func) == "self.add_rxn" and len(rets[-1].value.args) >= 2:
        from ..core import bound
        rl = bound(ad, rets[-1].value, "rule")
        if isinstance(rl, ast.Name):
            am = {"rule": rl.id}
    ok = False
    if am:
        l_ = pmatch("RXNSide.from_str($x)", origin(adefs, rets[-1].value.args[0]))
        r_ = pmatch("RXNSide.from_str($x)", origin(adefs, rets[-1].value.args[1]))
        if l_ and r_:
            li = [d_.index for d_ in adefs.get(l_["x"], []) if d_.index is not None and isinstance(d_.value, ast.Call) and call_name(d_.value) == "split"]
            ri = [d_.index for d_ in adefs.get(r_["x"], []) if d_.index is not None and isinstance(d_.value, ast.Call) and call_name(d_.value) == "split"]
            ok = li == [(0,)] and ri == [(1,)]
    rep.ob("O16.3", "R3d", ad, ok, "left, right = core.split('>>', 1)", "text left of the arrow becomes the reactants, right of it the products")
    ok = am is not None
    rep.ob("O16.3", "R3d", ad, ok, rets[-1] if rets else "return", "the parsed sides and rule are added as one reaction")
    # rule suffix
    sfx = [n for n in walk_local(pr.node) if isinstance(n, ast.JoinedStr) and any(isinstance(v, ast.Constant) and v.value == "rule=" for v in n.values)]
    rshape = _regex_shape(regs["rule"])
    bad = []
    try:
        rr = re.compile(regs["rule"])
        for tok_ in ("R1", "r", "rule-2", "a.b", "R_10"):
            m_ = rr.search(f"rule={tok_}")
            if not m_ or m_.group(1) != tok_:
                bad.append(f"rule={tok_} -> {m_.group(1) if m_ else None}")
        ok = bool(sfx) and not bad
    except re.error as exc:
        ok, bad = None, [str(exc)]
    rep.ob("O16.3", "R3d", ad, ok, regs["rule"], "the printer's `rule=<rule>` suffix is what the parser's rule regex captures (the whole non-blank token)",
           {"shape": [str(x) for x in rshape], "disagreements": bad[:5]})
    bar = [n for n in walk_local(pr.node) if isinstance(n, ast.JoinedStr) and any(isinstance(v, ast.Constant) and "|" in str(v.value) for v in n.values)]
    rep.ob("O16.3", "R3d", pr, bool(bar), bar[0] if bar else "suffix", "the suffix is attached behind a bar")
    d = default_of(pr, "include_rule_suffix")
    rep.ob("O16.3", "R3d", pr, d is not None and is_const(d, True), d if d is not None else "include_rule_suffix", "rules are printed by default")
    ad_rx = [c for c, _p, _m in _regex_calls(ad)]
    mvar2 = [nm for nm, ds in adefs.items() for d_ in ds if d_.kind == "assign" and isinstance(d_.value, ast.Call)
             and (dotted(d_.value.func) in ("re.match", "re.search") or any(d_.value is c for c in ad_rx))]
    rule_src = [d_ for d_ in adefs.get(am["rule"] if am else "", []) if d_.kind == "assign" and mvar2 and norm(d_.value) == f"{mvar2[0]}.group(1)"]
    rep.ob("O16.3", "R3d", ad, bool(rule_src), "rule <- m.group(1)", "the captured token becomes the reaction's rule")
    # __repr__ of RXNSide is a sibling printer and must agree with fmt
    rp = rep.f(RX, "RXNSide.__repr__")
    js2 = [n for n in walk_local(rp.node) if isinstance(n, ast.IfExp) and isinstance(n.body, ast.JoinedStr)]
    ok = bool(js2) and okt and _term_shape(rp, js2[0])
    rep.ob("O16.3", "R3d", rp, ok, js2[0] if js2 else "__repr__", "RXNSide.__repr__ prints terms exactly like the reaction-string printer (sibling agreement)")


MUTANTS = [
    dict(name="reader expects another stoichiometry key", file=CV, expect="O16.1",
         old='    reaction_label_attr: str = "label",\n    stoich_attr: str = "stoich",', new='    reaction_label_attr: str = "label",\n    stoich_attr: str = "coeff",'),
    dict(name="writer reverses reactant arcs", file=CV, expect="O16.1", old="            G.add_edge(u, rnode, **attrs)", new="            G.add_edge(rnode, u, **attrs)"),
    dict(name="reader swaps in/out", file=CV, expect="O16.1",
         old="        for u, _, ed in G.in_edges(rnode, data=True):", new="        for _, u, ed in G.out_edges(rnode, data=True):"),
    dict(name="reader ignores per-reaction maps", file=CV, expect="O16.2",
         old="            if isinstance(sr_map, dict):\n                sr = sr_map.get(eid)", new="            if isinstance(sr_map, dict):\n                sr = sr_legacy"),
    dict(name="printer puts the coefficient behind the species", file=CV, expect="O16.3",
         old='                parts.append(f"{s}" if c == 1 else f"{c}{s}")\n            return " + ".join(parts)\n\n        left', new='                parts.append(f"{s}" if c == 1 else f"{s}{c}")\n            return " + ".join(parts)\n\n        left'),
    dict(name="parser takes a single digit", file=RX, expect="O16.3", old='m = re.match(r"^(\\d+)([A-Za-z].*)$", token)', new='m = re.match(r"^(\\d)([A-Za-z].*)$", token)'),
    dict(name="update branch stores product coeff in the reactant map", file=CV, expect="O16.2", old="                    sr_map[eid] = rc", new="                    sr_map[eid] = pc"),
    dict(name="reaction ids regenerated on import", file=CV, expect="O16.1",
         old="            H.add_rxn(reactants_map, products_map, rule=rule, edge_id=str(eid))", new="            H.add_rxn(reactants_map, products_map, rule=rule)"),
    dict(name="species graph import drops ids", file=CV, expect="O16.2",
         old="        H.add_rxn(reactants, products, rule=rule, edge_id=str(eid))", new="        H.add_rxn(reactants, products, rule=rule)"),
    dict(name="sides swapped when parsing", file=HG, expect="O16.3",
         old="        reactants = RXNSide.from_str(left)\n        products = RXNSide.from_str(right)", new="        reactants = RXNSide.from_str(right)\n        products = RXNSide.from_str(left)"),
    dict(name="rule regex stops at a dash", file=HG, expect="O16.3", old='m = re.search(r"rule\\s*=\\s*([^\\s]+)", meta)', new='m = re.search(r"rule\\s*=\\s*(\\w+)", meta)'),
    dict(name="edge_id exported unconditionally under another key", file=CV, expect="O16.1", old='            attrs["edge_id"] = eid', new='            attrs["eid"] = eid'),
    dict(name="species arcs reversed", file=CV, expect="O16.2", old="                    G.add_edge(\n                        r,\n                        p,", new="                    G.add_edge(\n                        p,\n                        r,"),
    dict(name="legacy value preferred over the map", file=CV, expect="O16.2",
         old="            if sp is None:\n                sp = sp_legacy", new="            if sp_legacy is not None:\n                sp = sp_legacy"),
    dict(name="writer exports the rounded-down coefficient", file=CV, expect="O16.1",
         old='            v = add_sp_node(s)\n            attrs = {}\n            if include_stoich:\n                attrs["stoich"] = int(c)', new='            v = add_sp_node(s)\n            attrs = {}\n            if include_stoich:\n                attrs["stoich"] = 1'),
]

TWINS = [
    dict(name="term regex with explicit digit class", file=RX, old='m = re.match(r"^(\\d+)([A-Za-z].*)$", token)', new='m = re.match(r"^([0-9]+)([A-Za-z].*)$", token)'),
]
